"""C01 ∘ C02 — nested proof objects over the REAL primitive rules, through the real `check_proof(no_gaps=True)`
and through the composed Lean model (`C02.checkProof` over `E2E.rules`, driver op `nested`).

A flat script the checker accepted (class Script of c01.py) is folded into a proof object with `subproof`
blocks (one or two levels), citations re-addressed (the last line of a closed block is cited through the block,
any other line of a closed block is cited directly = refused), and one adversarial change is applied to most
objects: a statement inside a block that its rule does not derive, a gap inside a block, a block whose stated
result differs from its last line, a wrong id, a forward citation, an empty last line."""
from harness.common import sexp
from harness.common import kwire
from harness.common.ctx import Timeout, time_limit


def _fold(n, rng):
    """tree over the flat positions 0..n-1: list of int | list (a block)"""
    if n < 2 or rng.random() < 0.08:
        return list(range(n))
    i = rng.randrange(0, n - 1)
    j = rng.randrange(i, n)
    inner = list(range(i, j + 1))
    if len(inner) >= 3 and rng.random() < 0.4:
        a = rng.randrange(0, len(inner) - 1)
        b = rng.randrange(a, len(inner))
        inner = inner[:a] + [inner[a:b + 1]] + inner[b + 1:]
    return list(range(i)) + [inner] + list(range(j + 1, n))


def _address(tree, pre=()):
    """flat position -> (id tuple, chain of enclosing blocks as (block id, is-last-in-block) innermost first)"""
    out = {}
    for k, node in enumerate(tree):
        here = pre + (k,)
        if isinstance(node, list):
            sub = _address(node, here)
            for f, (idt, chain) in sub.items():
                last_here = (idt[:len(here) + 1] == here + (len(node) - 1,))
                out[f] = (idt, chain + [(here, last_here)])
        else:
            out[node] = (here, [])
    return out


def _cite(addr, citing, cited):
    """the id under which `cited` is visible from `citing` (the block for the last line of a closed block)"""
    cid = addr[citing][0]
    tid, chain = addr[cited]
    cur = tid
    for blk, is_last in chain:              # innermost first
        if cid[:len(blk)] == blk:           # the citing item is inside this block: cite directly
            break
        if not is_last:
            break                            # a line of a closed block that is not its result: cited as is (refused)
        cur = blk
        # is_last for the next level refers to this block being the last of the outer one
    return cur


def build(sc, rng, pool):
    """-> (Proof, list of all ProofItems in document order, description) or None"""
    from kernel.proof import Proof, ProofItem, ItemID
    from kernel.thm import Thm
    flat = sc.prf.items
    n = len(flat)
    if n < 2:
        return None
    tree = _fold(n, rng)
    addr = _address(tree)
    mut = rng.choice(["none", "none", "wrong-stated-inside", "wrong-stated-inside", "gap-inside", "block-stated-wrong",
                      "bad-id", "forward-cite", "empty-last", "stated-equal", "stated-equal"])
    inside = [f for f in range(n) if len(addr[f][0]) > 1]
    victim = rng.choice(inside) if inside else None
    last_inside = [f for f in inside if addr[f][1] and addr[f][1][0][1]]
    if last_inside and rng.random() < 0.6:
        victim = rng.choice(last_inside)
    allitems = []

    def other_thm(th):
        cands = [p for p in pool if th is None or (p is not th and p != th)]
        return rng.choice(cands) if cands else th

    def mk(node, pre, k):
        here = pre + (k,)
        if isinstance(node, list):
            it = ProofItem(ItemID(here), "subproof")
            allitems.append(it)
            it.subproof = Proof()
            it.subproof.items = [mk(x, here, kk) for kk, x in enumerate(node)]
            if mut == "block-stated-wrong" and rng.random() < 0.7:
                it.th = other_thm(None)
            elif rng.random() < 0.15:
                f = node[-1]
                while isinstance(f, list):
                    f = f[-1]
                it.th = flat[f].th
            return it
        f = node
        src = flat[f]
        prevs = [ItemID(_cite(addr, f, p.id[0])) for p in src.prevs]
        th = None
        rule, args = src.rule, src.args
        if mut == "stated-equal" and rng.random() < 0.5:
            th = src.th
        if f == victim:
            if mut == "wrong-stated-inside":
                th = other_thm(src.th)
            elif mut == "gap-inside":
                rule, args, prevs, th = "sorry", None, [], other_thm(src.th)
            elif mut == "empty-last":
                rule, args, prevs, th = "", None, [], None
            elif mut == "forward-cite" and f + 1 < n:
                prevs = prevs + [ItemID(addr[f + 1][0])]
        idt = here
        if mut == "bad-id" and f == (victim if victim is not None else 0):
            idt = rng.choice([here[:-1] + (here[-1] + 1,), here[:-1] + (-1,), here + (0,), here[:-1] if len(here) > 1 else (here[0] + 1,)])
        it = ProofItem(ItemID(idt), rule, args=args, prevs=prevs, th=th)
        allitems.append(it)
        return it

    prf = Proof()
    prf.items = [mk(x, (), k) for k, x in enumerate(tree)]
    return prf, allitems, mut


def item_sexp(sc, it):
    rule = it.rule
    atom = "_empty_" if rule == "" else ("_gap_" if rule == "sorry" else sexp.enc(rule))
    arg_s = ["none"] if it.rule in ("subproof", "sorry", "") else sc.arg_sexp(it.rule, it.args)
    sub = ["none"]
    if it.subproof is not None:
        sub = ["sub"] + [item_sexp(sc, x) for x in it.subproof.items]
    return ["item", [str(i) for i in it.id.id], atom, arg_s, [[str(i) for i in p.id] for p in it.prevs],
            kwire.thm_to(it.th) if it.th is not None else ["none"], sub]


def canon(th):
    return kwire.canon_thm(sexp.loads(sexp.dumps(kwire.thm_to(th))))


def stored(items):
    out = []
    for it in items:
        if it.th is not None:
            out.append(it.th)
        if it.subproof is not None:
            out += stored(it.subproof.items)
    return out


def run_stream(ctx, scripts, rng, exe, per_script=2):
    """returns the sequents the REAL checker left in accepted nested proofs: [(Thm, tainted)]"""
    from kernel import theory
    cases = []
    pool = [th for sc in scripts for th in sc.ths][:400]
    for sc in scripts:
        if len(sc.prf.items) < 2:
            continue
        for _ in range(per_script):
            try:
                b = build(sc, rng, pool)
            except Exception as e:  # noqa
                ctx.count("nested:build-failed:" + type(e).__name__)
                continue
            if b is None:
                continue
            prf, allitems, mut = b
            try:
                line = sexp.dumps(["nested", [item_sexp(sc, it) for it in prf.items]])
            except Exception:  # noqa
                ctx.count("nested:unserialisable")
                continue
            try:
                with time_limit(20):
                    res = theory.thy.check_proof(prf, no_gaps=True)
                pres = ("ok", res, stored(prf.items))
            except Timeout:
                ctx.count("nested:timeout")
                continue
            except Exception as e:  # noqa
                pres = ("err", type(e).__name__)
            cases.append((line, pres, mut, any(sc.tainted)))
    out = ctx.lean_driver(exe, [c[0] for c in cases], timeout=ctx.scale(150, 900)) if cases else []
    accepted = []
    nd = 0
    for k, (line, pres, mut, tainted) in enumerate(cases):
        nblocks = line.count("(sub ")
        ctx.case(("nested", line), nontrivial=pres[0] == "ok" and nblocks > 0)
        ctx.count("nested:%s:%s" % (mut, "ok" if pres[0] == "ok" else "rejected"))
        if pres[0] == "ok":
            accepted += [(th, tainted) for th in pres[2]]
            if pres[1] is not None:
                accepted.append((pres[1], tainted))
        if out is None:
            continue
        m = sexp.loads(out[k])
        detail = None
        if m == "bad-op" or m in (["crash"], ["timeout"]):
            detail = "model answers %s" % out[k][:80]
        elif m[0] == "ok":
            if pres[0] != "ok":
                detail = "python refuses (%s), composed model accepts" % pres[1]
            else:
                pr = canon(pres[1]) if pres[1] is not None else None
                mr = kwire.canon_thm(m[1]) if m[1] != ["none"] else None
                ps = [canon(t) for t in pres[2]]
                ms = [kwire.canon_thm(t) if t != "undecodable" else None for t in m[3]]
                if pr != mr:
                    detail = "returned theorem differs: python=%s model=%s" % (pres[1], out[k][:200])
                elif ps != ms:
                    detail = "stored statements differ (%d vs %d)" % (len(ps), len(ms))
                elif m[2] != "T":
                    detail = "the run with the premise re-test (rulesG) differs from the plain run: hypothesis hguard of nested_proof_sound_partial fails"
        else:
            if pres[0] == "ok":
                detail = "python accepts, composed model refuses: %s" % out[k][:80]
            elif m != ["err"]:
                detail = "guarded and plain model runs differ on a refused proof: %s" % out[k][:80]
        if detail:
            nd += 1
            ctx.coverage["disagreements_checked"] += 1
            if nd <= 3:
                ctx.broken("correspondence:c01:nested", "%s [%s]: %s" % (detail, mut, line[:700]))
    if out is None and cases:
        ctx.broken("correspondence:c01:driver", "model driver unavailable (nested stream)")
    okc = [c for c in cases if c[1][0] == "ok" and "(sub " in c[0]]
    if okc:
        ctx.sample({"nested_proof_accepted": okc[0][0][:500]})
    return accepted
