"""C12 — loading a theory depends only on the library files.

Stages: (1) Gen.lean regenerated from the sources (import graph of library/*.json, the lazy-import table of
`load_theory_cache`, the module -> [import | load_theory] table found with `ast`); (2) Lean obligations
(Holpy.C12.Props) + driver; (3) scripted histories, each run in its own subprocess against the real loader
(harness/props/c12_runner.py) and ending in `load_theory(name, limit)`:
  (a) property oracle: the canonical dump of `theory.thy` (and the outcome) must equal that of a fresh process
      doing only the final load on the final state of the files;
  (b) correspondence: outcome of every step, files parsed, modules executed and the item list of the final
      theory must equal what the Lean model predicts.
Nothing is written inside ctx.repo: scratch libraries live under ctx.scratch and are selected by setting
`basic.dirname` inside the subprocess.
"""
import ast
import concurrent.futures
import copy
import json
import os
import shutil
import subprocess

from harness.common import sexp

EXE = "c12_model"
FUEL = 400
RUNNER = os.path.join(os.path.dirname(os.path.abspath(__file__)), "c12_runner.py")
SMALL = ["logic_base", "logic", "nat", "function", "set", "list", "int", "string", "topology", "expr", "gcl", "class"]
MEDIUM = ["rat", "sat", "hoare", "real"]
IMPORTABLE = ["data.integer", "data.proplogic", "prover.omega", "prover.simplex", "data.real", "paraverifier.gcl",
              "prover.auto.auto", "prover.simplex_strict"]
T0 = 1_500_000_000


# ------------------------------------------------------------------ reading the sources (no import of holpy)
def scan_theories(libdir):
    names, imports, items = [], {}, {}
    for f in sorted(os.listdir(libdir)):
        if f.endswith(".json"):
            with open(os.path.join(libdir, f), encoding="utf-8") as fh:
                d = json.load(fh)
            n = f[:-5]
            names.append(n)
            imports[n] = list(d["imports"])
            items[n] = [(it.get("ty"), it.get("name")) for it in d["content"]]
    return names, imports, items


def _modfile(repo, mod):
    p = os.path.join(repo, *mod.split("."))
    if os.path.isfile(p + ".py"):
        return p + ".py"
    if os.path.isfile(os.path.join(p, "__init__.py")):
        return os.path.join(p, "__init__.py")
    return None


def module_body(repo, mod):
    """Module-level statements that matter, in source order: ('imp', module) / ('load', theory)."""
    f = _modfile(repo, mod)
    if f is None:
        return []
    import warnings
    with open(f, encoding="utf-8") as fh, warnings.catch_warnings():
        warnings.simplefilter("ignore")
        tree = ast.parse(fh.read())
    acts = []
    is_init = f.endswith("__init__.py")

    def add_imp(m):
        parts = m.split(".")
        for i in range(1, len(parts) + 1):
            q = ".".join(parts[:i])
            if _modfile(repo, q):
                acts.append(("imp", q))

    def visit(stmts):
        for st in stmts:
            if isinstance(st, ast.Import):
                for a in st.names:
                    add_imp(a.name)
            elif isinstance(st, ast.ImportFrom):
                base = st.module or ""
                if st.level:
                    parts = mod.split(".")
                    up = parts[:len(parts) - st.level + (1 if is_init else 0)]
                    base = ".".join(up + ([st.module] if st.module else []))
                if base:
                    add_imp(base)
                for a in st.names:
                    sub = (base + "." + a.name) if base else a.name
                    if _modfile(repo, sub):
                        add_imp(sub)
            elif isinstance(st, ast.If):
                visit(st.body)
                visit(st.orelse)
            elif isinstance(st, ast.Try):
                visit(st.body)
                visit(st.orelse)
                visit(st.finalbody)
            elif isinstance(st, ast.With):
                visit(st.body)
            elif isinstance(st, (ast.FunctionDef, ast.ClassDef, ast.AsyncFunctionDef)):
                pass
            else:
                for node in ast.walk(st):
                    if isinstance(node, ast.Call):
                        fn = node.func
                        nm = fn.attr if isinstance(fn, ast.Attribute) else (fn.id if isinstance(fn, ast.Name) else None)
                        if nm == "load_theory" and node.args and isinstance(node.args[0], ast.Constant):
                            acts.append(("load", node.args[0].value))
    visit(tree.body)
    return acts


def scan_lazy(repo):
    """`if filename == 'x': from a import b` inside load_theory_cache -> {theory: module}."""
    with open(os.path.join(repo, "logic", "basic.py"), encoding="utf-8") as fh:
        tree = ast.parse(fh.read())
    fn = [n for n in ast.walk(tree) if isinstance(n, ast.FunctionDef) and n.name == "load_theory_cache"]
    assert len(fn) == 1, "untranslatable: load_theory_cache not found"
    table = {}
    protected = {}
    for node in ast.walk(fn[0]):
        if isinstance(node, ast.If) and isinstance(node.test, ast.Compare) and isinstance(node.test.left, ast.Name) \
                and node.test.left.id == "filename" and len(node.test.comparators) == 1 \
                and isinstance(node.test.comparators[0], ast.Constant):
            thy = node.test.comparators[0].value
            for st in node.body:
                if isinstance(st, ast.ImportFrom):
                    for a in st.names:
                        sub = st.module + "." + a.name
                        table[thy] = sub if _modfile(repo, sub) else st.module
                elif isinstance(st, ast.Import):
                    table[thy] = st.names[0].name
    # is the lazy-import block inside `with theory.fresh_theory():`?  (fix C12-1)
    for node in ast.walk(fn[0]):
        if isinstance(node, ast.With) and any("fresh_theory" in ast.unparse(i.context_expr) for i in node.items):
            for sub in ast.walk(node):
                if isinstance(sub, (ast.ImportFrom, ast.Import)):
                    protected[ast.unparse(sub)] = True
    return table, bool(protected)


def scan_modules(repo, lazy):
    mods = {}
    for root, dirs, files in os.walk(repo):
        dirs[:] = [d for d in dirs if d not in (".git", "node_modules", "__pycache__", "tests", "users", "library")]
        for fn in files:
            if fn.endswith(".py"):
                rel = os.path.relpath(os.path.join(root, fn), repo)[:-3].replace(os.sep, ".")
                if rel.endswith(".__init__"):
                    rel = rel[:-9]
                if rel == "__init__":
                    continue
                mods[rel] = None
    for m in list(mods):
        try:
            mods[m] = module_body(repo, m)
        except SyntaxError:
            mods[m] = []
    leads = {m for m, b in mods.items() if any(a[0] == "load" for a in b)}
    changed = True
    while changed:
        changed = False
        for m, b in mods.items():
            if m not in leads and any(a[0] == "imp" and a[1] in leads for a in b):
                leads.add(m)
                changed = True
    keep = sorted(leads | set(lazy.values()))
    return {m: [a for a in (mods.get(m) or []) if a[0] == "load" or a[1] in leads] for m in keep}


def gen_lean(names, imports, lazy, modules):
    tid = {n: i + 1 for i, n in enumerate(names)}
    mid = {m: i + 1 for i, m in enumerate(sorted(modules))}
    L = ["/- GENERATED by harness/props/c12.py from library/*.json, logic/basic.py and the module-level statements of",
         "   the Python modules (ast); do not edit. -/", "import Holpy.C12.Model", "namespace Holpy.C12.Gen", "open Holpy.C12", ""]
    L.append("/-- theory names, numbered in sorted order from 1 -/")
    L.append("def theoryNames : List (Nat × String) := [%s]" % ", ".join('(%d, "%s")' % (tid[n], n) for n in names))
    L.append("def names : List Name := [%s]" % ", ".join(str(tid[n]) for n in names))
    L.append("/-- `imports` of every library/*.json -/")
    L.append("def importTable : List (Name × List Name) := [%s]" % ", ".join(
        "(%d, [%s])" % (tid[n], ", ".join(str(tid.get(i, 0)) for i in imports[n])) for n in names))
    L.append("/-- `if filename == …: from … import …` in load_theory_cache -/")
    L.append("def moduleNames : List (Nat × String) := [%s]" % ", ".join('(%d, "%s")' % (mid[m], m) for m in sorted(modules)))
    L.append("def lazyTable : List (Name × Mod) := [%s]" % ", ".join(
        "(%d, %d)" % (tid[t], mid[m]) for t, m in sorted(lazy.items()) if t in tid))
    L.append("/-- module-level imports / basic.load_theory calls, in source order (only modules that lead to a load) -/")
    rows = []
    for m in sorted(modules):
        acts = ", ".join((".imp %d" % mid[a[1]]) if a[0] == "imp" else (".load %d" % tid.get(a[1], 0)) for a in modules[m])
        rows.append("(%d, [%s])" % (mid[m], acts))
    L.append("def moduleTable : List (Mod × List Act) := [%s]" % ",\n  ".join(rows))
    L += ["", "def imports (n : Name) : List Name := (importTable.lookup n).getD []",
          "def lazyOf (n : Name) : Option Mod := lazyTable.lookup n",
          "def body (m : Mod) : List Act := (moduleTable.lookup m).getD []",
          "/-- the library as the model sees it (item contents are opaque: `items` is a parameter) -/",
          "def lib (items : Name → List Item) : Lib := { names := names, imports := imports, items := items }",
          "", "end Holpy.C12.Gen", ""]
    return "\n".join(L), tid, mid


# ------------------------------------------------------------------ scenarios
class Scenario:
    """A library (versions of files), a history of ops and the final load.

    files: {name: [version, ...]}, version = {"imports": [...], "content": [json items] | None (real file), "src": path|None}
    ops:   runner ops; 'edit' carries 'version'.
    """

    def __init__(self, kind, files, ops, note=""):
        self.kind, self.files, self.ops, self.note = kind, files, ops, note

    def to_json(self):
        return {"kind": self.kind, "files": self.files, "ops": self.ops, "note": self.note}

    @staticmethod
    def from_json(d):
        return Scenario(d["kind"], d["files"], d["ops"], d.get("note", ""))

    def key(self):
        return json.dumps({"k": self.kind, "f": self.files if self.kind == "synth" else sorted(self.files), "o": self.ops},
                          sort_keys=True, ensure_ascii=False)

    def final_versions(self):
        cur = {n: 0 for n in self.files}
        for op in self.ops:
            if op["op"] == "edit":
                cur[op["name"]] = op["version"]
        return cur


def write_lib(root, files, versions, real_libdir, mtimes=None):
    """Create root/library/*.json (+ empty root/logic) with the given version of every file."""
    os.makedirs(os.path.join(root, "library"), exist_ok=True)
    os.makedirs(os.path.join(root, "logic"), exist_ok=True)
    for k, n in enumerate(sorted(files)):
        v = files[n][versions[n]]
        dst = os.path.join(root, "library", n + ".json")
        write_version(dst, n, v, real_libdir)
        t = (mtimes or {}).get(n, T0 + k)
        os.utime(dst, (t, t))


def write_version(dst, n, v, real_libdir):
    if v.get("content") is None:
        shutil.copyfile(os.path.join(real_libdir, n + ".json"), dst)
    else:
        with open(dst, "w", encoding="utf-8") as fh:
            json.dump({"name": n, "imports": v["imports"], "description": "", "content": v["content"]}, fh, ensure_ascii=False)


def closure(imports, roots):
    seen = []

    def go(n):
        if n in seen:
            return
        for i in imports.get(n, []):
            go(i)
        seen.append(n)
    for r in roots:
        go(r)
    return seen


# ---- generators
def pick_limit(rng, items, name):
    r = rng.random()
    its = [x for x in items[name] if x[1] is not None]
    if r < 0.45 or not its:
        return None
    if r < 0.55:
        return "start"
    if r < 0.93:
        return list(rng.choice(its))
    return ["thm.ax", "no_such_item_c12"]


def gen_real(rng, src, n, heavy):
    names, imports, items = src["names"], src["imports"], src["items"]
    small = [x for x in SMALL if x in names]
    out = []
    for k in range(n):
        ops = []
        r = rng.random()
        final = rng.choice(small + [x for x in MEDIUM if x in names][:2] * (1 if rng.random() < 0.3 else 0) or small)
        if r < 0.4:
            for _ in range(rng.randint(1, 3)):
                p = rng.choice(small)
                ops.append({"op": "load", "name": p, "limit": pick_limit(rng, items, p), "fault": None})
        elif r < 0.7:
            for m in rng.sample([m for m in IMPORTABLE if m in src["modules"]], rng.randint(1, 2)):
                ops.append({"op": "import", "module": m})
            if rng.random() < 0.5:
                p = rng.choice(small)
                ops.append({"op": "load", "name": p, "limit": pick_limit(rng, items, p), "fault": None})
        else:
            deps = closure(imports, [final])
            t = rng.choice(deps)
            ops.append({"op": "load", "name": rng.choice([final, final, rng.choice(small)]), "limit": None,
                        "fault": [t, rng.randrange(len(items[t]))]})
            if rng.random() < 0.4:
                p = rng.choice(small)
                ops.append({"op": "load", "name": p, "limit": pick_limit(rng, items, p), "fault": None})
        ops.append({"op": "load", "name": final, "limit": pick_limit(rng, items, final), "fault": None})
        out.append(Scenario("real", {}, ops, "real library"))
    for hv in heavy:
        out.append(Scenario("real", {}, hv, "real library, heavy"))
    return out


def heavy_histories(src, tier):
    L = lambda n, lim=None: {"op": "load", "name": n, "limit": lim, "fault": None}  # noqa: E731
    I = lambda m: {"op": "import", "module": m}  # noqa: E731
    hs = [[L("smt")]]
    if tier != "quick":
        hs += [[L("verit")], [L("real"), L("smt", "start")], [I("data.real"), L("nat"), L("real", ["thm", "real_add_comm"])],
               [L("nat"), I("prover.omega"), L("smt")], [L("sat"), L("hoare")], [I("prover.proofrec"), L("int")]]
    return [h for h in hs if all(o["op"] != "import" or o["module"] in src["modules"] for o in h)]


def gen_copy(rng, src, n):
    """Scratch copies of small real theories: touches (os.utime) between loads, reload of the metadata."""
    names, imports, items = src["names"], src["imports"], src["items"]
    out = []
    pool = [x for x in ["logic_base", "logic", "nat", "function", "set", "list", "string"] if x in names]
    for k in range(n):
        final = rng.choice(pool[2:])
        used = closure(imports, [final])
        files = {x: [{"imports": imports[x], "content": None}] for x in used}
        ops = []
        t = T0 + 1000
        ops.append({"op": "load", "name": rng.choice(used), "limit": None, "fault": None})
        for _ in range(rng.randint(1, 3)):
            r = rng.random()
            t += rng.choice([1, 7, -2000])   # also backwards in time
            if r < 0.6:
                ops.append({"op": "touch", "name": rng.choice(used), "mtime": t})
            elif r < 0.75:
                ops.append({"op": "reload"})
            else:
                p = rng.choice(used)
                ops.append({"op": "load", "name": p, "limit": pick_limit(rng, items, p),
                            "fault": [rng.choice(closure(imports, [p])), 3] if rng.random() < 0.3 else None})
        ops.append({"op": "load", "name": final, "limit": pick_limit(rng, items, final), "fault": None})
        out.append(Scenario("copy", files, ops, "scratch copy of real theories"))
    return out


def synth_theory(rng, tname, visible_consts, nconst, nthm, tag):
    """A small theory: bool constants and axioms mentioning constants (own or from elsewhere)."""
    content = [{"ty": "header", "depth": 0, "name": "H_%s_%s" % (tname, tag)}]
    own = []
    for i in range(nconst):
        c = "c_%s_%d" % (tname, i)
        own.append(c)
        content.append({"ty": "def.ax", "name": c, "type": "bool"})
        if rng.random() < 0.7 and (visible_consts or own):
            refs = rng.sample(visible_consts + own, min(len(visible_consts + own), rng.randint(1, 2)))
            content.append({"ty": "thm.ax", "name": "t_%s_%s_%d" % (tname, tag, len(content)), "vars": {},
                            "prop": " ⟶ ".join(refs + [c])})
    for i in range(nthm):
        pool = visible_consts + own
        if pool:
            refs = rng.sample(pool, min(len(pool), rng.randint(1, 3)))
            content.append({"ty": "thm.ax", "name": "t_%s_%s_%d" % (tname, tag, len(content)), "vars": {},
                            "prop": " ⟶ ".join(refs + [refs[0]])})
    return content


def gen_synth(rng, n):
    out = []
    for k in range(n):
        nt = rng.randint(3, 6)
        tn = ["s%d" % i for i in range(nt)]
        imports = {}
        for i, t in enumerate(tn):
            imports[t] = sorted(rng.sample(tn[:i], min(i, rng.randint(0, 2))), key=lambda x: rng.random())
        files = {}
        consts = {}
        for t in tn:
            vis = [c for d in closure(imports, imports[t]) for c in consts[d]]
            # sometimes refer to a constant that is NOT visible (parse error, context dependent)
            extra = [c for d in tn if d in consts and d not in closure(imports, imports[t]) for c in consts[d]]
            pool = vis + (rng.sample(extra, 1) if extra and rng.random() < 0.4 else [])
            content = synth_theory(rng, t, pool, rng.randint(1, 3), rng.randint(0, 2), "v0")
            consts[t] = [it["name"] for it in content if it["ty"] == "def.ax"]
            files[t] = [{"imports": imports[t], "content": content}]
        ops = []
        t_now = T0 + 1000
        kind = rng.choice(["edit", "edit", "edit", "fault", "touch", "reload", "limit", "cycle", "dangling", "raise", "imports"])
        final = rng.choice(tn[1:])
        first = rng.choice(tn)
        ops.append({"op": "load", "name": rng.choice([final, first, tn[-1]]), "limit": None, "fault": None})
        note = "synthetic library: " + kind
        if kind == "edit":
            for _ in range(rng.randint(1, 2)):
                victim = rng.choice(closure(imports, [final]))
                old = files[victim][-1]["content"]
                new = [copy.deepcopy(it) for it in old]
                r = rng.random()
                if r < 0.45 and any(it["ty"] == "def.ax" for it in new):
                    drop = rng.choice([it for it in new if it["ty"] == "def.ax"])   # a constant disappears
                    new = [it for it in new if it is not drop]
                elif r < 0.8:
                    new.insert(rng.randint(1, len(new)), {"ty": "def.ax", "name": "c_%s_x%d" % (victim, len(files[victim])), "type": "bool"})
                else:
                    rng.shuffle(new)
                files[victim].append({"imports": imports[victim], "content": new})
                t_now += rng.choice([1, 5, 60])
                ops.append({"op": "edit", "name": victim, "version": len(files[victim]) - 1, "mtime": t_now})
                if rng.random() < 0.4:
                    p = rng.choice(tn)
                    ops.append({"op": "load", "name": p, "limit": None, "fault": None})
        elif kind == "imports":
            # the `imports` of a file change between two loads and load_metadata is NOT called (known finding)
            cands = [t for t in closure(imports, [final]) if imports[t]]
            if cands:
                victim = rng.choice(cands)
                newimp = [i for i in imports[victim] if i != rng.choice(imports[victim])]
                files[victim].append({"imports": newimp, "content": copy.deepcopy(files[victim][0]["content"])})
                t_now += 5
                ops[0]["name"] = final
                ops.append({"op": "edit", "name": victim, "version": 1, "mtime": t_now})
                if rng.random() < 0.3:
                    ops.append({"op": "reload"})
        elif kind == "fault":
            deps = closure(imports, [final])
            tgt = rng.choice(deps)
            ops.append({"op": "load", "name": tn[-1] if rng.random() < 0.5 else final, "limit": None,
                        "fault": [tgt, rng.randrange(len(files[tgt][0]["content"]))]})
            ops[0]["name"] = rng.choice(tn[:2])
        elif kind == "touch":
            for _ in range(rng.randint(1, 3)):
                t_now += 3
                ops.append({"op": "touch", "name": rng.choice(tn), "mtime": t_now})
        elif kind == "reload":
            ops.append({"op": "reload"})
        elif kind == "limit":
            pass
        elif kind == "cycle":
            # the library has a cycle from the start: every load must report it
            a = rng.choice(tn[1:])
            root = closure(imports, [a])[0]
            files[root][0]["imports"] = [a]
            ops.append({"op": "load", "name": tn[0], "limit": None, "fault": None})
        elif kind == "dangling":
            files[rng.choice(tn)][0]["imports"].append("no_such_theory")
            ops.append({"op": "load", "name": tn[0], "limit": None, "fault": None})
        elif kind == "raise":
            # a duplicate constant: unchecked_extend raises while the file is parsed (persistent fault)
            victim = rng.choice(closure(imports, [final]))
            cs = [it for it in files[victim][0]["content"] if it["ty"] == "def.ax"]
            if cs:
                files[victim][0]["content"].append(dict(cs[0]))
            ops.append({"op": "load", "name": final, "limit": None, "fault": None})
        lim = None
        its = [(it["ty"], it["name"]) for it in files[final][-1]["content"]]
        r = rng.random()
        if kind == "limit" or r < 0.4:
            lim = rng.choice([list(rng.choice(its)), "start", ["thm.ax", "missing_c12"], list(rng.choice(its))])
        ops.append({"op": "load", "name": final, "limit": lim, "fault": None})
        out.append(Scenario("synth", files, ops, note))
    return out


# ------------------------------------------------------------------ running the implementation
def run_runner(ctx, spec, tag, timeout=900):
    p = os.path.join(ctx.scratch, "spec-%s.json" % tag)
    with open(p, "w") as fh:
        json.dump(spec, fh)
    env = dict(os.environ)
    env["PYTHONDONTWRITEBYTECODE"] = "1"
    env["PYTHONPATH"] = spec["repo"]
    env["PYTHONHASHSEED"] = "0"
    try:
        r = subprocess.run(["/venv/bin/python", RUNNER, p], cwd=spec["repo"], capture_output=True, text=True, timeout=timeout, env=env)
    except subprocess.TimeoutExpired:
        return {"error": "timeout"}
    for line in r.stdout.splitlines():
        if line.startswith("@@C12@@"):
            return json.loads(line[7:])
    return {"error": "runner failed: " + (r.stderr or r.stdout)[-600:]}


def prepare(ctx, sc, idx, src):
    """Scratch libraries + runner specs for the history run (H) and the fresh run (F)."""
    real_libdir = os.path.join(ctx.repo, "library")
    interest = sorted(src["modules"])
    hspec = {"repo": ctx.repo, "libroot": None, "interest": interest, "ops": []}
    fspec = {"repo": ctx.repo, "libroot": None, "interest": interest, "ops": [copy.deepcopy(sc.ops[-1])]}
    if sc.kind != "real":
        hroot = os.path.join(ctx.scratch, "h%s" % idx)
        froot = os.path.join(ctx.scratch, "f%s" % idx)
        write_lib(hroot, sc.files, {n: 0 for n in sc.files}, real_libdir)
        write_lib(froot, sc.files, sc.final_versions(), real_libdir)
        hspec["libroot"], fspec["libroot"] = hroot, froot
    for j, op in enumerate(sc.ops):
        op = copy.deepcopy(op)
        if op["op"] == "edit":
            srcp = os.path.join(ctx.scratch, "h%s-edit%d.json" % (idx, j))
            write_version(srcp, op["name"], sc.files[op["name"]][op["version"]], real_libdir)
            op["src"] = srcp
        hspec["ops"].append(op)
    return hspec, fspec


def fresh_key(sc):
    fin = sc.ops[-1]
    if sc.kind == "real":
        return json.dumps(["real", fin["name"], fin["limit"]])
    fv = sc.final_versions()
    return json.dumps([sc.kind, {n: sc.files[n][fv[n]] for n in sc.files}, fin["name"], fin["limit"]], sort_keys=True, ensure_ascii=False)


# ------------------------------------------------------------------ model side
def map_res(res):
    if res == "ok":
        return "ok"
    t, msg, where = res["type"], res["msg"], res.get("where", [])
    if t == "TheoryException" and msg.startswith("Cycle in imports"):
        return "cycle"
    if t == "TheoryException" and "limit" in msg and "not found" in msg:
        return "limit"
    if t == "Injected" or t == "TheoryException":
        return "parse"
    if t == "RecursionError":
        return "order"
    if t == "KeyError":
        if "check_topological_sort" in where or (where and where[-1] == "load_theory_cache") or (where and where[-1] == "load_theory"):
            return "key"
        return "order"
    return "other:" + t


class ModelView:
    """Numbering of theories/items/modules of one scenario for the Lean model."""

    def __init__(self, sc, src, flags):
        self.sc, self.src = sc, src
        if sc.kind == "real":
            self.names = list(src["names"])
            self.files = {n: [{"imports": src["imports"][n], "items": src["items"][n]}] for n in self.names}
        else:
            self.names = sorted(sc.files)
            self.files = {}
            for n in self.names:
                vs = []
                for v in sc.files[n]:
                    its = src["items"][n] if v.get("content") is None else [(it.get("ty"), it.get("name")) for it in v["content"]]
                    vs.append({"imports": v["imports"], "items": its, "content": v.get("content")})
                self.files[n] = vs
        self.tid = {n: i + 1 for i, n in enumerate(self.names)}
        self.mods = sorted(src["modules"])
        self.mid = {m: i + 1 for i, m in enumerate(self.mods)}
        self.flags = flags or {}

    def item(self, n, v, i):
        return self.tid[n] * 1000000 + v * 10000 + i

    def unitem(self, x):
        return self.names[x // 1000000 - 1], (x % 1000000) // 10000, x % 10000

    def rules(self):
        rules = []
        if self.sc.kind == "synth":
            definers = {}
            for n in self.names:
                for v, ver in enumerate(self.files[n]):
                    for i, it in enumerate(ver["content"]):
                        if it["ty"] == "def.ax":
                            definers.setdefault(it["name"], []).append(self.item(n, v, i))
            seen_names = {}
            for n in self.names:
                for v, ver in enumerate(self.files[n]):
                    for i, it in enumerate(ver["content"]):
                        if it["ty"] == "thm.ax":
                            refs = [w for w in it["prop"].split() if w != "⟶"]
                            groups = [definers.get(w, [0]) for w in dict.fromkeys(refs)]
                            rules.append([self.item(n, v, i), "ok", groups])
            # duplicate constants: the second definition raises when the first is visible -- only the
            # same-file case is generated ("raise" scenarios); rule: raise
            for n in self.names:
                for v, ver in enumerate(self.files[n]):
                    names_seen = set()
                    for i, it in enumerate(ver["content"]):
                        if it["ty"] == "def.ax":
                            if it["name"] in names_seen:
                                rules.append([self.item(n, v, i), "raise", []])
                            names_seen.add(it["name"])
        else:
            for n, fl in self.flags.items():
                if n in self.tid:
                    for i, ok in enumerate(fl):
                        if not ok:
                            rules.append([self.item(n, 0, i), "err", []])
        return rules

    def limit(self, n, v, lim):
        if lim is None:
            return "none"
        if lim == "start":
            return "start"
        its = self.files[n][v]["items"]
        for i, (ty, nm) in enumerate(its):
            if ty == lim[0] and nm == lim[1]:
                return ["item", self.item(n, v, i)]
        return ["item", 999999999]

    def line(self, pre=()):
        sc, src = self.sc, self.src
        self.npre = len(pre)
        cur = {n: 0 for n in self.names}
        files = []
        for k, n in enumerate(self.names):
            v = self.files[n][0]
            files.append([self.tid[n], [self.tid.get(i, 0) for i in v["imports"]],
                          [self.item(n, 0, i) for i in range(len(v["items"]))], T0 + k])
        lazy = [[self.tid[t], self.mid[m]] for t, m in sorted(src["lazy"].items()) if t in self.tid]
        mods = [[self.mid[m], [["imp", self.mid[a[1]]] if a[0] == "imp" else ["load", self.tid.get(a[1], 0)] for a in src["modules"][m]]]
                for m in self.mods]
        ops = [["imp", self.mid[m]] for m in pre]
        for op in sc.ops:
            if op["op"] == "load":
                f = op.get("fault")
                n = op["name"]
                if n not in self.tid:
                    ops.append(["load", 0, "none", "none"])
                    continue
                fault = "none" if not f else self.item(f[0], cur[f[0]], f[1])
                ops.append(["load", self.tid[n], self.limit(n, cur[n], op["limit"]), fault])
            elif op["op"] == "import":
                ops.append(["imp", self.mid[op["module"]]])
            elif op["op"] == "touch":
                ops.append(["touch", self.tid[op["name"]], op["mtime"]])
            elif op["op"] == "edit":
                n, v = op["name"], op["version"]
                cur[n] = v
                ops.append(["edit", self.tid[n], [self.tid.get(i, 0) for i in self.files[n][v]["imports"]],
                            [self.item(n, v, i) for i in range(len(self.files[n][v]["items"]))], op["mtime"]])
            elif op["op"] == "reload":
                ops.append(["reload"])
        return sexp.dumps(["run", FUEL, [self.tid[n] for n in self.names], files, lazy, mods, self.rules(), ops])


def parse_model(line, mv):
    x = sexp.loads(line)
    if x == "bad-op":
        return None
    ops = []
    for res, evs in x[0][mv.npre:]:
        reads, mods = [], []
        for ev in evs:
            if ev == "meta":
                reads.append("#meta")
            elif ev[0] == "read":
                reads.append(mv.names[int(ev[1]) - 1])
            elif ev[0] == "exec":
                mods.append(mv.mods[int(ev[1]) - 1])
        ops.append({"res": res, "reads": reads, "mods": mods})
    thy = None if x[1] == "none" else [mv.unitem(int(i)) for i in x[1]]
    return {"ops": ops, "thy": thy}


# ------------------------------------------------------------------ judging one scenario
def differs(h, f):
    """property oracle (a): outcome and theory after the final load, history vs fresh process"""
    hres, fres = h["ops"][-1]["res"], f["ops"][-1]["res"]
    hc = "ok" if hres == "ok" else (hres["type"], hres["msg"][:80])
    fc = "ok" if fres == "ok" else (fres["type"], fres["msg"][:80])
    if hc != fc:
        return "outcome after the history: %s; in a fresh process: %s" % (hc, fc)
    if hc != "ok" and not (hres["type"] == "TheoryException" and "limit" in hres["msg"]):
        return None       # both fail the same way: theory.thy is whatever it was before
    hd, fd = h["final"]["dump"], f["final"]["dump"]
    if hd == fd:
        return None
    if hd is None or fd is None:
        return "theory.thy is %s after the history and %s in a fresh process" % ("None" if hd is None else "set", "None" if fd is None else "set")
    for part in ("types", "consts", "theorems", "attributes", "overload", "keys"):
        if hd[part] != fd[part]:
            a, b = {json.dumps(x) for x in hd[part]}, {json.dumps(x) for x in fd[part]}
            return "%s differ: only after the history %s; only in a fresh process %s" % (part, sorted(a - b)[:4], sorted(b - a)[:4])
    return "dumps differ"


def reference(mv):
    """Independent reference loader (plain Python over the files of the scenario, final versions): outcome and
    item list of theory.thy after the final load.  Synthetic libraries: an axiom parses iff the constants it
    mentions are visible, a constant defined twice in a file raises.  Real theories: the per-item error flags
    are taken from the implementation (item contents are not interpreted here)."""
    sc = mv.sc
    cur = sc.final_versions() if sc.kind != "real" else {n: 0 for n in mv.names}
    files = {n: mv.files[n][cur[n]] for n in mv.names}
    fin = sc.ops[-1]
    done = set()

    def visit(n, path):
        if n not in files:
            raise KeyError(n)
        if n in done:
            return
        if n in path:
            raise RecursionError(n)
        for i in files[n]["imports"]:
            visit(i, path + [n])
        done.add(n)
    try:
        for n in sorted(mv.names):
            visit(n, [])
    except KeyError:
        return "key", None
    except RecursionError:
        return "cycle", None
    if fin["name"] not in files:
        return "key", None

    def order(roots):
        out = []

        def go(n):
            if n in out:
                return
            for i in files[n]["imports"]:
                go(i)
            out.append(n)
        for r in roots:
            go(r)
        return out
    memo = {}

    def content(n):
        """list of ok flags, or None when parsing the file raises"""
        if n in memo:
            return memo[n]
        visible = set()
        for p in order(files[n]["imports"]):
            c = content(p)
            if c is None:
                memo[n] = None
                return None
            if sc.kind == "synth":
                visible |= {it["name"] for it, ok in zip(files[p]["content"], c) if ok and it["ty"] == "def.ax"}
        res = []
        if sc.kind == "synth":
            for it in files[n]["content"]:
                if it["ty"] == "def.ax":
                    if it["name"] in visible:
                        memo[n] = None
                        return None
                    visible.add(it["name"])
                    res.append(True)
                elif it["ty"] == "thm.ax":
                    res.append(all(w in visible for w in it["prop"].split() if w != "⟶"))
                else:
                    res.append(True)
        else:
            fl = mv.flags.get(n)
            res = list(fl) if fl is not None else [True] * len(files[n]["items"])
        memo[n] = res
        return res
    own = content(fin["name"])
    if own is None:
        return "parse", None
    imp_items = []
    for p in order(files[fin["name"]]["imports"]):
        imp_items += [[p, i] for i, ok in enumerate(content(p)) if ok]
    lim = fin["limit"]
    if lim == "start":
        return "ok", (imp_items, [])
    stop = len(own)
    if lim is not None:
        stop = next((i for i, (ty, nm) in enumerate(files[fin["name"]]["items"]) if ty == lim[0] and nm == lim[1]), None)
        if stop is None:
            return "limit", None
    return "ok", (imp_items, [[fin["name"], i] for i in range(stop) if own[i]])


def judge_spec(ctx, sc, run, mv, which):
    """property oracle (c): outcome and items of theory.thy against the reference loader"""
    kind, exp = reference(mv)
    got = map_res(run["ops"][-1]["res"])
    fin = sc.ops[-1]
    what = None
    if got != kind:
        what = "outcome %s (%s), the library says %s" % (got, run["ops"][-1]["res"], kind)
    elif kind == "ok":
        items = run["final"]["thy_items"] or []
        own = [x for x in items if x[0] == fin["name"]]
        imp = [x for x in items if x[0] != fin["name"]]
        if sorted(map(tuple, imp)) != sorted(map(tuple, exp[0])):
            a, b = {tuple(x) for x in imp}, {tuple(x) for x in exp[0]}
            what = "items of imported theories differ: extra %s, missing %s" % (sorted(a - b)[:4], sorted(b - a)[:4])
        elif own != exp[1]:
            what = "own items loaded %s..., expected %s... (%d / %d items)" % (own[-3:], exp[1][-3:], len(own), len(exp[1]))
    if what is not None:
        key = STALE_IMPORTS if (which == "history" and stale_imports_class(sc)) else (
            "spec:" + classify_history(sc)[8:] if which == "history" else "spec-fresh:" + json.dumps(
                [fin["name"], fin["limit"]], ensure_ascii=False) + ("" if sc.kind == "real" else "|" + classify_history(sc)[-200:]))
        ctx.violation(key,
            "load_theory(%s, limit=%s) in a %s: %s. History: %s (%s)" % (
                fin["name"], fin["limit"], "fresh process" if which == "fresh" else "process with a history", what,
                json.dumps(sc.ops if which == "history" else sc.ops[-1:], ensure_ascii=False)[:500], sc.note),
            {"scenario": sc.to_json(), "difference": what, "which": which})
    return what


STALE_IMPORTS = "stale-imports:imports-of-a-file-edited-without-load_metadata"


def stale_imports_class(sc):
    """an edit changes the `imports` of a file and no load_metadata follows before the final load"""
    pending = False
    cur = {n: 0 for n in sc.files}
    for op in sc.ops:
        if op["op"] == "edit":
            if sc.files[op["name"]][op["version"]]["imports"] != sc.files[op["name"]][cur[op["name"]]]["imports"]:
                pending = True
            cur[op["name"]] = op["version"]
        elif op["op"] == "reload":
            pending = False
    return pending


def classify_history(sc):
    """Key of a violation: the class of the history when a whole class triggers the defect, else the history."""
    if stale_imports_class(sc):
        return STALE_IMPORTS
    return "history:" + json.dumps(sc.ops, sort_keys=True, ensure_ascii=False) + ("" if sc.kind == "real" else
                                                                                   "|lib:" + json.dumps(sc.files, sort_keys=True, ensure_ascii=False)[:400])


def judge(ctx, sc, h, f, src, label):
    if "error" in h or "error" in f:
        ctx.broken("runner:c12:" + label, "history run: %s / fresh run: %s" % (h.get("error"), f.get("error")))
        return None
    d = differs(h, f)
    if d is not None:
        ctx.violation(classify_history(sc), "load_theory(%s, limit=%s) %s. History: %s (%s)" % (
            sc.ops[-1]["name"], sc.ops[-1]["limit"], d, json.dumps(sc.ops, ensure_ascii=False)[:600], sc.note),
            {"scenario": sc.to_json(), "difference": d})
    return d


def correspond(ctx, sc, h, f, src, model_out, mv, label):
    m = parse_model(model_out, mv) if model_out else None
    if m is None:
        ctx.broken("correspondence:c12:driver", "model driver gave no answer for %s" % label)
        return False
    bad = []
    for j, (po, mo) in enumerate(zip(h["ops"], m["ops"])):
        pr = map_res(po["res"])
        if pr != mo["res"]:
            bad.append("op %d %s: impl %s (%s) model %s" % (j, sc.ops[j], pr, po["res"], mo["res"]))
        if po["reads"] != mo["reads"]:
            bad.append("op %d %s: files parsed impl %s model %s" % (j, sc.ops[j], po["reads"], mo["reads"]))
        if po["mods"] != mo["mods"]:
            bad.append("op %d %s: modules executed impl %s model %s" % (j, sc.ops[j], po["mods"], mo["mods"]))
    fv = None
    ht = h["final"]["thy_items"]
    if ht is not None and m["thy"] is not None:
        mt = [[n, i] for (n, v, i) in m["thy"]]
        if ht != mt:
            k = next((k for k in range(min(len(ht), len(mt))) if ht[k] != mt[k]), min(len(ht), len(mt)))
            bad.append("final theory items differ at position %d: impl %s model %s (lengths %d / %d)" % (
                k, ht[k:k + 3], mt[k:k + 3], len(ht), len(mt)))
    elif (ht is None) != (m["thy"] is None):
        bad.append("final theory: impl %s model %s" % ("None" if ht is None else "set", "None" if m["thy"] is None else "set"))
    if bad:
        ctx.broken("correspondence:c12:%s" % label, "; ".join(bad[:3]) + " | history " + json.dumps(sc.ops, ensure_ascii=False)[:300])
        ctx.coverage["disagreements_checked"] += 1
        return False
    return True


def run_scenarios(ctx, scs, src, label):
    """Runs every scenario (history + fresh process, in parallel), judges and compares with the model."""
    jobs = {}
    fresh_cache = {}
    specs = []
    for idx, sc in enumerate(scs):
        hspec, fspec = prepare(ctx, sc, "%s%d" % (label, idx), src)
        specs.append((hspec, fspec))
    with concurrent.futures.ThreadPoolExecutor(max_workers=8) as ex:
        for idx, sc in enumerate(scs):
            hspec, fspec = specs[idx]
            jobs[("h", idx)] = ex.submit(run_runner, ctx, hspec, "%s-h%d" % (label, idx))
            fk = fresh_key(sc)
            if fk not in fresh_cache:
                fresh_cache[fk] = ex.submit(run_runner, ctx, fspec, "%s-f%d" % (label, idx))
            jobs[("f", idx)] = fresh_cache[fk]
        results = {}
        for n_done, (k, j) in enumerate(jobs.items()):
            results[k] = j.result()
            if (n_done + 1) % 20 == 0:
                ctx.log("%s: %d/%d subprocess runs collected" % (label, n_done + 1, len(jobs)))
    lines, views = [], []
    for idx, sc in enumerate(scs):
        h, f = results[("h", idx)], results[("f", idx)]
        flags = {}
        for r in (f, h):
            if "final" in r:
                for n, fl in r["final"]["flags"].items():
                    flags.setdefault(n, fl)
        mv = ModelView(sc, src, flags)
        views.append(mv)
        lines.append(mv.line(h.get("pre", []) if "error" not in h else []))
    out = ctx.lean_driver(EXE, lines) if lines else []
    nviol = 0
    for idx, sc in enumerate(scs):
        h, f = results[("h", idx)], results[("f", idx)]
        kinds = [o["op"] + (":fault" if o.get("fault") else "") for o in sc.ops[:-1]]
        ctx.case(sc.key(), nontrivial=len(sc.ops) >= 2)
        ctx.count("%s:%s" % (sc.kind, "+".join(sorted(set(kinds))) or "fresh"))
        d = judge(ctx, sc, h, f, src, "%s-%d" % (label, idx))
        if d:
            nviol += 1
        if "error" not in h and "error" not in f:
            ctx.count("final:" + map_res(h["ops"][-1]["res"]))
            if judge_spec(ctx, sc, f, views[idx], "fresh") or judge_spec(ctx, sc, h, views[idx], "history"):
                nviol += 1
            correspond(ctx, sc, h, f, src, out[idx] if out else None, views[idx], "%s-%d" % (label, idx))
    if out is None:
        ctx.broken("correspondence:c12:driver", "model driver unavailable")
    return nviol


# ------------------------------------------------------------------ entry points
def read_sources(ctx):
    names, imports, items = scan_theories(os.path.join(ctx.repo, "library"))
    lazy, protected = scan_lazy(ctx.repo)
    modules = scan_modules(ctx.repo, lazy)
    return {"names": names, "imports": imports, "items": items, "lazy": lazy, "modules": modules, "protected": protected}


def load_corpus(ctx):
    p = os.path.join(ctx.verif, "corpus", "c12.json")
    if os.path.exists(p):
        with open(p) as fh:
            return [Scenario.from_json(d) for d in json.load(fh)]
    return []


def run(ctx):
    ctx.coverage["rule"] = (
        "a case is one scripted history ending in load_theory(name, limit), run in its own Python process and compared with a "
        "fresh process doing only the final load and with the Lean model: real library (prior loads with limits, imports of "
        "modules that load theories as a side effect, a load interrupted by an injected exception, fresh loads of smt/verit), "
        "scratch copies of small real theories (os.utime forwards and backwards, load_metadata, faults) and random synthetic "
        "libraries of 3-6 theories whose axioms parse only when the constants they mention are visible (edits of imported "
        "files, touches, faults, duplicate constants, cycles, dangling imports, present/missing limits). Non-trivial = at least "
        "one step before the final load; distinct by library + history.")
    try:
        src = read_sources(ctx)
        gen, _, _ = gen_lean(src["names"], src["imports"], src["lazy"], src["modules"])
        if ctx.write_if_changed("Holpy/C12/Gen.lean", gen):
            ctx.log("Gen.lean regenerated (changed)")
    except Exception as e:  # noqa
        ctx.broken("translate:c12:tables", "untranslatable: %r" % e)
        raise
    proofs_ok = ctx.lean_props(["Holpy.C12.Props"], exes=[EXE])
    if ctx.tier == "thorough" and proofs_ok:
        ctx.lean_check_modules(["Holpy.C12.Props"])
    ctx.coverage["trusted_base"] += [
        "harness/props/c12.py + c12_runner.py (history generator, tracing wrappers around load_json_data / parse_item / "
        "get_extension / unchecked_extend, canonical dump of Theory.data)",
        "ast-based reading of module-level imports and basic.load_theory calls (function-level imports are not followed)",
        "file timestamps set explicitly with os.utime (granularity of real file systems not modelled)"]
    ctx.assumptions += [
        "item contents and the parser are opaque in the model: the result of parsing an item is a function of the item and of the items visible",
        "Lean theorems are about histories that keep file contents (touch, loads, faulted loads, imports, load_metadata); edits are "
        "covered by the subprocess oracles and the model correspondence only",
        "a change of a file's `imports` needs basic.load_metadata() before the next load (known finding, generated and keyed)",
        "the Python package smt/ of the repository is shadowed by site-packages and is not imported in histories"]
    corpus = load_corpus(ctx)
    if corpus:
        run_scenarios(ctx, corpus, src, "corpus")
    rng = ctx.rng("histories")
    heavy = heavy_histories(src, ctx.tier)
    scs = gen_real(rng, src, ctx.scale(3, 22), heavy) + gen_copy(rng, src, ctx.scale(2, 10)) + gen_synth(rng, ctx.scale(5, 38))
    for sc in scs[:2] + scs[-2:]:
        ctx.sample({"kind": sc.kind, "ops": sc.ops, "note": sc.note})
    run_scenarios(ctx, scs, src, "gen")


def replay(ctx, rp):
    """Re-run one recorded history; True if history and fresh process still disagree."""
    src = read_sources(ctx)
    sc = Scenario.from_json(rp["replay"]["scenario"])
    run_scenarios(ctx, [sc], src, "replay")
    for v in ctx.violations:
        print("still fails:", v[1])
    return bool(ctx.violations)


MANIFEST = {
    "text": "Lean theorems about an executable model of the loader state machine (per-user cache with timestamps and dependency "
            "timestamps, global theory, fresh_theory blocks, import-once module side effects, injected faults), for every world "
            "(parser, lazy-import table, module bodies), library, timestamps and fuel: after every history of loads, interrupted loads, "
            "module imports, os.utime and load_metadata, load_theory(n, limit) on a healthy library returns exactly what the "
            "specification says (load_eq_spec: same outcome, same item list; missing limit reported; never a failure caused by "
            "the history); cycles are reported by every load with nothing cached; a file with a changed timestamp is parsed again. "
            "Module/import/lazy tables are regenerated from the sources each run and checked (acyclic, orders exist, module loads "
            "exist). The model is tied to logic/basic.py by scripted histories run in subprocesses: outcome of every step, files "
            "parsed, modules executed and the items of theory.thy must equal the model's; every history is also judged against a "
            "fresh process and against an independent reference loader.",
    "note": "Trusted: Lean kernel, propext/Classical.choice/Quot.sound, the harness (tracing wrappers, ast scan of module-level "
            "imports; function-level imports not followed), the reference loader. Item contents are opaque (parse result = function "
            "of item and visible items). Theorems cover content-preserving histories; edits of files that keep the imports "
            "(including edits of imported files, fix C12-3) are covered by the subprocess oracles and the model correspondence only. "
            "Known finding: edited `imports` are not re-read without load_metadata (stale_imports_counterexample). Model fuel: "
            "theorems hold for every fuel, with 'ran out of fuel' as an explicit outcome; sufficiency of fuel is not proved. "
            "Model = code with fixes C12-1..4; single user (master).",
    "design_ref": "DESIGN.md 4/C12",
}
FINDINGS = [
    {"status": "known", "key": STALE_IMPORTS,
     "what": "after the `imports` of a theory file are edited, load_theory keeps using the imports read by load_metadata "
             "(the file content is re-read, its imports are not) until basic.load_metadata() is called; e.g. load b; remove "
             "the import of a from b.json; load b -> still built on a. No small safe fix: the import graph is cached per "
             "user and checked for cycles only in load_metadata (the web app calls it when listing files)"},
    {"status": "fixed", "key": "fresh-process:load_theory(smt)", "commit": "6d18849",
     "what": "in a fresh process load_theory('smt') (also 'verit') raised 'Constant of_int already exists': importing data.real "
             "inside the fresh_theory block of the importing theory ran basic.load_theory, which replaced theory.thy"},
    {"status": "fixed", "key": "interrupted-load:partial-cache", "commit": "4d68838",
     "what": "a load interrupted by an exception left timestamp + partial content in the cache; the next load silently gave a theory with items missing"},
    {"status": "fixed", "key": "edit-of-imported-file:stale-dependant", "commit": "8872b65",
     "what": "after editing an imported file, the importing theory kept items parsed against the old version"},
    {"status": "fixed", "key": "cycle:reported-once", "commit": "acb01b3",
     "what": "a cycle (or dangling import) was reported by the first load only, later loads succeeded or hit RecursionError; "
             "for users other than master the check ran on master's cache (KeyError 'master')"},
]
