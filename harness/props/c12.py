"""C12 — loading a theory depends only on the library files.

Stages: (1) Gen.lean regenerated from the sources (import graph of library/*.json, the lazy-import table of
`load_theory_cache`, the module -> [import | load_theory] table found with `ast`); (2) Lean obligations
(Holpy.C12.Props) + driver; (3) scripted histories, each run in its own subprocess against the real loader
(harness/props/c12_runner.py) and ending in `load_theory(name, limit)`:
  (a) property oracle: the canonical dump of `theory.thy` (and the outcome) must equal that of a fresh process
      doing only the final load on the final state of the files;
  (b) correspondence: outcome of every step, files parsed, modules executed and the item list of the final
      theory must equal what the Lean model predicts.
Nothing is written inside ctx.repo: scratch libraries live under ctx.scratch and are selected by setting
`basic.dirname` inside the subprocess.
"""
import ast
import concurrent.futures
import copy
import hashlib
import json
import os
import shutil
import subprocess

from harness.common import sexp

EXE = "c12_model"
FUEL = 400
WORKERS = 10
RUNNER = os.path.join(os.path.dirname(os.path.abspath(__file__)), "c12_runner.py")
SMALL = ["logic_base", "logic", "nat", "function", "set", "list", "int", "string", "topology", "expr", "gcl", "class"]
MEDIUM = ["rat", "sat", "hoare", "real"]
IMPORTABLE = ["data.integer", "data.proplogic", "prover.omega", "prover.simplex", "data.real", "paraverifier.gcl",
              "prover.auto.auto", "prover.simplex_strict"]
T0 = 1_500_000_000


# ------------------------------------------------------------------ reading the sources (no import of holpy)
def scan_theories(libdir):
    names, imports, items = [], {}, {}
    for f in sorted(os.listdir(libdir)):
        if f.endswith(".json"):
            with open(os.path.join(libdir, f), encoding="utf-8") as fh:
                d = json.load(fh)
            n = f[:-5]
            names.append(n)
            imports[n] = list(d["imports"])
            items[n] = [(it.get("ty"), it.get("name")) for it in d["content"]]
    return names, imports, items


def _modfile(repo, mod):
    p = os.path.join(repo, *mod.split("."))
    if os.path.isfile(p + ".py"):
        return p + ".py"
    if os.path.isfile(os.path.join(p, "__init__.py")):
        return os.path.join(p, "__init__.py")
    return None


def module_body(repo, mod):
    """Module-level statements that matter, in source order: ('imp', module) / ('load', theory)."""
    f = _modfile(repo, mod)
    if f is None:
        return []
    import warnings
    with open(f, encoding="utf-8") as fh, warnings.catch_warnings():
        warnings.simplefilter("ignore")
        tree = ast.parse(fh.read())
    acts = []
    is_init = f.endswith("__init__.py")

    def add_imp(m):
        parts = m.split(".")
        for i in range(1, len(parts) + 1):
            q = ".".join(parts[:i])
            if _modfile(repo, q):
                acts.append(("imp", q))

    def visit(stmts):
        for st in stmts:
            if isinstance(st, ast.Import):
                for a in st.names:
                    add_imp(a.name)
            elif isinstance(st, ast.ImportFrom):
                base = st.module or ""
                if st.level:
                    parts = mod.split(".")
                    up = parts[:len(parts) - st.level + (1 if is_init else 0)]
                    base = ".".join(up + ([st.module] if st.module else []))
                if base:
                    add_imp(base)
                for a in st.names:
                    sub = (base + "." + a.name) if base else a.name
                    if _modfile(repo, sub):
                        add_imp(sub)
            elif isinstance(st, ast.If):
                visit(st.body)
                visit(st.orelse)
            elif isinstance(st, ast.Try):
                visit(st.body)
                visit(st.orelse)
                visit(st.finalbody)
            elif isinstance(st, ast.With):
                visit(st.body)
            elif isinstance(st, (ast.FunctionDef, ast.ClassDef, ast.AsyncFunctionDef)):
                pass
            else:
                for node in ast.walk(st):
                    if isinstance(node, ast.Call):
                        fn = node.func
                        nm = fn.attr if isinstance(fn, ast.Attribute) else (fn.id if isinstance(fn, ast.Name) else None)
                        if nm == "load_theory" and node.args and isinstance(node.args[0], ast.Constant):
                            acts.append(("load", node.args[0].value))
    visit(tree.body)
    return acts


def scan_lazy(repo):
    """`if filename == 'x': from a import b` inside load_theory_cache -> {theory: module}."""
    with open(os.path.join(repo, "logic", "basic.py"), encoding="utf-8") as fh:
        tree = ast.parse(fh.read())
    fn = [n for n in ast.walk(tree) if isinstance(n, ast.FunctionDef) and n.name == "load_theory_cache"]
    assert len(fn) == 1, "untranslatable: load_theory_cache not found"
    table = {}
    protected = {}
    for node in ast.walk(fn[0]):
        if isinstance(node, ast.If) and isinstance(node.test, ast.Compare) and isinstance(node.test.left, ast.Name) \
                and node.test.left.id == "filename" and len(node.test.comparators) == 1 \
                and isinstance(node.test.comparators[0], ast.Constant):
            thy = node.test.comparators[0].value
            for st in node.body:
                if isinstance(st, ast.ImportFrom):
                    for a in st.names:
                        sub = st.module + "." + a.name
                        table[thy] = sub if _modfile(repo, sub) else st.module
                elif isinstance(st, ast.Import):
                    table[thy] = st.names[0].name
    # is the lazy-import block inside `with theory.fresh_theory():`?  (fix C12-1)
    for node in ast.walk(fn[0]):
        if isinstance(node, ast.With) and any("fresh_theory" in ast.unparse(i.context_expr) for i in node.items):
            for sub in ast.walk(node):
                if isinstance(sub, (ast.ImportFrom, ast.Import)):
                    protected[ast.unparse(sub)] = True
    return table, bool(protected)


def scan_modules(repo, lazy):
    mods = {}
    for root, dirs, files in os.walk(repo):
        dirs[:] = [d for d in dirs if d not in (".git", "node_modules", "__pycache__", "tests", "users", "library")]
        for fn in files:
            if fn.endswith(".py"):
                rel = os.path.relpath(os.path.join(root, fn), repo)[:-3].replace(os.sep, ".")
                if rel.endswith(".__init__"):
                    rel = rel[:-9]
                if rel == "__init__":
                    continue
                mods[rel] = None
    for m in list(mods):
        try:
            mods[m] = module_body(repo, m)
        except SyntaxError:
            mods[m] = []
    leads = {m for m, b in mods.items() if any(a[0] == "load" for a in b)}
    changed = True
    while changed:
        changed = False
        for m, b in mods.items():
            if m not in leads and any(a[0] == "imp" and a[1] in leads for a in b):
                leads.add(m)
                changed = True
    keep = sorted(leads | set(lazy.values()))
    return {m: [a for a in (mods.get(m) or []) if a[0] == "load" or a[1] in leads] for m in keep}


def gen_lean(names, imports, lazy, modules):
    tid = {n: i + 1 for i, n in enumerate(names)}
    mid = {m: i + 1 for i, m in enumerate(sorted(modules))}
    L = ["/- GENERATED by harness/props/c12.py from library/*.json, logic/basic.py and the module-level statements of",
         "   the Python modules (ast); do not edit. -/", "import Holpy.C12.Model", "namespace Holpy.C12.Gen", "open Holpy.C12", ""]
    L.append("/-- theory names, numbered in sorted order from 1 -/")
    L.append("def theoryNames : List (Nat × String) := [%s]" % ", ".join('(%d, "%s")' % (tid[n], n) for n in names))
    L.append("def names : List Name := [%s]" % ", ".join(str(tid[n]) for n in names))
    L.append("/-- `imports` of every library/*.json -/")
    L.append("def importTable : List (Name × List Name) := [%s]" % ", ".join(
        "(%d, [%s])" % (tid[n], ", ".join(str(tid.get(i, 0)) for i in imports[n])) for n in names))
    L.append("/-- `if filename == …: from … import …` in load_theory_cache -/")
    L.append("def moduleNames : List (Nat × String) := [%s]" % ", ".join('(%d, "%s")' % (mid[m], m) for m in sorted(modules)))
    L.append("def lazyTable : List (Name × Mod) := [%s]" % ", ".join(
        "(%d, %d)" % (tid[t], mid[m]) for t, m in sorted(lazy.items()) if t in tid))
    L.append("/-- module-level imports / basic.load_theory calls, in source order (only modules that lead to a load) -/")
    rows = []
    for m in sorted(modules):
        acts = ", ".join((".imp %d" % mid[a[1]]) if a[0] == "imp" else (".load %d" % tid.get(a[1], 0)) for a in modules[m])
        rows.append("(%d, [%s])" % (mid[m], acts))
    L.append("def moduleTable : List (Mod × List Act) := [%s]" % ",\n  ".join(rows))
    L += ["", "def imports (n : Name) : List Name := (importTable.lookup n).getD []",
          "def lazyOf (n : Name) : Option Mod := lazyTable.lookup n",
          "def body (m : Mod) : List Act := (moduleTable.lookup m).getD []",
          "/-- the library as the model sees it (item contents are opaque: `items` is a parameter) -/",
          "def lib (items : Name → List Item) : Lib := { names := names, imports := imports, items := items }",
          "", "end Holpy.C12.Gen", ""]
    return "\n".join(L), tid, mid


# ------------------------------------------------------------------ scenarios
def fkey(op):
    """key of the file an op is about: 'name' in the master library, 'user:name' in the library of another user"""
    return op["name"] if not op.get("user") else "%s:%s" % (op["user"], op["name"])


class Scenario:
    """A library (versions of files), a history of ops and the final load.

    files: {name: [version, ...]}, version = {"imports": [...], "content": [json items] | None (real file), "src": path|None}
    ops:   runner ops; 'edit' carries 'version'.
    """

    def __init__(self, kind, files, ops, note="", full=False):
        self.kind, self.files, self.ops, self.note = kind, files, ops, note
        self.full = full          # every load gets its own fresh process (failing-input search)

    def to_json(self):
        return {"kind": self.kind, "files": self.files, "ops": self.ops, "note": self.note}

    @staticmethod
    def from_json(d):
        return Scenario(d["kind"], d["files"], d["ops"], d.get("note", ""))

    def key(self):
        return json.dumps({"k": self.kind, "f": self.files if self.kind == "synth" else sorted(self.files), "o": self.ops},
                          sort_keys=True, ensure_ascii=False)

    def versions_at(self, j):
        """version of every file when op j starts"""
        cur = {n: 0 for n in self.files}
        for op in self.ops[:j]:
            if op["op"] == "edit":
                cur[fkey(op)] = op["version"]
        return cur

    def users(self):
        return sorted({k.split(":", 1)[0] for k in self.files if ":" in k})

    def sub(self, user):
        """the scenario as seen in the library of one user (None: master): its files under plain names, the ops of
        the other users replaced by no-ops (indices are kept)"""
        if not self.users():
            return self
        pre = (user + ":") if user else None
        files = {(k[len(pre):] if pre else k): v for k, v in self.files.items()
                 if (k.startswith(pre) if pre else ":" not in k)}
        ops = []
        for op in self.ops:
            if op["op"] == "noop" or (op.get("user") or None) != user:
                ops.append({"op": "noop"})
            else:
                ops.append({k: v for k, v in op.items() if k != "user"})
        return Scenario(self.kind, files, ops, self.note, self.full)

    def final_versions(self):
        return self.versions_at(len(self.ops))

    def spec_ops(self):
        """loads judged against the reference loader (no process needed): every load without an injected fault
        for synthetic libraries, the final one otherwise"""
        if self.kind == "synth":
            return [j for j, op in enumerate(self.ops) if op["op"] == "load" and not op.get("fault")]
        return [len(self.ops) - 1]

    def judged_ops(self):
        """loads that also get their own fresh process: for synthetic libraries the first two loads after every
        change of state (edit, touch, load_metadata, interrupted load; the start counts) and the last one; the
        final load otherwise"""
        if self.kind != "synth":
            return [len(self.ops) - 1]
        if self.full:
            return self.spec_ops()
        out, seen = [], 0
        for j, op in enumerate(self.ops):
            if op["op"] == "load" and not op.get("fault"):
                if seen < 2:
                    out.append(j)
                seen += 1
            else:
                seen = 0
        last = [j for j in self.spec_ops()][-1:]
        return sorted(set(out + last))


def write_lib(root, files, versions, real_libdir, mtimes=None):
    """Create root/library/*.json (+ empty root/logic) with the given version of every file."""
    os.makedirs(os.path.join(root, "library"), exist_ok=True)
    os.makedirs(os.path.join(root, "logic"), exist_ok=True)
    for k, n in enumerate(sorted(files)):
        v = files[n][versions[n]]
        if ":" in n:
            user, base = n.split(":", 1)
            os.makedirs(os.path.join(root, "users", user), exist_ok=True)
            dst = os.path.join(root, "users", user, base + ".json")
        else:
            base, dst = n, os.path.join(root, "library", n + ".json")
        write_version(dst, base, v, real_libdir)
        t = (mtimes or {}).get(n, T0 + k)
        os.utime(dst, (t, t))


def write_version(dst, n, v, real_libdir):
    if v.get("content") is None:
        shutil.copyfile(os.path.join(real_libdir, n + ".json"), dst)
    else:
        with open(dst, "w", encoding="utf-8") as fh:
            json.dump({"name": n, "imports": v["imports"], "description": "", "content": v["content"]}, fh, ensure_ascii=False)


def closure(imports, roots):
    seen = []

    def go(n):
        if n in seen:
            return
        for i in imports.get(n, []):
            go(i)
        seen.append(n)
    for r in roots:
        go(r)
    return seen


# ---- generators
def pick_limit(rng, items, name):
    r = rng.random()
    its = [x for x in items[name] if x[1] is not None]
    if r < 0.45 or not its:
        return None
    if r < 0.55:
        return "start"
    if r < 0.93:
        return list(rng.choice(its))
    return ["thm.ax", "no_such_item_c12"]


def gen_real(rng, src, n, heavy):
    names, imports, items = src["names"], src["imports"], src["items"]
    small = [x for x in SMALL if x in names]
    out = []
    for k in range(n):
        ops = []
        r = rng.random()
        final = rng.choice(small + [x for x in MEDIUM if x in names][:2] * (1 if rng.random() < 0.3 else 0) or small)
        if r < 0.4:
            for _ in range(rng.randint(1, 3)):
                p = rng.choice(small)
                ops.append({"op": "load", "name": p, "limit": pick_limit(rng, items, p), "fault": None})
        elif r < 0.7:
            for m in rng.sample([m for m in IMPORTABLE if m in src["modules"]], rng.randint(1, 2)):
                ops.append({"op": "import", "module": m})
            if rng.random() < 0.5:
                p = rng.choice(small)
                ops.append({"op": "load", "name": p, "limit": pick_limit(rng, items, p), "fault": None})
        else:
            deps = closure(imports, [final])
            t = rng.choice(deps)
            ops.append({"op": "load", "name": rng.choice([final, final, rng.choice(small)]), "limit": None,
                        "fault": [t, rng.randrange(len(items[t]))]})
            if rng.random() < 0.4:
                p = rng.choice(small)
                ops.append({"op": "load", "name": p, "limit": pick_limit(rng, items, p), "fault": None})
        ops.append({"op": "load", "name": final, "limit": pick_limit(rng, items, final), "fault": None})
        out.append(Scenario("real", {}, ops, "real library"))
    for hv in heavy:
        out.append(Scenario("real", {}, hv, "real library, heavy"))
    return out


def heavy_histories(src, tier):
    L = lambda n, lim=None: {"op": "load", "name": n, "limit": lim, "fault": None}  # noqa: E731
    I = lambda m: {"op": "import", "module": m}  # noqa: E731
    hs = [[L("smt")]]
    if tier != "quick":
        hs += [[L("verit")], [L("real"), L("smt", "start")], [I("data.real"), L("nat"), L("real", ["thm", "real_add_comm"])],
               [L("nat"), I("prover.omega"), L("smt")], [L("sat"), L("hoare")], [I("prover.proofrec"), L("int")]]
    return [h for h in hs if all(o["op"] != "import" or o["module"] in src["modules"] for o in h)]


def gen_copy(rng, src, n):
    """Scratch copies of small real theories: touches (os.utime) between loads, reload of the metadata."""
    names, imports, items = src["names"], src["imports"], src["items"]
    out = []
    pool = [x for x in ["logic_base", "logic", "nat", "function", "set", "list", "string"] if x in names]
    for k in range(n):
        final = rng.choice(pool[2:])
        used = closure(imports, [final])
        files = {x: [{"imports": imports[x], "content": None}] for x in used}
        ops = []
        t = T0 + 1000
        ops.append({"op": "load", "name": rng.choice(used), "limit": None, "fault": None})
        for _ in range(rng.randint(1, 3)):
            r = rng.random()
            t += rng.choice([1, 7, -2000])   # also backwards in time
            if r < 0.6:
                ops.append({"op": "touch", "name": rng.choice(used), "mtime": t})
            elif r < 0.75:
                ops.append({"op": "reload"})
            else:
                p = rng.choice(used)
                ops.append({"op": "load", "name": p, "limit": pick_limit(rng, items, p),
                            "fault": [rng.choice(closure(imports, [p])), 3] if rng.random() < 0.3 else None})
        ops.append({"op": "load", "name": final, "limit": pick_limit(rng, items, final), "fault": None})
        out.append(Scenario("copy", files, ops, "scratch copy of real theories"))
    return out


def synth_theory(rng, tname, visible_consts, nconst, nthm, tag):
    """A small theory: bool constants and axioms mentioning constants (own or from elsewhere)."""
    content = [{"ty": "header", "depth": 0, "name": "H_%s_%s" % (tname, tag)}]
    own = []
    for i in range(nconst):
        c = "c_%s_%d" % (tname, i)
        own.append(c)
        content.append({"ty": "def.ax", "name": c, "type": "bool"})
        if rng.random() < 0.7 and (visible_consts or own):
            refs = rng.sample(visible_consts + own, min(len(visible_consts + own), rng.randint(1, 2)))
            content.append({"ty": "thm.ax", "name": "t_%s_%s_%d" % (tname, tag, len(content)), "vars": {},
                            "prop": " ⟶ ".join(refs + [c])})
    for i in range(nthm):
        pool = visible_consts + own
        if pool:
            refs = rng.sample(pool, min(len(pool), rng.randint(1, 3)))
            content.append({"ty": "thm.ax", "name": "t_%s_%s_%d" % (tname, tag, len(content)), "vars": {},
                            "prop": " ⟶ ".join(refs + [refs[0]])})
    return content


def gen_synth(rng, n):
    out = []
    for k in range(n):
        nt = rng.randint(3, 6)
        tn = ["s%d" % i for i in range(nt)]
        imports = {}
        for i, t in enumerate(tn):
            imports[t] = sorted(rng.sample(tn[:i], min(i, rng.randint(0, 2))), key=lambda x: rng.random())
        files = {}
        consts = {}
        for t in tn:
            vis = [c for d in closure(imports, imports[t]) for c in consts[d]]
            # sometimes refer to a constant that is NOT visible (parse error, context dependent)
            extra = [c for d in tn if d in consts and d not in closure(imports, imports[t]) for c in consts[d]]
            pool = vis + (rng.sample(extra, 1) if extra and rng.random() < 0.4 else [])
            content = synth_theory(rng, t, pool, rng.randint(1, 3), rng.randint(0, 2), "v0")
            consts[t] = [it["name"] for it in content if it["ty"] == "def.ax"]
            files[t] = [{"imports": imports[t], "content": content}]
        ops = []
        t_now = T0 + 1000
        kind = rng.choice(["edit", "edit", "edit", "fault", "touch", "reload", "limit", "cycle", "dangling", "raise", "imports", "clash", "relimit", "relimit"])
        final = rng.choice(tn[1:])
        first = rng.choice(tn)
        ops.append({"op": "load", "name": rng.choice([final, first, tn[-1]]), "limit": None, "fault": None})
        note = "synthetic library: " + kind
        if kind == "edit":
            for _ in range(rng.randint(1, 2)):
                victim = rng.choice(closure(imports, [final]))
                old = files[victim][-1]["content"]
                new = [copy.deepcopy(it) for it in old]
                r = rng.random()
                if r < 0.45 and any(it["ty"] == "def.ax" for it in new):
                    drop = rng.choice([it for it in new if it["ty"] == "def.ax"])   # a constant disappears
                    new = [it for it in new if it is not drop]
                elif r < 0.8:
                    new.insert(rng.randint(1, len(new)), {"ty": "def.ax", "name": "c_%s_x%d" % (victim, len(files[victim])), "type": "bool"})
                else:
                    rng.shuffle(new)
                files[victim].append({"imports": imports[victim], "content": new})
                t_now += rng.choice([1, 5, 60, -7000])      # also an older mtime than the file replaced
                ops.append({"op": "edit", "name": victim, "version": len(files[victim]) - 1, "mtime": t_now})
                if rng.random() < 0.4:
                    p = rng.choice(tn)
                    ops.append({"op": "load", "name": p, "limit": None, "fault": None})
        elif kind == "imports":
            # the `imports` of a file change between two loads and load_metadata is NOT called (known finding)
            cands = [t for t in closure(imports, [final]) if imports[t]]
            if cands:
                victim = rng.choice(cands)
                newimp = [i for i in imports[victim] if i != rng.choice(imports[victim])]
                files[victim].append({"imports": newimp, "content": copy.deepcopy(files[victim][0]["content"])})
                t_now += 5
                ops[0]["name"] = final
                ops.append({"op": "edit", "name": victim, "version": 1, "mtime": t_now})
                if rng.random() < 0.3:
                    ops.append({"op": "reload"})
        elif kind == "fault":
            deps = closure(imports, [final])
            tgt = rng.choice(deps)
            ops.append({"op": "load", "name": tn[-1] if rng.random() < 0.5 else final, "limit": None,
                        "fault": [tgt, rng.randrange(len(files[tgt][0]["content"]))]})
            ops[0]["name"] = rng.choice(tn[:2])
        elif kind == "touch":
            for _ in range(rng.randint(1, 3)):
                t_now += 3
                ops.append({"op": "touch", "name": rng.choice(tn), "mtime": t_now})
        elif kind == "reload":
            ops.append({"op": "reload"})
        elif kind == "limit":
            pass
        elif kind == "cycle":
            # the library has a cycle from the start: every load must report it
            a = rng.choice(tn[1:])
            root = closure(imports, [a])[0]
            files[root][0]["imports"] = [a]
            ops.append({"op": "load", "name": tn[0], "limit": None, "fault": None})
        elif kind == "dangling":
            files[rng.choice(tn)][0]["imports"].append("no_such_theory")
            ops.append({"op": "load", "name": tn[0], "limit": None, "fault": None})
        elif kind == "relimit":
            # the same limited load before and after edits that move / delete items of the theory
            its0 = [(it["ty"], it["name"]) for it in files[final][0]["content"]]
            lim0 = list(rng.choice(its0[1:] or its0))
            ops = [{"op": "load", "name": final, "limit": lim0, "fault": None}]
            for _ in range(rng.randint(1, 3)):
                new = [copy.deepcopy(it) for it in files[final][-1]["content"]]
                r = rng.random()
                if r < 0.4:
                    new.insert(rng.randint(0, len(new)), {"ty": "def.ax", "name": "c_%s_y%d" % (final, len(files[final])), "type": "bool"})
                elif r < 0.75 and len(new) > 2:
                    del new[rng.randrange(len(new))]
                else:
                    rng.shuffle(new)
                files[final].append({"imports": imports[final], "content": new})
                t_now += rng.choice([2, 9, -6000])
                ops.append({"op": "edit", "name": final, "version": len(files[final]) - 1, "mtime": t_now})
                ops.append({"op": "load", "name": final, "limit": lim0, "fault": None})
            final_lim = lim0
        elif kind == "clash":
            # two theories that do not import each other declare the same constant; whoever imports both cannot load
            pairs = [(a, b) for a in tn for b in tn if a < b and a not in closure(imports, [b]) and b not in closure(imports, [a])]
            if pairs:
                a, b = rng.choice(pairs)
                dup = {"ty": "def.ax", "name": "c_shared_%s_%s" % (a, b), "type": "bool"}
                files[a][0]["content"].append(dict(dup))
                files[b][0]["content"].insert(1, dict(dup))
                top = "s_top"
                files[top] = [{"imports": [a, b], "content": synth_theory(rng, top, [], 1, 0, "v0")}]
                imports[top] = [a, b]
                tn.append(top)
                final = rng.choice([top, top, a, b])
                ops.append({"op": "load", "name": a, "limit": None, "fault": None})
                ops.append({"op": "load", "name": top, "limit": None, "fault": None})
                ops.append({"op": "load", "name": b, "limit": None, "fault": None})
        elif kind == "raise":
            # a duplicate constant: unchecked_extend raises while the file is parsed (persistent fault)
            victim = rng.choice(closure(imports, [final]))
            cs = [it for it in files[victim][0]["content"] if it["ty"] == "def.ax"]
            if cs:
                files[victim][0]["content"].append(dict(cs[0]))
            ops.append({"op": "load", "name": final, "limit": None, "fault": None})
        lim = None
        its = [(it["ty"], it["name"]) for it in files[final][-1]["content"]]
        r = rng.random()
        if kind == "relimit":
            lim = final_lim
        elif kind == "limit" or r < 0.4:
            lim = rng.choice([list(rng.choice(its)), "start", ["thm.ax", "missing_c12"], list(rng.choice(its))])
        ops.append({"op": "load", "name": final, "limit": lim, "fault": None})
        out.append(Scenario("synth", files, ops, note))
    return out


# ---- deterministic battery (every scenario class, synthetic libraries: a process takes a few seconds)
def bat_theory(t, visible, variant):
    """Theory `t` of a battery library.  Constants c_t_0, c_t_1; for every theory u visible (transitively imported,
    or t itself) an axiom that needs c_u_0 and one that needs c_u_1 -- so what an item of t parses to depends on the
    constants of its INDIRECT imports too.  variant 0: full; 1: c_t_0 replaced by c_t_9; 2: c_t_1 dropped, order changed."""
    consts = {0: ["c_%s_0" % t, "c_%s_1" % t], 1: ["c_%s_9" % t, "c_%s_1" % t], 2: ["c_%s_0" % t]}[variant]
    content = [{"ty": "header", "depth": 0, "name": "H_%s_v%d" % (t, variant)}]
    content += [{"ty": "def.ax", "name": c, "type": "bool"} for c in consts]
    axs = []
    for u in visible + [t]:
        axs.append({"ty": "thm.ax", "name": "x_%s_%s_0" % (t, u), "vars": {}, "prop": "c_%s_0 ⟶ c_%s_0" % (u, u)})
        axs.append({"ty": "thm.ax", "name": "x_%s_%s_1" % (t, u), "vars": {}, "prop": "c_%s_1 ⟶ c_%s_0" % (u, u)})
    if variant == 2:
        axs.reverse()
    return content + axs


def bat_lib(graph):
    files = {}
    for t in graph:
        vis = closure(graph, graph[t])
        files[t] = [{"imports": list(graph[t]), "content": bat_theory(t, vis, v)} for v in (0, 1, 2)]
    return files


CHAIN = {"ta": [], "tb": ["ta"], "tc": ["tb"], "td": ["tc"]}
DIAMOND = {"ta": [], "tb": ["ta"], "tc": ["ta"], "td": ["tb", "tc"], "te": ["td"], "tz": []}


def battery(rng):
    """One scenario (or a few) per class of history; only details (which variant of a file an edit installs) depend
    on the seed.  Every load of these scenarios is compared with a fresh process and with the reference loader."""
    L = lambda n, lim=None, fault=None: {"op": "load", "name": n, "limit": lim, "fault": fault}  # noqa: E731
    E = lambda n, v, t: {"op": "edit", "name": n, "version": v, "mtime": t}  # noqa: E731
    T = lambda n, t: {"op": "touch", "name": n, "mtime": t}  # noqa: E731
    R = {"op": "reload"}
    out = []
    later, earlier = T0 + 5000, T0 - 5000

    def orig_mtime(files, n):
        return T0 + sorted(files).index(n)
    # 1. chain of depth 4: edit each file in turn (forwards in time), reload far end, middle and near end
    for victim in CHAIN:
        v = rng.choice([1, 2])
        out.append(Scenario("synth", bat_lib(CHAIN), [L("td"), E(victim, v, later), L("td"), L("tb"), L("ta"), L("tc")],
                            "battery: chain, edit of %s, then every theory reloaded" % victim))
    # 2. the new content carries an OLDER timestamp (backup restored, clock corrected): own file / direct / indirect import
    for victim in ("td", "tc", "ta"):
        v = rng.choice([1, 2])
        out.append(Scenario("synth", bat_lib(CHAIN), [L("td"), E(victim, v, earlier), L("td"), L("tc")],
                            "battery: chain, %s replaced by a file with an older mtime" % victim))
    # 3. diamond: indirect import through two paths; edit, reload, restore the original file with its original mtime
    dl = bat_lib(DIAMOND)
    out.append(Scenario("synth", dl, [L("te"), E("ta", 1, earlier), L("te"), E("tc", rng.choice([1, 2]), later), L("te"), L("td"),
                                      E("ta", 0, orig_mtime(dl, "ta")), L("te"), L("tb"), E("tc", 0, later + 7), L("td"), L("tz")],
                        "battery: diamond, edits of indirect imports, original file restored with its original mtime"))
    # 4. broken libraries: every load must behave as in a fresh process, also after a failed load
    dang = bat_lib(DIAMOND)
    dang["tb"][0]["imports"] = ["ta", "no_such_theory"]
    cyc = bat_lib(DIAMOND)
    cyc["ta"][0]["imports"] = ["td"]
    both = bat_lib(DIAMOND)
    both["ta"][0]["imports"] = ["td"]
    both["tz"][0]["imports"] = ["no_such_theory"]
    for lib, what in ((dang, "dangling import"), (cyc, "import cycle"), (both, "cycle and dangling import")):
        out.append(Scenario("synth", lib, [L("tb"), L("tz"), L("tb"), R, L("tz"), L("te", "start")],
                            "battery: %s -- failed load, unrelated theory, broken theory again, load_metadata" % what))
    # a dangling import / a cycle that appears by an edit and is noticed by load_metadata
    lib = bat_lib(DIAMOND)
    lib["tb"].append({"imports": ["ta", "no_such_theory"], "content": lib["tb"][0]["content"]})
    lib["ta"].append({"imports": ["te"], "content": lib["ta"][0]["content"]})
    out.append(Scenario("synth", lib, [L("tz"), E("tb", 3, later), R, L("tz"), L("ta"), E("tb", 0, later + 3), R, L("td"),
                                       E("ta", 3, later + 5), R, L("tz"), L("te")],
                        "battery: dangling import and cycle introduced by edits, load_metadata after each"))
    # 5. interrupted loads
    lib = bat_lib(CHAIN)
    out.append(Scenario("synth", lib, [L("td", None, ["tb", 2]), L("td"), L("tc", ["thm.ax", "x_tc_tb_0"]), T("ta", later),
                                       L("td", None, ["td", 1]), L("td", None, ["ta", 0]), L("td"), L("ta")],
                        "battery: loads interrupted at items of an import, of the theory itself, of the root"))
    # 6. an exception that is in the file (constant defined twice)
    lib = bat_lib(CHAIN)
    lib["tb"][0]["content"].append({"ty": "def.ax", "name": "c_tb_0", "type": "bool"})
    out.append(Scenario("synth", lib, [L("td"), L("ta"), L("td"), L("tb"), E("tb", 1, later), L("td")],
                        "battery: duplicate constant (raises while parsing), then repaired"))
    # 6b. two imports declare the same constant: each loads, a theory importing both cannot (diamond duplicate)
    lib = bat_lib(DIAMOND)
    dup = {"ty": "def.ax", "name": "c_shared", "type": "bool"}
    lib["tb"][0]["content"].append(dict(dup))
    lib["tc"][0]["content"].insert(1, dict(dup))
    out.append(Scenario("synth", lib, [L("tb"), L("tc"), L("td"), L("td"), L("te"), L("tc", ["def.ax", "c_shared"]), L("tz"), L("ta"),
                                       E("tc", 1, later), L("td"), L("te")],
                        "battery: two imports declare the same constant (extension raises), then one of them repaired"))
    # 7. limits
    lib = bat_lib(CHAIN)
    first = lib["td"][0]["content"][0]
    out.append(Scenario("synth", lib, [L("td", ["thm.ax", "x_td_tb_1"]), L("td", "start"), L("td", ["thm.ax", "missing_c12"]),
                                       L("td"), L("td", [first["ty"], first["name"]]), L("tb", ["def.ax", "c_tb_1"]),
                                       L("td", ["thm.ax", "x_td_td_1"]), L("ta", ["def.ax", "c_tb_1"])],
                        "battery: limits (present, first item, last item, 'start', missing, item of another theory)"))
    # 7a. items that do NOT parse (axioms about constants that are not visible): as the limit, in front of the limit,
    #     behind it; an unparsable item is still an item of the file and a valid limit
    lib = bat_lib(CHAIN)
    c0 = lib["td"][0]["content"]
    bad = lambda k: {"ty": "thm.ax", "name": "x_bad_%d" % k, "vars": {}, "prop": "c_nowhere_%d ⟶ c_td_0" % k}  # noqa: E731
    lib["td"][0]["content"] = c0[:4] + [bad(1)] + c0[4:7] + [bad(2)] + c0[7:] + [bad(3)]
    lib["tb"][0]["content"] = lib["tb"][0]["content"][:3] + [bad(4)] + lib["tb"][0]["content"][3:]
    out.append(Scenario("synth", lib, [L("td", ["thm.ax", "x_bad_2"]), L("td", ["thm.ax", "x_bad_1"]), L("td", [c0[5]["ty"], c0[5]["name"]]),
                                       L("td", ["thm.ax", "x_bad_3"]), L("td"), L("tb", ["thm.ax", "x_bad_4"]), L("tc", "start"),
                                       L("td", ["thm.ax", "x_bad_2"])],
                        "battery: items that do not parse used as the limit / in front of the limit / last"))
    # 7b. the SAME limited load repeated around edits of the file: items inserted / deleted / moved in front of the
    #     limit, changes behind it only, the limit item moved, deleted, renamed, and put back
    lib = bat_lib(CHAIN)
    base = lib["td"][0]["content"]
    lim = ["thm.ax", "x_td_tc_0"]
    at = next(i for i, it in enumerate(base) if it["name"] == lim[1])
    newc = lambda n: {"ty": "def.ax", "name": n, "type": "bool"}  # noqa: E731
    newt = lambda n, a: {"ty": "thm.ax", "name": n, "vars": {}, "prop": "%s ⟶ %s" % (a, a)}  # noqa: E731
    variants = {
        "insert-before": base[:1] + [newc("c_td_7")] + base[1:],
        "delete-before": [it for i, it in enumerate(base) if i != at - 2],
        "behind-only": base[:at + 1] + [newt("x_td_new", "c_td_0")] + base[at + 2:],
        "moved-earlier": base[:3] + [base[at]] + base[3:at] + base[at + 1:],
        "deleted": base[:at] + base[at + 1:],
        "renamed": base[:at] + [dict(base[at], name=lim[1] + "_r")] + base[at + 1:],
        "two-before": base[:2] + [newc("c_td_8"), newt("x_td_new2", "c_td_8")] + base[2:],
    }
    vidx = {}
    for k, c in variants.items():
        lib["td"].append({"imports": ["tc"], "content": copy.deepcopy(c)})
        vidx[k] = len(lib["td"]) - 1
    Ld = lambda: L("td", lim)  # noqa: E731
    t = later
    ops = [Ld()]
    for k in ("insert-before", "delete-before", "behind-only", "moved-earlier", "deleted"):
        t += 10
        ops += [E("td", vidx[k], t), Ld()]
    ops += [L("td")]
    for k in (None, "renamed", "two-before"):
        t += 10
        ops += [E("td", 0 if k is None else vidx[k], t), Ld()]
    ops += [L("td", [lim[0], lim[1] + "_r"]), L("td", "start"), Ld()]
    out.append(Scenario("synth", lib, ops, "battery: the same limited load repeated around edits before / behind / of the limit item"))
    # two limits of the same theory alternating around edits; 'start' and None around edits
    l2 = ["def.ax", "c_td_1"]
    out.append(Scenario("synth", copy.deepcopy(lib), [Ld(), L("td", l2), E("td", vidx["insert-before"], later + 1), L("td", l2), Ld(),
                                                      E("td", vidx["delete-before"], later + 2), Ld(), L("td", l2),
                                                      L("td", "start"), E("td", vidx["deleted"], later + 3), L("td", "start"), L("td"), L("td", l2), Ld()],
                        "battery: two limits of one theory alternating around edits; limit='start' / None around edits"))
    # the limit is at the top only; the edits are in the imports (direct and indirect), then in the middle theory with its own limit
    lib2 = bat_lib(CHAIN)
    lt = ["thm.ax", "x_tc_tb_0"]
    out.append(Scenario("synth", lib2, [Ld(), L("tc", lt), E("tb", rng.choice([1, 2]), later), Ld(), L("tc", lt), E("ta", 2, later + 5), Ld(),
                                        L("tc", lt), E("tc", 2, later + 9), L("tc", lt), Ld(), E("tc", 1, earlier), L("tc", lt), Ld()],
                        "battery: limited loads repeated around edits of direct and indirect imports"))
    # another user's library with the same theory names: limited loads of both interleaved with edits of either
    ul = bat_lib(CHAIN)
    both = dict(copy.deepcopy(lib))
    for n in ul:
        both["u1:" + n] = ul[n]
    both["u1:td"] = [{"imports": ["tc"], "content": copy.deepcopy(variants["two-before"])},
                     {"imports": ["tc"], "content": copy.deepcopy(variants["deleted"])},
                     {"imports": ["tc"], "content": copy.deepcopy(base)}]
    U = lambda op: dict(op, user="u1")  # noqa: E731
    out.append(Scenario("synth", both, [U(Ld()), Ld(), U(E("td", 2, later + 1)), U(Ld()), Ld(), E("td", vidx["deleted"], later + 2), Ld(), U(Ld()),
                                        U(E("td", 1, later + 3)), U(Ld()), U(L("td")), L("td"), U(E("ta", 1, later + 4)), U(L("td")), L("tb"),
                                        U({"op": "reload"}), U(L("tb")), L("td", "start")],
                        "battery: master and a second user (same theory names, different files): limited loads interleaved with edits"))
    # a user whose copies of the IMPORTS differ from master's in what the importing theories use, and who has a theory
    # master lacks: the imports of a user's theory are the user's files
    mlib = bat_lib(CHAIN)
    ulib = bat_lib(CHAIN)
    ulib["ta"] = [ulib["ta"][1], ulib["ta"][0], ulib["ta"][2]]          # u1's ta has c_ta_9 instead of c_ta_0
    ulib["tb"] = [ulib["tb"][2], ulib["tb"][0], ulib["tb"][1]]          # u1's tb lacks c_tb_1
    ulib["tu"] = [{"imports": ["tc"], "content": bat_theory("tu", ["ta", "tb", "tc"], 0) + [
        {"ty": "thm.ax", "name": "x_tu_9", "vars": {}, "prop": "c_ta_9 ⟶ c_tu_0"}]}]
    both2 = dict(mlib)
    for n in ulib:
        both2["u1:" + n] = ulib[n]
    out.append(Scenario("synth", both2, [U(L("tu")), L("td"), U(L("td")), U(L("tb", ["thm.ax", "x_tb_ta_1"])), L("tb"), U(L("tu", "start")),
                                         U(E("ta", 1, later + 2)), U(L("tu")), L("tc"), E("ta", 2, later + 3), U(L("tc")), L("tc"),
                                         U({"op": "reload"}), U(L("tu", ["thm.ax", "x_tu_9"]))],
                        "battery: a user whose imports differ from master's and who has a theory master lacks"))
    out.append(Scenario("synth", copy.deepcopy(both2), [L("tc"), U(L("tc")), U(L("tu")), L("td")],
                        "battery: master first, then the user with different imports"))
    # 8. timestamps without a change of content, load_metadata in between
    lib = bat_lib(DIAMOND)
    out.append(Scenario("synth", lib, [L("te"), T("ta", later), L("te"), T("tc", earlier), L("td"), R, L("te"),
                                       T("te", orig_mtime(lib, "te")), L("te"), T("tb", earlier - 9), T("tb", later + 9), L("tz"), L("te", "start")],
                        "battery: os.utime forwards / backwards / unchanged, load_metadata"))
    # 9. the imports of a file change: with load_metadata (must be right), without (known finding)
    lib = bat_lib(CHAIN)
    lib["tc"].append({"imports": [], "content": lib["tc"][0]["content"]})
    lib["tc"].append({"imports": ["ta"], "content": lib["tc"][0]["content"]})
    out.append(Scenario("synth", lib, [L("td"), E("tc", 3, later), R, L("td"), L("tc"), E("tc", 4, later + 4), R, L("td")],
                        "battery: imports of a file edited, load_metadata called"))
    out.append(Scenario("synth", copy.deepcopy(lib), [L("td"), E("tc", 3, later), L("td")],
                        "battery: imports of a file edited, load_metadata NOT called (known finding)"))
    return out


# ------------------------------------------------------------------ running the implementation
def run_runner(ctx, spec, tag, timeout=900):
    p = os.path.join(ctx.scratch, "spec-%s.json" % tag)
    with open(p, "w") as fh:
        json.dump(spec, fh)
    env = dict(os.environ)
    env["PYTHONDONTWRITEBYTECODE"] = "1"
    env["PYTHONPATH"] = spec["repo"]
    env["PYTHONHASHSEED"] = "0"
    try:
        r = subprocess.run(["/venv/bin/python", RUNNER, p], cwd=spec["repo"], capture_output=True, text=True, timeout=timeout, env=env)
    except subprocess.TimeoutExpired:
        return {"error": "timeout"}
    for line in r.stdout.splitlines():
        if line.startswith("@@C12@@"):
            return json.loads(line[7:])
    return {"error": "runner failed: " + (r.stderr or r.stdout)[-600:]}


def run_zygote(ctx, specs, tag, timeout=1500):
    """Run many specs as forked children of one process that has imported the loader (see c12_runner.py --zygote).
    specs: {key: spec}; returns {key: result}."""
    if not specs:
        return {}
    any_spec = next(iter(specs.values()))
    boot = os.path.join(ctx.scratch, "zygote-%s.json" % tag)
    with open(boot, "w") as fh:
        json.dump({"repo": any_spec["repo"], "interest": any_spec["interest"], "ops": [], "workers": WORKERS}, fh)
    lines, outs = [], {}
    for n, (k, spec) in enumerate(specs.items()):
        sp = os.path.join(ctx.scratch, "zspec-%s-%d.json" % (tag, n))
        outs[k] = os.path.join(ctx.scratch, "zout-%s-%d.json" % (tag, n))
        with open(sp, "w") as fh:
            json.dump(spec, fh)
        lines.append(json.dumps({"spec": sp, "out": outs[k]}))
    env = dict(os.environ)
    env["PYTHONDONTWRITEBYTECODE"] = "1"
    env["PYTHONPATH"] = any_spec["repo"]
    env["PYTHONHASHSEED"] = "0"
    err = ""
    try:
        r = subprocess.run(["/venv/bin/python", RUNNER, "--zygote", boot], cwd=any_spec["repo"], input="\n".join(lines) + "\n",
                           capture_output=True, text=True, timeout=timeout, env=env)
        err = (r.stderr or "")[-400:]
    except subprocess.TimeoutExpired:
        err = "timeout"
    res = {}
    for k, o in outs.items():
        res[k] = {"error": "runner failed: " + err}
        if os.path.exists(o):
            with open(o) as fh:
                for line in fh:
                    if line.startswith("@@C12@@"):
                        res[k] = json.loads(line[7:])
    return res


def prepare(ctx, sc, idx, src):
    """Scratch libraries + runner specs: the history run (H) and, for every judged load j, a fresh run (F_j) that
    does only that load on the files as they are when op j starts."""
    real_libdir = os.path.join(ctx.repo, "library")
    interest = sorted(src["modules"])
    hspec = {"repo": ctx.repo, "libroot": None, "interest": interest, "ops": [], "dump_all": sc.kind == "synth"}
    if sc.kind != "real":
        hroot = os.path.join(ctx.scratch, "h%s" % idx)
        write_lib(hroot, sc.files, {n: 0 for n in sc.files}, real_libdir)
        hspec["libroot"] = hroot
    for j, op in enumerate(sc.ops):
        op = copy.deepcopy(op)
        if op["op"] == "edit":
            srcp = os.path.join(ctx.scratch, "h%s-edit%d.json" % (idx, j))
            write_version(srcp, op["name"], sc.files[fkey(op)][op["version"]], real_libdir)
            op["src"] = srcp
        hspec["ops"].append(op)
    fspecs = {}
    for j in sc.judged_ops():
        fspec = {"repo": ctx.repo, "libroot": None, "interest": interest, "ops": [dict(copy.deepcopy(sc.ops[j]), fault=None)],
                 "dump_all": sc.kind == "synth"}
        if sc.kind != "real":
            vs = sc.versions_at(j)
            froot = os.path.join(ctx.scratch, "f%s-%s" % (idx, hashlib.sha1(json.dumps(vs, sort_keys=True).encode()).hexdigest()[:10]))
            if not os.path.isdir(froot):
                write_lib(froot, sc.files, vs, real_libdir)
            fspec["libroot"] = froot
        fspecs[j] = fspec
    return hspec, fspecs


def fresh_key(sc, j):
    op = sc.ops[j]
    if sc.kind == "real":
        return json.dumps(["real", op["name"], op["limit"]])
    vs = sc.versions_at(j)
    return json.dumps([sc.kind, {n: sc.files[n][vs[n]] for n in sc.files}, op["name"], op["limit"], op.get("user")], sort_keys=True, ensure_ascii=False)


# ------------------------------------------------------------------ model side
def coarse(res):
    """What the property oracles look at: 'ok', or the exception CLASS (no message texts, no function names)."""
    return "ok" if res == "ok" else "raises:" + res["type"]


# exception classes the model's outcome kinds may show up as (correspondence only)
MODEL_KIND_TYPES = {"cycle": {"TheoryException"}, "limit": {"TheoryException"}, "parse": {"Injected", "TheoryException"},
                    "extend": {"TheoryException"}, "key": {"KeyError"}, "order": {"KeyError", "RecursionError"}}


def compatible(model_kind, res):
    if model_kind == "ok" or res == "ok":
        return model_kind == "ok" and res == "ok"
    return res["type"] in MODEL_KIND_TYPES.get(model_kind, set())


# exception class the property demands per reference outcome (None: any exception)
REF_KIND_TYPE = {"cycle": "TheoryException", "limit": "TheoryException", "key": None, "parse": None, "extend": None}


def obs_of_item(ty, name):
    """What an item contributes that a user can observe by name (auto-generated theorems of definitions and
    datatypes are not listed: only presence of these names / absence of the names of items not loaded is judged)."""
    if name is None or ty == "header":
        return []
    if ty in ("thm", "thm.ax"):
        return [("theorems", name)]
    if ty in ("type.ax", "type.ind"):
        return [("types", name)]
    return [("consts", name)]


class ModelView:
    """Numbering of theories/items/modules of one scenario for the Lean model."""

    def __init__(self, sc, src, flags):
        self.sc, self.src = sc, src
        if sc.kind == "real":
            self.names = list(src["names"])
            self.files = {n: [{"imports": src["imports"][n], "items": src["items"][n]}] for n in self.names}
        else:
            self.names = sorted(sc.files)
            self.files = {}
            for n in self.names:
                vs = []
                for v in sc.files[n]:
                    its = src["items"][n] if v.get("content") is None else [(it.get("ty"), it.get("name")) for it in v["content"]]
                    vs.append({"imports": v["imports"], "items": its, "content": v.get("content")})
                self.files[n] = vs
        self.tid = {n: i + 1 for i, n in enumerate(self.names)}
        self.mods = sorted(src["modules"])
        self.mid = {m: i + 1 for i, m in enumerate(self.mods)}
        self.flags = flags or {}

    offset = 0          # items of the library of another user are numbered from (user index) * 10^9

    def item(self, n, v, i):
        return self.offset + self.tid[n] * 1000000 + v * 10000 + i

    def unitem(self, x):
        x -= self.offset
        return self.names[x // 1000000 - 1], (x % 1000000) // 10000, x % 10000

    def rules(self):
        rules = []
        if self.sc.kind == "synth":
            definers = {}
            for n in self.names:
                for v, ver in enumerate(self.files[n]):
                    for i, it in enumerate(ver["content"]):
                        if it["ty"] == "def.ax":
                            definers.setdefault(it["name"], []).append(self.item(n, v, i))
            seen_names = {}
            for n in self.names:
                for v, ver in enumerate(self.files[n]):
                    for i, it in enumerate(ver["content"]):
                        if it["ty"] == "thm.ax":
                            refs = [w for w in it["prop"].split() if w != "⟶"]
                            groups = [definers.get(w, [0]) for w in dict.fromkeys(refs)]
                            rules.append([self.item(n, v, i), "ok", groups])
        else:
            for n, fl in self.flags.items():
                if n in self.tid:
                    for i, ok in enumerate(fl):
                        if not ok:
                            rules.append([self.item(n, 0, i), "err", []])
        return rules

    def ext_rules(self):
        """extension rules for the model: a constant cannot be added to a theory that already has a constant of that
        name (unchecked_extend raises 'Constant ... already exists'), whichever file declares it"""
        if self.sc.kind != "synth":
            return []
        definers = {}
        for n in self.names:
            for v, ver in enumerate(self.files[n]):
                for i, it in enumerate(ver["content"]):
                    if it["ty"] == "def.ax":
                        definers.setdefault(it["name"], []).append(self.item(n, v, i))
        return [[x, [y for y in ds if y != x]] for ds in definers.values() if len(ds) > 1 for x in ds]

    def limit(self, n, v, lim):
        if lim is None:
            return "none"
        if lim == "start":
            return "start"
        its = self.files[n][v]["items"]
        for i, (ty, nm) in enumerate(its):
            if ty == lim[0] and nm == lim[1]:
                return ["item", self.item(n, v, i)]
        return ["item", 999999999]

    def files_sexp(self):
        files = []
        for k, n in enumerate(self.names):
            v = self.files[n][0]
            files.append([self.tid[n], [self.tid.get(i, 0) for i in v["imports"]],
                          [self.item(n, 0, i) for i in range(len(v["items"]))], T0 + k])
        return files

    def op_sexp(self, op, cur):
        """one op of this view's user as the model's (single-user) op; `cur`: current version per file"""
        if op["op"] == "load":
            f = op.get("fault")
            n = op["name"]
            if n not in self.tid:
                return ["load", 0, "none", "none"]
            fault = "none" if not f else self.item(f[0], cur[f[0]], f[1])
            return ["load", self.tid[n], self.limit(n, cur[n], op["limit"]), fault]
        if op["op"] == "import":
            return ["imp", self.mid[op["module"]]]
        if op["op"] == "touch":
            return ["touch", self.tid[op["name"]], op["mtime"]]
        if op["op"] == "edit":
            n, v = op["name"], op["version"]
            cur[n] = v
            return ["edit", self.tid[n], [self.tid.get(i, 0) for i in self.files[n][v]["imports"]],
                    [self.item(n, v, i) for i in range(len(self.files[n][v]["items"]))], op["mtime"]]
        if op["op"] == "reload":
            return ["reload"]
        return None

    def tables(self):
        src = self.src
        lazy = [[self.tid[t], self.mid[m]] for t, m in sorted(src["lazy"].items()) if t in self.tid]
        mods = [[self.mid[m], [["imp", self.mid[a[1]]] if a[0] == "imp" else ["load", self.tid.get(a[1], 0)] for a in src["modules"][m]]]
                for m in self.mods]
        return lazy, mods

    def line(self, pre=()):
        sc = self.sc
        self.npre = len(pre)
        cur = {n: 0 for n in self.names}
        lazy, mods = self.tables()
        ops = [["imp", self.mid[m]] for m in pre]
        for op in sc.ops:
            x = self.op_sexp(op, cur)
            if x is not None:
                ops.append(x)
        return sexp.dumps(["run", FUEL, [self.tid[n] for n in self.names], self.files_sexp(), lazy, mods, self.rules(), self.ext_rules(), ops])


def line_users(sc, views, pre=()):
    """the scenario with several users as one `runu` line of the model: master = user 0, the others numbered from 1"""
    users = sc.users()
    uidx = {None: 0}
    for k, u in enumerate(users):
        uidx[u] = k + 1
        views[u].offset = (k + 1) * 10 ** 9
    mv0 = views[None]
    mv0.npre = len(pre)
    lazy, mods = mv0.tables()
    rules, ext = [], []
    for u in [None] + users:
        rules += views[u].rules()
        ext += views[u].ext_rules()
    ulibs = [[uidx[u], [views[u].tid[n] for n in views[u].names], views[u].files_sexp()] for u in users]
    cur = {u: {n: 0 for n in views[u].names} for u in [None] + users}
    ops = [["imp", mv0.mid[m]] for m in pre]
    for op in sc.ops:
        u = op.get("user") or None
        x = views[u].op_sexp({k: v for k, v in op.items() if k != "user"}, cur[u])
        if x is None:
            continue
        ops.append(x if x[0] == "imp" else [x[0], uidx[u]] + x[1:])
    return sexp.dumps(["runu", FUEL, [mv0.tid[n] for n in mv0.names], mv0.files_sexp(), lazy, mods, rules, ext, ulibs, ops])


def parse_model_users(line, sc, views):
    x = sexp.loads(line)
    if x == "bad-op":
        return None
    users = sc.users()
    byidx = {0: views[None]}
    for k, u in enumerate(users):
        byidx[k + 1] = views[u]
    ops = []
    for (res, evs, thy_j), op in zip(x[0][views[None].npre:], sc.ops):
        mv = views[op.get("user") or None]
        reads, mods = [], []
        for ev in evs:
            if ev == "meta":
                reads.append("#meta")
            elif ev[0] == "read":
                reads.append(mv.names[int(ev[1]) - 1])
            elif ev[0] == "exec":
                mods.append(mv.mods[int(ev[1]) - 1])
        thy = None
        if thy_j != "none":
            thy = [list(byidx[int(i) // 10 ** 9].unitem(int(i)))[::2] for i in thy_j]
        ops.append({"res": res, "reads": reads, "mods": mods, "thy": thy})
    return {"ops": ops, "thy": None}


def parse_model(line, mv):
    x = sexp.loads(line)
    if x == "bad-op":
        return None
    ops = []
    for res, evs, thy_j in x[0][mv.npre:]:
        reads, mods = [], []
        for ev in evs:
            if ev == "meta":
                reads.append("#meta")
            elif ev[0] == "read":
                reads.append(mv.names[int(ev[1]) - 1])
            elif ev[0] == "exec":
                mods.append(mv.mods[int(ev[1]) - 1])
        ops.append({"res": res, "reads": reads, "mods": mods,
                    "thy": None if thy_j == "none" else [list(mv.unitem(int(i)))[::2] for i in thy_j]})
    thy = None if x[1] == "none" else [mv.unitem(int(i)) for i in x[1]]
    return {"ops": ops, "thy": thy}


# ------------------------------------------------------------------ judging one scenario
def differs(hop, fop):
    """property oracle (a): outcome and theory after one load, in the history vs in a fresh process"""
    hres, fres = hop["res"], fop["res"]
    hc = "ok" if hres == "ok" else (hres["type"], hres["msg"][:80])
    fc = "ok" if fres == "ok" else (fres["type"], fres["msg"][:80])
    if hc != fc:
        return "outcome after the history: %s; in a fresh process: %s" % (hc, fc)
    if hc != "ok" and not (hres["type"] == "TheoryException" and "limit" in hres["msg"]):
        return None       # both fail the same way: theory.thy is whatever it was before
    if hop.get("digest") == fop.get("digest"):
        return None
    hd, fd = hop.get("dump"), fop.get("dump")
    if hd is not None and fd is not None:
        for part in ("types", "consts", "theorems", "attributes", "overload", "keys"):
            if hd[part] != fd[part]:
                a, b = {json.dumps(x, ensure_ascii=False) for x in hd[part]}, {json.dumps(x, ensure_ascii=False) for x in fd[part]}
                return "%s differ: only after the history %s; only in a fresh process %s" % (part, sorted(a - b)[:4], sorted(b - a)[:4])
    hi, fi = hop.get("names"), fop.get("names")
    if hi is None or fi is None:
        return "theory.thy is %s after the history and %s in a fresh process" % ("None" if hi is None else "set", "None" if fi is None else "set")
    a = {(part, x) for part in hi for x in hi[part]}
    b = {(part, x) for part in fi for x in fi[part]}
    return "theories differ (same names, different statements/types/attributes)" if a == b else \
        "theories differ: names only after the history %s; only in a fresh process %s" % (sorted(a - b)[:4], sorted(b - a)[:4])


def reference(mv, j):
    """Independent reference loader (plain Python over the files of the scenario as they are when op j starts):
    outcome and item list of theory.thy after the load op j.  Synthetic libraries: an axiom parses iff the constants it
    mentions are visible, a constant defined twice in a file raises.  Real theories: the per-item error flags
    are taken from the implementation (item contents are not interpreted here)."""
    sc = mv.sc
    cur = sc.versions_at(j) if sc.kind != "real" else {n: 0 for n in mv.names}
    files = {n: mv.files[n][cur[n]] for n in mv.names}
    fin = sc.ops[j]
    done = set()

    def visit(n, path):
        if n not in files:
            raise KeyError(n)
        if n in done:
            return
        if n in path:
            raise RecursionError(n)
        for i in files[n]["imports"]:
            visit(i, path + [n])
        done.add(n)
    try:
        for n in sorted(mv.names):
            visit(n, [])
    except KeyError:
        return "key", None
    except RecursionError:
        return "cycle", None
    if fin["name"] not in files:
        return "key", None

    def order(roots):
        out = []

        def go(n):
            if n in out:
                return
            for i in files[n]["imports"]:
                go(i)
            out.append(n)
        for r in roots:
            go(r)
        return out
    memo = {}

    def content(n):
        """list of ok flags, or None when parsing the file raises"""
        if n in memo:
            return memo[n]
        visible = set()
        for p in order(files[n]["imports"]):
            c = content(p)
            if c is None:
                memo[n] = None
                return None
            if sc.kind == "synth":
                for it, ok in zip(files[p]["content"], c):
                    if ok and it["ty"] == "def.ax":
                        if it["name"] in visible:      # two imports declare the same constant: extending raises
                            memo[n] = None
                            return None
                        visible.add(it["name"])
        res = []
        if sc.kind == "synth":
            for it in files[n]["content"]:
                if it["ty"] == "def.ax":
                    if it["name"] in visible:
                        memo[n] = None
                        return None
                    visible.add(it["name"])
                    res.append(True)
                elif it["ty"] == "thm.ax":
                    res.append(all(w in visible for w in it["prop"].split() if w != "⟶"))
                else:
                    res.append(True)
        else:
            fl = mv.flags.get(n)
            res = list(fl) if fl is not None else [True] * len(files[n]["items"])
        memo[n] = res
        return res
    own = content(fin["name"])
    if own is None:
        return "parse", None
    imp_items = []
    for p in order(files[fin["name"]]["imports"]):
        imp_items += [[p, i] for i, ok in enumerate(content(p)) if ok]
    lim = fin["limit"]
    if lim == "start":
        return "ok", (imp_items, [])
    stop = len(own)
    if lim is not None:
        stop = next((i for i, (ty, nm) in enumerate(files[fin["name"]]["items"]) if ty == lim[0] and nm == lim[1]), None)
        if stop is None:
            return "limit", None
    return "ok", (imp_items, [[fin["name"], i] for i in range(stop) if own[i]])


def judge_spec(ctx, sc, j, op_rec, mv, which):
    """property oracle (c): load op j against the reference loader, on what a user can observe --
    * the load raises an exception iff the library says it must (a TheoryException for a cycle / a missing limit);
    * otherwise theory.thy contains the names contributed by every item the library says is loaded and none of the
      names of the items it says are not loaded (items after the limit, items that do not parse, other theories).
    No instrumentation tag, message text or function name is used here."""
    kind, exp = reference(mv, j)
    fin = sc.ops[j]
    res = op_rec["res"]
    what = None
    if kind == "ok" and res != "ok":
        what = "raises %s (%s), the library says it loads" % (res["type"], res["msg"][:100])
    elif kind != "ok" and res == "ok":
        what = "returns normally, the library says it must fail (%s)" % kind
    elif kind != "ok" and REF_KIND_TYPE.get(kind) and res["type"] != REF_KIND_TYPE[kind]:
        what = "raises %s, the library says %s must be reported as a %s" % (res["type"], kind, REF_KIND_TYPE[kind])
    elif kind == "ok":
        names = op_rec.get("names")
        cur = mv.sc.versions_at(j) if sc.kind != "real" else {n: 0 for n in mv.names}
        loaded = {(n, i) for n, i in exp[0] + exp[1]}
        want, others = set(), set()
        scope = mv.names if sc.kind == "synth" else [fin["name"]]       # real theories: only the own items are negated
        for n in set(scope) | {n for n, _ in loaded}:
            for i, (ty, nm) in enumerate(mv.files[n][cur[n]]["items"]):
                (want if (n, i) in loaded else others).update(obs_of_item(ty, nm))
        others -= want
        if names is None:
            what = "theory.thy is None after a load that returned normally"
        else:
            have = {(part, nm) for part in ("types", "consts", "theorems") for nm in names[part]}
            missing, extra = sorted(want - have), sorted(others & have)
            if missing or extra:
                what = "theory.thy lacks %s and contains %s (names of items that must / must not be loaded)" % (missing[:5], extra[:5])
    if what is not None:
        if which == "history":
            key = "spec:" + classify_history(sc, j) if not stale_imports_class(sc, j) else STALE_IMPORTS
        else:
            key = "spec-fresh:" + json.dumps([fin["name"], fin["limit"]], ensure_ascii=False) + (
                "" if sc.kind == "real" else "|" + hashlib.sha1(fresh_key(sc, j).encode("utf-8")).hexdigest()[:12])
        ctx.violation(key,
            "load_theory(%s, limit=%s) in a %s: %s. History: %s (%s)" % (
                fin["name"], fin["limit"], "fresh process" if which == "fresh" else "process with a history", what,
                json.dumps(sc.ops[:j + 1] if which == "history" else [sc.ops[j]], ensure_ascii=False)[:500], sc.note),
            {"scenario": sc.to_json(), "difference": what, "which": which, "op": j})
    return what


STALE_IMPORTS = "stale-imports:imports-of-a-file-edited-without-load_metadata"


def stale_imports_class(sc, j=None):
    """an edit changes the `imports` of a file and no load_metadata follows before load op j (default: the last)"""
    pending = False
    cur = {n: 0 for n in sc.files}
    for op in sc.ops[:len(sc.ops) if j is None else j]:
        if op["op"] == "edit":
            if sc.files[fkey(op)][op["version"]]["imports"] != sc.files[fkey(op)][cur[fkey(op)]]["imports"]:
                pending = True
            cur[fkey(op)] = op["version"]
        elif op["op"] == "reload":
            pending = False
    return pending


def classify_history(sc, j=None):
    """Key of a violation: the class of the history when a whole class triggers the defect, else the history."""
    if stale_imports_class(sc, j):
        return STALE_IMPORTS
    ops = sc.ops if j is None else sc.ops[:j + 1]
    return "history:" + json.dumps(ops, sort_keys=True, ensure_ascii=False) + (
        "" if sc.kind == "real" else "|lib:" + hashlib.sha1(json.dumps(sc.files, sort_keys=True, ensure_ascii=False).encode("utf-8")).hexdigest()[:12])


def judge(ctx, sc, j, hop, fop, label):
    """oracle (a) for load op j"""
    d = differs(hop, fop)
    if d is not None:
        ctx.violation(classify_history(sc, j), "load_theory(%s, limit=%s) [step %d] %s. History: %s (%s)" % (
            sc.ops[j]["name"], sc.ops[j]["limit"], j, d, json.dumps(sc.ops[:j + 1], ensure_ascii=False)[:700], sc.note),
            {"scenario": sc.to_json(), "difference": d, "op": j})
    return d


def instrumented(h):
    """Did the tracing wrappers of c12_runner.py see the loader's work?  (They hang on internals: module attributes of
    logic/basic.py and server/items.py; a harmless refactoring may bypass them.)"""
    ins = h.get("instr")
    if ins is None or (ins["json"] == 0 and ins["parse"] == 0 and ins["extend"] == 0):
        return True                     # nothing was read or extended (e.g. every load failed in load_metadata)
    return ins["json"] > 0 and ins["parse"] > 0 and ins["tagged"] == ins["extend"]


def model_names(mv, sc, j, thy):
    cur = sc.versions_at(j) if sc.kind != "real" else {n: 0 for n in mv.names}
    out = set()
    for n, i in thy:
        ty, nm = mv.files[n][cur[n] if n in cur else 0]["items"][i]
        out.update(obs_of_item(ty, nm))
    return out


def correspond(ctx, sc, h, model_out, mv, label, views=None):
    """Model correspondence (never a violation by itself).  Outcomes are matched by exception class.  With working
    instrumentation: files parsed, modules executed, exact item list of theory.thy at every load.  When the wrappers
    were bypassed: only the outcome and the names the model's theory must contribute (scenarios with injected faults
    are skipped, the fault cannot be injected)."""
    if views is not None and sc.users():
        m = parse_model_users(model_out, sc, views) if model_out else None
    else:
        m = parse_model(model_out, mv) if model_out else None
    if m is None:
        ctx.broken("correspondence:c12:driver", "model driver gave no answer for %s" % label)
        return False
    full = instrumented(h)
    if not full:
        ctx.count("instrumentation-bypassed")
        ctx.coverage["instrumentation"] = ("tracing wrappers bypassed by the implementation (%s): correspondence reduced to outcomes and "
                                           "observable names" % h.get("instr"))
        if any(op.get("fault") for op in sc.ops):
            return True
    bad = []
    for j, (po, mo) in enumerate(zip(h["ops"], m["ops"])):
        if not compatible(mo["res"], po["res"]):
            bad.append("op %d %s: impl %s model %s" % (j, sc.ops[j], po["res"], mo["res"]))
        if full and po["reads"] != mo["reads"]:
            bad.append("op %d %s: files parsed impl %s model %s" % (j, sc.ops[j], po["reads"], mo["reads"]))
        if po["mods"] != mo["mods"]:
            bad.append("op %d %s: modules executed impl %s model %s" % (j, sc.ops[j], po["mods"], mo["mods"]))
        if sc.ops[j]["op"] == "load":
            ht, mt = po.get("thy_items"), mo["thy"]
            if po["res"] != "ok":
                pass            # what theory.thy holds after an exception is not specified
            elif full and ht is not None and mt is not None:
                if ht != mt:
                    k = next((k for k in range(min(len(ht), len(mt))) if ht[k] != mt[k]), min(len(ht), len(mt)))
                    bad.append("op %d %s: theory items differ at position %d: impl %s model %s (lengths %d / %d)" % (
                        j, sc.ops[j], k, ht[k:k + 3], mt[k:k + 3], len(ht), len(mt)))
            elif not full and po.get("names") is not None and mt is not None and po["res"] == "ok" and not sc.users():
                have = {(part, nm) for part in po["names"] for nm in po["names"][part]}
                lack = sorted(model_names(mv, sc, j, mt) - have)
                if lack:
                    bad.append("op %d %s: theory lacks names the model's theory contributes: %s" % (j, sc.ops[j], lack[:5]))
            elif (po.get("names") is None) != (mt is None):
                bad.append("op %d: theory impl %s model %s" % (j, "None" if po.get("names") is None else "set", "None" if mt is None else "set"))
    if bad:
        ctx.broken("correspondence:c12:%s" % label, "; ".join(bad[:3]) + " | history " + json.dumps(sc.ops, ensure_ascii=False)[:300])
        ctx.coverage["disagreements_checked"] += 1
        return False
    return True


def run_scenarios(ctx, scs, src, label, zygote=False, search=True):
    """Runs every scenario (one history process + one fresh process per judged load, in parallel), judges every
    judged load against the fresh process and the reference loader, and compares every step with the model.
    zygote=True: the processes are forked from one process that has just imported the loader (synthetic battery);
    otherwise every run is a cold `python` process."""
    specs = []
    for idx, sc in enumerate(scs):
        specs.append(prepare(ctx, sc, "%s%d" % (label, idx), src))
    todo, alias, fresh_cache = {}, {}, {}
    for idx, sc in enumerate(scs):
        todo[("h", idx)] = specs[idx][0]
    for idx, sc in enumerate(scs):
        for j, fspec in specs[idx][1].items():
            fk = fresh_key(sc, j)
            if fk not in fresh_cache:
                fresh_cache[fk] = ("f", idx, j)
                todo[("f", idx, j)] = fspec
            alias[("f", idx, j)] = fresh_cache[fk]
    if zygote:
        done = run_zygote(ctx, todo, label)
    else:
        done = {}
        with concurrent.futures.ThreadPoolExecutor(max_workers=WORKERS) as ex:
            futs = {k: ex.submit(run_runner, ctx, sp, "%s-%s" % (label, "-".join(map(str, k)))) for k, sp in todo.items()}
            for n_done, (k, jb) in enumerate(futs.items()):
                done[k] = jb.result()
                if (n_done + 1) % 40 == 0:
                    ctx.log("%s: %d/%d subprocess results collected" % (label, n_done + 1, len(futs)))
    results = dict(done)
    for k, k0 in alias.items():
        results[k] = done[k0]
    ctx.log("%s: %d scenarios, %d processes (%s)" % (label, len(scs), len(todo), "forked from one importer" if zygote else "cold"))
    ctx.count("processes", len(fresh_cache) + len(scs))
    lines, views = [], []
    for idx, sc in enumerate(scs):
        h = results[("h", idx)]
        flags = {}
        for r in [results[("f", idx, j)] for j in specs[idx][1]] + [h]:
            if "final" in r:
                for n, fl in r["final"]["flags"].items():
                    flags.setdefault(n, fl)
        vs = {u: ModelView(sc.sub(u), src, flags) for u in [None] + sc.users()}
        views.append(vs)
        pre_mods = h.get("pre", []) if "error" not in h else []
        lines.append(line_users(sc, vs, pre_mods) if sc.users() else vs[None].line(pre_mods))
    out = ctx.lean_driver(EXE, lines) if lines else []
    nviol = 0
    broken_scs = []
    for idx, sc in enumerate(scs):
        h = results[("h", idx)]
        lab = "%s-%d" % (label, idx)
        kinds = [o["op"] + (":fault" if o.get("fault") else "") + (":user" if o.get("user") else "") for o in sc.ops[:-1]]
        ctx.case(sc.key(), nontrivial=len(sc.ops) >= 2)
        ctx.count("%s:%s" % (sc.kind, "+".join(sorted(set(kinds))) or "fresh"))
        if "error" in h:
            ctx.broken("runner:c12:" + lab, "history run: %s" % h.get("error"))
            continue
        before = len(ctx.violations) + len(ctx.known_hits)
        for j in sc.judged_ops():
            f = results[("f", idx, j)]
            if "error" in f:
                ctx.broken("runner:c12:" + lab, "fresh run for step %d: %s" % (j, f.get("error")))
                continue
            ctx.count("load-vs-fresh-process:" + coarse(h["ops"][j]["res"]))
            if judge(ctx, sc, j, h["ops"][j], f["ops"][0], lab):
                nviol += 1
            if judge_spec(ctx, sc, j, f["ops"][0], views[idx][sc.ops[j].get("user")], "fresh"):
                nviol += 1
        for j in sc.spec_ops():
            ctx.count("load-vs-reference-loader")
            if judge_spec(ctx, sc, j, h["ops"][j], views[idx][sc.ops[j].get("user")], "history"):
                nviol += 1
        if sc.users():
            ctx.count("modelled:several-users")
        if not correspond(ctx, sc, h, out[idx] if out else None, views[idx][None], lab, views[idx]):
            if len(ctx.violations) + len(ctx.known_hits) == before and sc.kind == "synth" and search:
                broken_scs.append(sc)
    if out is None:
        ctx.broken("correspondence:c12:driver", "model driver unavailable")
    if broken_scs:
        # failing-input search: the model and the implementation disagree on a history on which no oracle objected --
        # run amplified histories (earlier loads repeated after every change, further edits of the theories loaded
        # with a limit) with EVERY load judged against its own fresh process
        ctx.log("%s: correspondence broke on %d histories without a failing input; searching with amplified histories" % (
            label, len(broken_scs)))
        amp = [amplify(sc) for sc in broken_scs[:6]]
        ctx.coverage["disagreements_checked"] += len(amp)
        nviol += run_scenarios(ctx, amp, src, label + "-search", zygote=zygote, search=False)
    return nviol


def amplify(sc):
    """A history derived from `sc` for the failing-input search: after every change of state all earlier distinct
    loads are repeated; then every theory that was loaded is replaced by each of its other versions in turn (with
    later and later timestamps) and its loads are repeated again.  Every load is judged against a fresh process."""
    ops, seen = [], []

    def sig(op):
        return json.dumps([op["name"], op["limit"], op.get("user")])
    tmax = max([op["mtime"] for op in sc.ops if "mtime" in op] + [T0 + 9000])
    for op in sc.ops:
        ops.append(copy.deepcopy(op))
        if op["op"] == "load":
            if not op.get("fault") and sig(op) not in [sig(x) for x in seen]:
                seen.append(dict(copy.deepcopy(op), fault=None))
        elif op["op"] in ("edit", "touch", "reload"):
            ops += copy.deepcopy(seen)
    cur = sc.final_versions()
    for op0 in list(seen):
        k = fkey(op0)
        if k not in sc.files:
            continue
        for v in range(len(sc.files[k])):
            if v == cur.get(k) or sc.files[k][v]["imports"] != sc.files[k][cur[k]]["imports"]:
                continue
            tmax += 50
            ops.append({"op": "edit", "name": op0["name"], "version": v, "mtime": tmax, **({"user": op0["user"]} if op0.get("user") else {})})
            cur[k] = v
            ops += [copy.deepcopy(x) for x in seen if fkey(x) == k or True][:8]
        if len(ops) > 60:
            break
    return Scenario(sc.kind, copy.deepcopy(sc.files), ops, sc.note + " [amplified for the failing-input search]", full=True)


# ------------------------------------------------------------------ entry points
def read_sources(ctx):
    names, imports, items = scan_theories(os.path.join(ctx.repo, "library"))
    lazy, protected = scan_lazy(ctx.repo)
    modules = scan_modules(ctx.repo, lazy)
    return {"names": names, "imports": imports, "items": items, "lazy": lazy, "modules": modules, "protected": protected}


def load_corpus(ctx):
    p = os.path.join(ctx.verif, "corpus", "c12.json")
    if os.path.exists(p):
        with open(p) as fh:
            return [Scenario.from_json(d) for d in json.load(fh)]
    return []


def run(ctx):
    ctx.coverage["rule"] = (
        "DETERMINISTIC BATTERY (every run, every seed; synthetic chain ta<-tb<-tc<-td and diamond libraries whose axioms need "
        "constants of direct AND indirect imports): edit of each file of the chain in turn then every theory reloaded; new content "
        "with an OLDER mtime for the own file / a direct / an indirect import; diamond with edits, restore of the original file "
        "with its original mtime; dangling import / cycle / both with 'failed load, unrelated theory, broken theory, load_metadata'; "
        "dangling import and cycle introduced by edits; loads interrupted at items of an import / the theory / the root; duplicate "
        "constant; limits (present, first, last, start, missing, foreign); os.utime forwards / backwards / unchanged; imports edited "
        "with and without load_metadata; the SAME LIMITED LOAD repeated around edits that insert / delete / move items in front of "
        "the limit, change only what is behind it, move / delete / rename the limit item and put it back; two limits of one theory "
        "and limit='start'/None alternating around edits; limited loads at the top with edits in direct and indirect imports; a "
        "second user's library with the same theory names, limited loads of both users interleaved with edits of either (oracles "
        "(a) and (c) only: the model has one user). EVERY load of a synthetic scenario is compared with its own fresh process (files as they "
        "are at that step), with the reference loader and with the Lean model (outcome, files parsed, theory items). "
        "RANDOM REMAINDER: a case is one scripted history ending in load_theory(name, limit), run in its own Python process and compared with a "
        "fresh process doing only the final load and with the Lean model: real library (prior loads with limits, imports of "
        "modules that load theories as a side effect, a load interrupted by an injected exception, fresh loads of smt/verit), "
        "scratch copies of small real theories (os.utime forwards and backwards, load_metadata, faults) and random synthetic "
        "libraries of 3-6 theories whose axioms parse only when the constants they mention are visible (edits of imported "
        "files, touches, faults, duplicate constants, cycles, dangling imports, present/missing limits). Non-trivial = at least "
        "one step before the final load; distinct by library + history.")
    try:
        src = read_sources(ctx)
        gen, _, _ = gen_lean(src["names"], src["imports"], src["lazy"], src["modules"])
        if ctx.write_if_changed("Holpy/C12/Gen.lean", gen):
            ctx.log("Gen.lean regenerated (changed)")
    except Exception as e:  # noqa
        ctx.broken("translate:c12:tables", "untranslatable: %r" % e)
        raise
    proofs_ok = ctx.lean_props(["Holpy.C12.Props"], exes=[EXE])
    if ctx.tier == "thorough" and proofs_ok:
        ctx.lean_check_modules(["Holpy.C12.Props"])
    ctx.coverage["trusted_base"] += [
        "harness/props/c12.py + c12_runner.py (history generator, tracing wrappers around load_json_data / parse_item / "
        "get_extension / unchecked_extend, canonical dump of Theory.data)",
        "ast-based reading of module-level imports and basic.load_theory calls (function-level imports are not followed)",
        "file timestamps set explicitly with os.utime (granularity of real file systems not modelled)"]
    ctx.assumptions += [
        "item contents and the parser are opaque in the model: the result of parsing an item is a function of the item and of the items visible",
        "Lean theorems cover histories with edits under OkHistory: a replaced/touched file gets a timestamp it never had in this "
        "process; no load between an edit of `imports` and load_metadata",
        "a change of a file's `imports` needs basic.load_metadata() before the next load (known finding, generated and keyed)",
        "the Python package smt/ of the repository is shadowed by site-packages and is not imported in histories",
        "no theorem bounds the model's fuel; the runs use fuel 400 and would show a model answer `fuel` as a correspondence break",
        "for real theories the reference loader's per-item ok flags come from the implementation itself (oracle (c) is "
        "independent there only for import order, limit logic and presence/absence of item names)",
        "a file replaced by DIFFERENT content with EXACTLY the mtime it was cached under is outside the property (a timestamp cache "
        "cannot see it; 'a changed file is re-read' presupposes a changed timestamp) and is not generated; any other mtime, older or "
        "newer, must cause a re-read and is generated"]
    corpus = load_corpus(ctx)
    rng = ctx.rng("histories")
    heavy = heavy_histories(src, ctx.tier)
    bat = battery(ctx.rng("battery"))
    for sc in bat[:1] + bat[7:8]:
        ctx.sample({"kind": sc.kind, "ops": sc.ops, "note": sc.note})
    rnd = gen_real(rng, src, ctx.scale(1, 22), heavy) + gen_copy(rng, src, ctx.scale(1, 10)) + gen_synth(rng, ctx.scale(6, 38))
    for sc in rnd[:2] + rnd[-2:]:
        ctx.sample({"kind": sc.kind, "ops": sc.ops, "note": sc.note})
    everything = corpus + bat + rnd
    # synthetic libraries: forked from one process that has imported the loader; real theories: cold processes
    run_scenarios(ctx, [sc for sc in everything if sc.kind == "synth"], src, "synthetic", zygote=True)
    run_scenarios(ctx, [sc for sc in everything if sc.kind != "synth"], src, "real")


def replay(ctx, rp):
    """Re-run one recorded history; True if history and fresh process still disagree."""
    src = read_sources(ctx)
    sc = Scenario.from_json(rp["replay"]["scenario"])
    run_scenarios(ctx, [sc], src, "replay")
    for v in ctx.violations:
        print("still fails:", v[1])
    return bool(ctx.violations)


MANIFEST = {
    "text": "Lean theorems about an executable model of the loader state machine (per-user cache with timestamps and dependency "
            "timestamps, global theory, fresh_theory blocks, import-once module side effects, injected faults, extensions that "
            "raise, several users), for every world (parser, extension clashes, lazy-import table, module bodies), library, "
            "timestamps and fuel. HISTORIES: loads (any limit, with or without an injected fault), module imports, os.utime, "
            "EDITS (a file replaced: new items, new imports, new timestamp -- older timestamps included) and load_metadata, under "
            "the explicit hypothesis OkHistory, which excludes exactly (i) a touch/edit that gives a file a timestamp it already "
            "had earlier in the process (the assumption a timestamp cache relies on) and (ii) a load between an edit that "
            "changes the `imports` of a file and the next load_metadata (known finding, stale_imports_counterexample). For those: "
            "load_eq_spec (library healthy NOW) -- the outcome of load_theory(n, limit) IS the specification on the CURRENT "
            "files; load_eq_fresh_process -- it is what a process that has just started on the current files returns; "
            "load_returns_spec (any library: a normal return carries the specified theory); cache_invariant (every reusable "
            "cache entry holds the specified parse of its file in the current library and recorded a timestamp for every "
            "transitive import) and cache_invariant_after_error (a load that raised leaves a cache from which every later load "
            "still equals the specification; what theory.thy holds right after an exception is NOT specified); "
            "import_clash_reported, missing_limit_reported, cycle_reported, changed_file_reread. SEVERAL USERS: the model "
            "(execU/stepU) has a library and cache per user, loads focus on the user's own directory (the code has NO "
            "shadowing of / fall-back to master), module-level load_theory calls go to master; "
            "users_isolated: a load for user B -- with the lazily imported modules and the master loads it triggers -- "
            "and every edit / touch / load_metadata of B's files leave the library and cache of every other user A (A not "
            "master for loads) exactly as they were; user_resolution_spec (lazy imports included, every user, every focus): whenever the "
            "cache invariant holds for the library of user u, a normal return of load_theory(n, limit, username=u) carries the "
            "specification on u's OWN files (a module's load_theory call works on master and never disturbs u's library); "
            "load_returns_spec_users (EVERY user, master included, any interleaving): after any multi-user history -- loads of any "
            "user (interrupted or not), module imports, touches, edits, metadata reloads -- in which the operations that reach "
            "u's own library satisfy the hypothesis okHistA (fresh timestamps for u's files; no load reaching u's library between "
            "an edit of the imports of one of u's files and load_metadata(u); for a non-master user only its own loads reach "
            "it, for master also every other user's load and every module import do, through the basic.load_theory calls of "
            "lazily imported modules), a normal return of load_theory(T, limit, username=u) carries the specification on u's "
            "CURRENT files; behind it keepM_execU: every call of the multi-user loader, from every focus, keeps the cache "
            "invariant of master's library. load_eq_spec_users_partial is its non-master case (kept, pinned). NOT proved: the "
            "no-spurious-failure direction for several users (it also needs master's library healthy -- a lazily imported "
            "module loads a master theory -- and the no-failure lemmas are not threaded through two libraries); the results "
            "of loads in multi-user histories, including users whose imports differ from master's and theories master lacks, are judged by "
            "the second-user histories (fresh process, reference loader, model step by step). FUEL: every theorem admits the outcome 'the model ran out of fuel'; no theorem says that some amount of "
            "fuel suffices; every run confirms on its own histories that fuel 400 sufficed. "
            "FAILING-INPUT SEARCH: when the model correspondence breaks on a synthetic history on which no oracle objected, an "
            "amplified history is run with every load judged against its own fresh process. "
            "Tables (import graph, lazy imports, module -> load_theory calls) are regenerated from the sources each run and "
            "checked. Tie to logic/basic.py: scripted histories in subprocesses; every load is judged (a) against a fresh "
            "process on the files of that moment, (c) against a reference loader on observable names and exception classes "
            "only, and (b) compared with the model (outcome class, files parsed, modules executed, item list).",
    "note": "Trusted: Lean kernel, propext/Classical.choice/Quot.sound, the harness, the reference loader. Item contents are opaque. "
            "The property oracles (a) and (c) use only what a user can observe (exception class, names and canonical dump of "
            "theory.thy); the tags threaded through wrapped internals serve the model correspondence only and are dropped, with "
            "a note in the evidence, when a refactoring bypasses them. For REAL theories the reference loader takes the per-item "
            "ok flags from the implementation's own run, so oracle (c) is independent there only for import order, limit logic "
            "and presence/absence of item names; for synthetic libraries it is fully independent. Synthetic-library processes "
            "are forked from one process that has imported the loader; real-library histories run in cold processes. "
            "Same-mtime-different-content (a timestamp reused for different content) is outside the property: it is exactly "
            "hypothesis (i) of OkHistory. Known finding: edited `imports` are not re-read without load_metadata. Model = code "
            "with fixes C12-1..4.",
    "design_ref": "DESIGN.md 4/C12",
}
FINDINGS = [
    {"status": "known", "key": STALE_IMPORTS,
     "what": "after the `imports` of a theory file are edited, load_theory keeps using the imports read by load_metadata "
             "(the file content is re-read, its imports are not) until basic.load_metadata() is called; e.g. load b; remove "
             "the import of a from b.json; load b -> still built on a. No small safe fix: the import graph is cached per "
             "user and checked for cycles only in load_metadata (the web app calls it when listing files)"},
    {"status": "fixed", "key": "fresh-process:load_theory(smt)", "commit": "4739227",
     "what": "in a fresh process load_theory('smt') (also 'verit') raised 'Constant of_int already exists': importing data.real "
             "inside the fresh_theory block of the importing theory ran basic.load_theory, which replaced theory.thy"},
    {"status": "fixed", "key": "interrupted-load:partial-cache", "commit": "1de202d",
     "what": "a load interrupted by an exception left timestamp + partial content in the cache; the next load silently gave a theory with items missing"},
    {"status": "fixed", "key": "edit-of-imported-file:stale-dependant", "commit": "1fd9367",
     "what": "after editing an imported file, the importing theory kept items parsed against the old version"},
    {"status": "fixed", "key": "cycle:reported-once", "commit": "f7495fc",
     "what": "a cycle (or dangling import) was reported by the first load only, later loads succeeded or hit RecursionError; "
             "for users other than master the check ran on master's cache (KeyError 'master')"},
]
