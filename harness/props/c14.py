"""C14 — every suggested proof step is applicable and does what it says.

Stages: (1) Lean obligations (Holpy.C14.Props: the splice of `apply_tactic` leaves open only gaps
of the proof-term shape it was given) + driver; (2) property oracle on the real code: for reachable
states (every prefix of recorded library proofs, states of perturbed / random edit sequences of the
C13 generator), choices of goal line and <=3 fact lines, *every* suggestion of
`ProofState.search_method` is applied to a copy with the parameters the method declares (`sig`)
and the suggestion leaves open supplied type-directedly; the outcome must be success or a
ParameterQueryException naming parameters; on success the new open goals / new facts are compared
with what the suggestion advertised (`_goal`, `_fact`: what `output_hint` displays);
(3) correspondence of the splice with the Lean model is C13's stream (same model).
"""
import copy
import json

from harness.common.ctx import Timeout, time_limit
from harness.props import c13 as base

EXE = "c14_model"


def ids(pos):
    return base.id_str(pos)


def clean(sugg):
    return {k: v for k, v in sugg.items() if not k.startswith("_") and k != "display"}


def ms_sub(a, b):
    """multiset difference a - b for lists of hashable/== items."""
    b = list(b)
    out = []
    for x in a:
        if x in b:
            b.remove(x)
        else:
            out.append(x)
    return out


def closed_before(state, goal_pos, th):
    """Is `th` already available at the goal: an earlier visible line whose sequent proves it
    (same proposition, hypotheses included in th's), or trivially true (A1 --> .. --> An --> Ai)?"""
    from logic import logic
    for pos, it in base.walk(state):
        if it.th is not None and base.visible(pos, goal_pos):
            if it.th.prop == th.prop and set(it.th.hyps) <= set(th.hyps):
                return "fact"
    try:
        if logic.trivial_macro().can_eval(th.prop):
            return "trivial"
    except Exception:  # noqa
        pass
    return None


class Examiner:
    def __init__(self, ctx, rng, max_choices):
        self.ctx, self.rng, self.max_choices = ctx, rng, max_choices

    # ---------------------------------------------------------------- choices at one state
    def examine(self, goal, trail, state, hint_step=None):
        """All gaps (capped) x fact selections (<=3 facts; [] and the recorded selection always,
        random others) x all suggestions."""
        rng = self.rng
        gaps = [pos for pos, it in base.walk(state) if it.rule == "sorry"]
        if not gaps:
            return
        chosen = []
        if hint_step is not None:
            try:
                gp = tuple(int(x) for x in str(hint_step["goal_id"]).split("."))
                fs = [tuple(int(x) for x in f.split(".")) for f in (hint_step.get("fact_ids") or [])]
                if gp in gaps and len(fs) <= 3:
                    chosen.append((gp, fs))
            except Exception:  # noqa
                pass
        for gp in (gaps if len(gaps) <= 3 else rng.sample(gaps, 3)):
            vis = base.visible_facts(state, gp)
            chosen.append((gp, []))
            for _ in range(self.max_choices):
                k = rng.choice([1, 1, 1, 2, 2, 3])
                if len(vis) >= k:
                    chosen.append((gp, rng.sample(vis, k)))
        seen = set()
        for gp, fs in chosen:
            key = (gp, tuple(fs))
            if key in seen:
                continue
            seen.add(key)
            self.examine_choice(goal, trail, state, gp, fs)

    def examine_choice(self, goal, trail, state, gp, fs):
        ctx = self.ctx
        goal.set_context()
        before = base.snapshot(state)
        try:
            with time_limit(base.STEP_LIMIT):
                res = state.search_method(ids(gp), [ids(f) for f in fs])
        except Timeout:
            ctx.count("search:timeout")
            return
        except Exception as e:  # noqa
            # the property is about the suggestions returned; a search that raises returns none
            ctx.count("search:raises:%s" % type(e).__name__)
            return
        if base.snapshot(state) != before:
            ctx.violation("search-modifies-state", "search_method(%s, %s) changed the state on %s" % (ids(gp), [ids(f) for f in fs], goal.ident()),
                          {"goal": goal.to_json(), "trail": trail, "goal_id": ids(gp), "fact_ids": [ids(f) for f in fs]})
        ctx.count("search:%d-facts" % len(fs))
        for r in res:
            self.test_suggestion(goal, trail, state, gp, r)

    # ---------------------------------------------------------------- one suggestion
    def test_suggestion(self, goal, trail, state, gp, sugg):
        from kernel import theory
        from server import method
        ctx, rng = self.ctx, self.rng
        name = sugg["method_name"]
        goal.set_context()
        rp = {"goal": goal.to_json(), "trail": trail, "goal_id": sugg["goal_id"], "fact_ids": sugg.get("fact_ids", []),
              "suggestion": jsonable(sugg)}
        try:
            step = base.fill_params(state, clean(sugg), rng)
        except Exception as e:  # noqa
            ctx.count("apply:%s:no-guess" % name)
            return
        if step is None:
            ctx.count("apply:%s:no-guess" % name)
            return
        asked = False
        outcome, err, target = None, None, None
        for _round in range(3):
            target = copy.copy(state)
            goal.set_context()
            try:
                with time_limit(base.STEP_LIMIT):
                    method.apply_method(target, copy.deepcopy(step))
                outcome = "ok"
                break
            except Timeout:
                outcome = "timeout"
                break
            except theory.ParameterQueryException as e:
                params = list(getattr(e, "params", []) or [])
                if not params or not all(isinstance(p, str) and p for p in params):
                    outcome, err = "fail", e
                    break
                if all(p in step for p in params):
                    outcome, err = "fail", e        # asks again for what was supplied
                    break
                asked = True
                ctx.count("apply:%s:query" % name)
                try:
                    step2 = base.fill_params(state, step, rng, query=params)
                except Exception:  # noqa
                    step2 = None
                if step2 is None:
                    outcome = "query-no-guess"
                    break
                step = step2
                outcome = "query"
            except Exception as e:  # noqa
                outcome, err = "fail", e
                break
        rp["step"] = step
        nontriv = bool(sugg.get("_goal")) or bool(sugg.get("_fact")) or len(sugg.get("fact_ids", [])) > 0
        ctx.case((goal.ident(), json.dumps(trail, sort_keys=True, default=str), json.dumps(jsonable(sugg), sort_keys=True)), nontrivial=nontriv)
        if outcome in ("timeout", "query-no-guess", "query"):
            ctx.count("apply:%s:%s" % (name, outcome))
            return
        if outcome == "fail":
            cls = type(err).__name__
            if asked:
                # parameters asked for were guessed by the harness: a failure may be the guess's fault
                ctx.count("apply:%s:fails-after-guessed-parameters:%s" % (name, cls))
                return
            ctx.count("apply:%s:FAILS" % name)
            ctx.violation("fails-outright:%s:%s:%s" % (name, cls, base.err_class(base.short(err))),
                          "suggestion %s for goal %s facts %s on %s fails outright: %s: %s" % (
                              clean(sugg), sugg["goal_id"], sugg.get("fact_ids", []), goal.ident(), cls, base.short(err)), rp)
            return
        ctx.count("apply:%s:ok" % name)
        if sugg.get("_goal") or sugg.get("_fact"):
            ctx.sample({"goal": goal.ident(), "steps_so_far": len(trail), "suggestion": jsonable(sugg), "outcome": "ok"})
        if any(k.startswith("param_") and v != "" and k not in sugg for k, v in step.items()):
            # the advertised result was for the application that keeps these variables general
            ctx.count("apply:%s:ok-with-instantiated-parameters" % name)
            sugg = {k: v for k, v in sugg.items() if k not in ("_goal", "_fact")}
        self.compare(goal, state, target, gp, sugg, rp)

    def compare(self, goal, state, target, gp, sugg, rp):
        ctx = self.ctx
        name = sugg["method_name"]
        goal_th = state.get_proof_item(gp).th
        old = [it.th for _, it in base.walk(state) if it.rule == "sorry"]
        new = [it.th for _, it in base.walk(target) if it.rule == "sorry"]
        rest = ms_sub(old, [goal_th])
        new_open = ms_sub(new, rest)
        if "_goal" in sugg:
            adv = list(sugg["_goal"])
            extra = [th for th in new_open if th.prop not in adv]
            if extra:
                ctx.violation("unadvertised-goal:%s" % name,
                              "%s on %s advertised goals %s but leaves open %s" % (clean(sugg), goal.ident(), [str(t) for t in adv], [str(t) for t in extra]), rp)
            if not adv and new_open:
                ctx.count("solves-but-leaves:%s" % name)
            open_props = [th.prop for th in new_open]
            for p in adv:
                if p not in open_props:
                    from kernel.thm import Thm
                    how = closed_before(state, gp, Thm(p, goal_th.hyps))
                    if how is None:
                        ctx.violation("advertised-goal-vanished:%s" % name,
                                      "%s on %s advertised goal %s which is neither left open nor proved by an earlier fact nor trivial" % (clean(sugg), goal.ident(), p), rp)
                    else:
                        ctx.count("advertised-closed-by-%s" % how)
            # the goal itself is no longer open (unless re-advertised)
        elif "_fact" in sugg:
            # a forward step: the gaps stay as they are, except that the new fact may close the goal
            if new_open not in ([goal_th], []):
                ctx.violation("forward-step-changes-goals:%s" % name,
                              "%s on %s: open goals %s became %s" % (clean(sugg), goal.ident(), [str(t) for t in old], [str(t) for t in new]), rp)
        if "_fact" in sugg:
            old_lines = [(it.rule, it.th, base.args_str(it)) for _, it in base.walk(state)]
            new_lines = [(it.rule, it.th, base.args_str(it)) for _, it in base.walk(target)]
            added = ms_sub(new_lines, old_lines)
            for p in sugg["_fact"]:
                hit = [l for l in added if l[1] is not None and l[1].prop == p and l[0] != "sorry"]
                if not hit:
                    ctx.violation("advertised-fact-missing:%s" % name,
                                  "%s on %s advertised fact %s; new lines are %s" % (clean(sugg), goal.ident(), p, [(l[0], str(l[1])) for l in added]), rp)
            # 'proved': the state re-checks with the new line in it (when the state before did:
            # a starting state that does not re-check is C13's subject)
            try:
                with time_limit(base.STEP_LIMIT * 3):
                    copy.copy(state).check_proof()
            except Timeout:
                return
            except Exception:  # noqa
                ctx.count("start-state-does-not-recheck")
                return
            chk = copy.copy(target)
            try:
                with time_limit(base.STEP_LIMIT * 3):
                    chk.check_proof()
            except Timeout:
                ctx.count("recheck:timeout")
            except Exception as e:  # noqa
                ctx.violation("advertised-fact-not-proved:%s:%s" % (name, type(e).__name__),
                              "%s on %s: the state with the new fact does not re-check: %s" % (clean(sugg), goal.ident(), base.short(e)), rp)


def jsonable(sugg):
    out = {}
    for k, v in sugg.items():
        if k == "display":
            continue
        if k in ("_goal", "_fact"):
            out[k] = [str(t) for t in v]
        else:
            out[k] = v
    return out


# ====================================================================== streams
def recorded_prefixes(ctx, ex, goal):
    """Every prefix of the recorded proof."""
    from server import method
    state = goal.init_state()
    trail = []
    for i, step in enumerate(goal.steps):
        ex.examine(goal, list(trail), state, hint_step=step)
        goal.set_context()
        try:
            with time_limit(base.STEP_LIMIT):
                method.apply_method(state, copy.deepcopy(step))
        except Timeout:
            ctx.count("recorded:timeout")
            return
        except Exception as e:  # noqa
            ctx.count("recorded-step-fails:%s" % type(e).__name__)
            return
        trail.append({"step": base.clean_step(step), "on_copy": False, "adopt": True})
    ex.examine(goal, list(trail), state)


def run(ctx):
    ctx.coverage["rule"] = (
        "states: every prefix of the recorded steps of the sampled library theorems (theories logic_base..set) and the states reached by "
        "perturbed replays / random walks of the C13 generator, plus generated propositional/predicate goals; choices: up to 3 gaps per state, "
        "fact selections [] + the recorded one + random 1-3 visible lines; every suggestion of search_method is one case; non-trivial = it "
        "advertises a goal or a fact or uses facts; distinct by (goal, steps so far, suggestion).")
    ctx.findings = ctx.findings + [dict(f, property="C14") for f in FINDINGS if not any(g["key"] == f["key"] for g in ctx.findings)]
    try:
        import faulthandler
        import signal
        faulthandler.register(signal.SIGUSR1)
    except Exception:  # noqa
        pass
    proofs_ok = ctx.lean_props(["Holpy.C14.Props"], exes=[EXE])
    if ctx.tier == "thorough" and proofs_ok:
        ctx.lean_check_modules(["Holpy.C14.Props"])
    ctx.coverage["trusted_base"] += [
        "property oracle harness/props/c14.py (what counts as advertised: the `_goal` / `_fact` entries output_hint displays)",
        "type-directed parameter guesses of harness/props/c13.py:fill_params"]
    ctx.assumptions += [
        "a failure after the harness supplied parameters that the method *asked for* (ParameterQueryException) is not counted: the guess may be at fault",
        "search bodies are not modelled; the Lean theorem covers the splice (apply half) only",
        "z3 is never suggested by search (Z3Method.search returns []), z3wrapper.check_z3 = False during the run"]
    base.neutralise_z3(ctx)
    theories = base.THEORIES_QUICK if ctx.tier == "quick" else base.THEORIES_THOROUGH
    budget = {"logic_base": 10, "logic": 14, "function": 6, "list": 5, "hoare": 4, "nat": 5, "set": 5}
    for thy in theories:
        rng = ctx.rng("lib/" + thy)
        ex = Examiner(ctx, rng, ctx.scale(2, 3))
        n = 0
        try:
            for item in base.theory_items(thy):
                if not item.steps:
                    continue
                n += 1
                limit = budget.get(thy, 6) if ctx.tier == "quick" else {"nat": 16, "set": 14, "logic": 30}.get(thy, 10 ** 6)
                if not (n <= limit or rng.random() < (0.015 if ctx.tier == "quick" else 0.03)):
                    continue
                g = base.Goal(thy, item.name, item.vars, item.prop, steps=item.steps)
                recorded_prefixes(ctx, ex, g)
                if ctx.tier == "thorough" or rng.random() < 0.5:
                    obs = lambda runner, st, g=g: ex.examine(g, [dict(t) for t in runner.trail], st)  # noqa
                    base.run_recorded(ctx, g, rng, 0.4, 0.0, observer=obs, judge_states=False)
                    base.run_walk(ctx, g, rng, ctx.scale(4, 10), 0.0, observer=obs, judge_states=False)
        except Timeout:
            ctx.count("timeout:theory:" + thy)
        ctx.log("theory %s: %d goals, %d suggestions so far" % (thy, n, ctx.coverage["evaluations"]))
    from logic import basic
    basic.load_theory("logic")
    rng = ctx.rng("generated")
    ex = Examiner(ctx, rng, ctx.scale(2, 4))
    for g in base.gen_goals(rng, ctx.scale(25, 300)):
        try:
            g.init_state()
        except Exception:  # noqa
            continue
        obs = lambda runner, st, g=g: ex.examine(g, [dict(t) for t in runner.trail], st)  # noqa
        base.run_walk(ctx, g, rng, ctx.scale(5, 10), 0.0, observer=obs, judge_states=False)
    ctx.log("generated goals done: %d suggestions" % ctx.coverage["evaluations"])


def rebuild(goal, trail):
    from server import method
    st = goal.init_state()
    for t in trail:
        if t.get("on_copy") and not t.get("adopt", True):
            continue
        goal.set_context()
        method.apply_method(st, copy.deepcopy(t["step"]))
    return st


def replay(ctx, rp):
    from logic import basic
    r = rp["replay"]
    g = r["goal"]
    base.neutralise_z3(ctx)
    if g.get("generated"):
        basic.load_theory(g["theory"])
        goal = base.Goal(g["theory"], g["name"], g["vars"], g["prop"], generated=True)
    else:
        basic.load_theory(g["theory"], limit=("thm", g["name"]))
        data = basic.load_json_data(g["theory"], "master")
        raw = [x for x in data["content"] if x.get("ty") == "thm" and x.get("name") == g["name"]][0]
        goal = base.Goal(g["theory"], g["name"], raw["vars"], raw["prop"], steps=raw.get("steps"))
    state = rebuild(goal, r["trail"])
    ex = Examiner(ctx, ctx.rng("replay"), 0)
    gp = tuple(int(x) for x in str(r["goal_id"]).split("."))
    fs = [tuple(int(x) for x in f.split(".")) for f in r.get("fact_ids", [])]
    ex.examine_choice(goal, r["trail"], state, gp, fs)
    for v in ctx.violations:
        print("still fails:", v[1][:400])
    return bool(ctx.violations)


MANIFEST = {
    "text": "Property oracle on the real code: at reachable states (every prefix of recorded library proofs, states of perturbed/random edit "
            "sequences), for gap and fact selections (<=3 facts), every suggestion of search_method is applied to a copy with the declared "
            "parameters supplied type-directedly: it must succeed or raise ParameterQueryException naming parameters; on success the newly open "
            "goals are compared with the advertised _goal list (each advertised goal not left open must be provable by an earlier visible line "
            "or trivially), a solving suggestion leaves none, an advertised _fact appears as a new non-gap line and the state re-checks. Lean "
            "(model of apply_tactic shared with C13): open_goals_subset_advertised_partial, solving_shape_leaves_no_new_gap, "
            "forward_fact_opens_no_gap_partial. Search bodies are not modelled.",
    "note": "Trusted: Lean kernel (propext/Classical.choice/Quot.sound), harness generators and parameter guesses, the reading of `_goal`/`_fact` "
            "as what a suggestion advertises (method.output_hint), holpy's checker for 'proved'. A failure after the harness supplied parameters "
            "that the method asked for is counted but not reported (the guess may be at fault).",
    "design_ref": "DESIGN.md 4/C14",
}
FINDINGS = [
    {"status": "fixed", "key": "fails-outright:exists_elim:AttributeError:'NoneType'_object_has_no", "commit": "793f072",
     "what": "exists_elim suggested for a goal that is followed by a subproof line (logic.ex_conj_distrib after cases + introduction, goal 1, "
             "fact 0) failed with AttributeError: it re-created the following lines with set_line, dropping their subproofs"},
    {"status": "fixed", "key": "fails-outright:induction:IndexError:list_index_out_of", "commit": "8f46948",
     "what": "induction suggested for a goal that is an implication (nat.add_cancel_left after revert_intro: x + y = x + z --> y = z, "
             "nat_induct on x) failed with IndexError in apply_theorem: var_induct passed the goal's own assumption as an extra case"},
    {"status": "fixed", "key": "advertised-goal-vanished:apply_backward_step", "commit": "4f6782f",
     "what": "apply_tactic's trivial-closing loop revisited a gap that replace_id had removed and overwrote the next gap "
             "(set.member_singleton, goal 0.3.1, fact 0.1, disjE: advertised `y Mem {} --> y = x` vanished)"},
]
