"""C14 — every suggested proof step is applicable and does what it says.

Stages: (1) Lean obligations (Holpy.C14.Props: the splice of `apply_tactic` leaves open only gaps
of the proof-term shape it was given) + driver; (2) property oracle on the real code: for reachable
states (every prefix of recorded library proofs, states of perturbed / random edit sequences of the
C13 generator), choices of goal line and <=3 fact lines, *every* suggestion of
`ProofState.search_method` is applied to a copy with the parameters the method declares (`sig`)
and the suggestion leaves open supplied type-directedly; the outcome must be success or a
ParameterQueryException naming parameters; on success the new open goals / new facts are compared
with what the suggestion advertised (`_goal`, `_fact`: what `output_hint` displays);
(3) correspondence of the splice with the Lean model is C13's stream (same model).
"""
import copy
import json

from harness.common.ctx import Timeout, time_limit
from harness.props import c13 as base
base.NEAR_MISS_NAMES = False   # a clashing witness name would make a suggestion "fail outright" through the harness's own guess

EXE = "c14_model"
PROPS = ["Holpy.C14.Props", "Holpy.C14.Props2", "Holpy.C14.Props3", "Holpy.C14.Props4", "Holpy.C14.Props5"]


def ids(pos):
    return base.id_str(pos)


def clean(sugg):
    return {k: v for k, v in sugg.items() if not k.startswith("_") and k != "display"}


def ms_sub(a, b):
    """multiset difference a - b for lists of hashable/== items."""
    b = list(b)
    out = []
    for x in a:
        if x in b:
            b.remove(x)
        else:
            out.append(x)
    return out


def indep_trivial(t):
    """Independent statement of 'trivially true': after stripping the leading !-binders and then
    the assumptions, the conclusion (which may itself be quantified) is one of the assumptions.  Written on
    the kernel Term interface only; its agreement with logic.trivial_macro().can_eval (the code
    under test uses that) is reported as a correspondence stream, not assumed."""
    from kernel.term import Var
    assums, i = [], 0
    while t.is_forall():                 # leading binders only: !x_1 .. x_k. A_1 --> .. --> A_n --> C
        v = Var("_triv%d" % i, t.arg.var_T)
        i += 1
        t = t.arg.subst_bound(v)
    while t.is_implies():
        assums.append(t.arg1)
        t = t.arg
    return t in assums


def closed_before(state, goal_pos, prop, allowed_hyps):
    """Is the advertised goal `prop` already available at the goal line: an earlier visible line
    states it under hypotheses among `allowed_hyps` (the goal's own and those the step adds), or it
    is trivially true?"""
    for pos, it in base.walk(state):
        if it.th is not None and base.visible(pos, goal_pos):
            if it.th.prop == prop and set(it.th.hyps) <= allowed_hyps:
                return "fact"
    try:
        if indep_trivial(prop):
            return "trivial"
    except Exception:  # noqa
        pass
    return None


def rechecks(state):
    """True / False / None (timeout): does the state pass a full re-check?"""
    try:
        with time_limit(base.STEP_LIMIT * 3):
            copy.copy(state).check_proof()
        return True
    except Timeout:
        return None
    except Exception:  # noqa
        return False


SEARCH_LOG = {}       # sequent -> searches made for it in this process (see examine_choice)


class Examiner:
    def __init__(self, ctx, rng, max_choices, recorder=None):
        self.ctx, self.rng, self.max_choices = ctx, rng, max_choices
        self.recorder = recorder
        self._start = (None, None)       # (state object, does it re-check)

    def start_ok(self, state):
        if self._start[0] is not state:
            self._start = (state, rechecks(state))
        return self._start[1]

    # ---------------------------------------------------------------- choices at one state
    def examine(self, goal, trail, state, hint_step=None):
        """All gaps (capped) x fact selections (<=3 facts; [] and the recorded selection always,
        random others) x all suggestions."""
        rng = self.rng
        gaps = [pos for pos, it in base.walk(state) if it.rule == "sorry"]
        if not gaps:
            return
        chosen = []
        if hint_step is not None:
            try:
                gp = tuple(int(x) for x in str(hint_step["goal_id"]).split("."))
                fs = [tuple(int(x) for x in f.split(".")) for f in (hint_step.get("fact_ids") or [])]
                if gp in gaps and len(fs) <= 3:
                    chosen.append((gp, fs))
            except Exception:  # noqa
                pass
        for gp in (gaps if len(gaps) <= 3 else rng.sample(gaps, 3)):
            vis = base.visible_facts(state, gp)
            chosen.append((gp, []))
            for _ in range(self.max_choices):
                k = rng.choice([1, 1, 1, 2, 2, 3])
                if len(vis) >= k:
                    chosen.append((gp, rng.sample(vis, k)))
        seen = set()
        for gp, fs in chosen:
            key = (gp, tuple(fs))
            if key in seen:
                continue
            seen.add(key)
            self.examine_choice(goal, trail, state, gp, fs)

    def examine_choice(self, goal, trail, state, gp, fs):
        ctx = self.ctx
        goal.set_context()
        before = base.snapshot(state)
        if getattr(self, "_hist_state", None) is not state:
            self._hist_state, self._hist = state, {}
        hist = self._hist.setdefault((gp, json.dumps(trail, sort_keys=True, default=str)), [])
        self.earlier = [list(h) for h in hist]      # searches of this goal made before, for the replay
        hist.append([ids(f) for f in fs])
        # searches of the *same sequent* made in other states of this process (a search may
        # remember what it found for a sequent): kept so that a failure can be replayed
        try:
            th = state.get_proof_item(gp).th
            log = SEARCH_LOG.setdefault(th, [])
            here = (goal.ident(), json.dumps(trail, sort_keys=True, default=str), ids(gp))
            self.earlier_states = [e["entry"] for e in log if e["where"] != here][-4:]
            log.append({"where": here, "entry": {"goal": goal.to_json(), "trail": trail, "goal_id": ids(gp), "fact_ids": [ids(f) for f in fs]}})
            if len(log) > 8:
                del log[0]
        except Exception:  # noqa
            self.earlier_states = []
        try:
            with time_limit(base.STEP_LIMIT):
                res = state.search_method(ids(gp), [ids(f) for f in fs])
        except Timeout:
            ctx.count("search:timeout")
            return
        except Exception as e:  # noqa
            # the property is about the suggestions returned; a search that raises returns none
            ctx.count("search:raises:%s" % type(e).__name__)
            return
        if base.snapshot(state) != before:
            ctx.violation("search-modifies-state", "search_method(%s, %s) changed the state on %s" % (ids(gp), [ids(f) for f in fs], goal.ident()),
                          {"goal": goal.to_json(), "trail": trail, "goal_id": ids(gp), "fact_ids": [ids(f) for f in fs]})
        ctx.count("search:%d-facts" % len(fs))
        try:
            self.filter_stream(state, gp, fs, res)
        except Timeout:
            raise
        except Exception as e:  # noqa
            ctx.count("search:filter-stream-error:%s" % type(e).__name__)
        try:
            self.backward_stream(state, gp, fs)
        except Timeout:
            raise
        except Exception as e:  # noqa
            ctx.count("backward-stream-error:%s" % type(e).__name__)
        try:
            self.exists_stream(state, gp, fs)
        except Timeout:
            raise
        except Exception as e:  # noqa
            ctx.count("exists-stream-error:%s" % type(e).__name__)
        for r in res:
            self.test_suggestion(goal, trail, state, gp, r)

    # ---------------------------------------------------------------- apply_backward_step.search against searchBackward
    def backward_stream(self, state, gp, fs):
        """Stream `search:backward`: the real apply_backward_step.search for this goal and this order of facts
        against the model's enumeration (hint filter, refused / query / proof term, sorted by name); the outcome of
        the tactic per theorem of the database is computed here by calling tactic.rule() as `apply` does."""
        import re
        from kernel import theory
        from kernel.proofterm import ProofTerm
        from logic import matcher, tactic
        from server import method
        rec = self.recorder
        if rec is None:
            return
        self._bw = getattr(self, "_bw", 0) + 1
        if self._bw % 7 != 1 or sum(1 for r in rec.search_records if r[0] == "search:backward") >= 120:
            return
        with time_limit(base.STEP_LIMIT * 2):
            real = state.apply_search(ids(gp), method.get_all_methods()["apply_backward_step"], [ids(f) for f in fs])
            cur = state.get_proof_item(gp)
            prevs = [ProofTerm.atom(f, state.get_proof_item(f).th) for f in fs]
            entries, plain = [], 0
            for name in theory.thy.get_data("theorems"):
                attrs = theory.thy.get_attributes(name)
                hb, hb1 = "hint_backward" in attrs, "hint_backward1" in attrs
                if not (hb or hb1):
                    plain += 1
                    if plain % 40 != 0:
                        continue                  # a sample of the theorems without the attribute
                if not re.match(r"^[A-Za-z_][A-Za-z0-9_]*$", name) or name in ("q", "r", "N", "T", "F"):
                    return
                try:
                    pt = tactic.rule().get_proof_term(cur.th, args=name, prevs=list(prevs))
                    out = [[rec.tcode(g.prop), []] for g in pt.gaps]
                except theory.ParameterQueryException:
                    out = "q"
                except (AssertionError, matcher.MatchException):
                    out = "r"
                except Exception:  # noqa   any other failure escapes the real search as well
                    return
                entries.append([name, hb, hb1, out])
        expect = [[r["theorem"], [[rec.tcode(p), []] for p in r["_goal"]] if "_goal" in r else "q"] for r in real]
        rec.search_records.append(("search:backward", ["searchbackward", len(fs), entries], expect))

    # ---------------------------------------------------------------- exists_elim.apply against existsElimM
    EXISTS_MSGS = ("exists_elim", "exists_elim: id is not a gap", "exists_elim: cannot find intros at the end")

    def exists_record(self, state, target, step, label):
        """`exists_elim.apply` as the real code did it (target = the state afterwards, None = it failed with
        one of its own assertions) against the model's existsElimM on the state before."""
        from logic import logic
        rec = self.recorder
        if rec is None or sum(1 for r in rec.method_records if r[0].startswith("method:exists_elim")) >= 600:
            return
        gid = [int(x) for x in str(step["goal_id"]).split(".")]
        fact = [int(x) for x in step["fact_ids"][0].split(".")]
        prop = state.get_proof_item(tuple(fact)).th.prop
        names = [n.strip() for n in step["names"].split(",")]
        is_ex = bool(prop.is_exists())
        vars_, body = logic.strip_exists(prop, names) if is_ex else ([], prop)
        nv = len(vars_)
        if target is not None:
            at = lambda k: target.get_proof_item(tuple(gid[:-1] + [gid[-1] + k]))  # noqa
            vths = [rec.th(at(k).th) for k in range(nv)]
            ath = rec.th(at(nv).th)
            expect = ["ok", rec.state(target)]
        else:
            vths, ath, expect = ["N"] * nv, "N", "error"
        op = ["existselim", rec.state(state), gid, fact, is_ex, vths, ath, rec.tcode(body),
              rec.rcode("assume"), rec.rcode("variable"), rec.rcode("intros")]
        rec.method_records.append((label, op, expect))

    def exists_stream(self, state, gp, fs):
        """Adversarial calls of exists_elim (never through search): any single selected fact - an
        existential or not -, on the gap and on a line that is not a gap, with one or two names."""
        from kernel.proof import ProofStateException
        from server import method
        rec = self.recorder
        if rec is None or len(fs) != 1:
            return
        done = [r[2] == "error" for r in rec.method_records if r[0] == "method:exists_elim:direct"]
        is_ex = bool(state.get_proof_item(fs[0]).th.prop.is_exists())
        if (not is_ex and sum(done) >= 100) or len(done) >= 500:
            return                               # refusals for a fact of another shape: a sample is enough
        lines = [gp]
        other = [pos for pos, it in base.walk(state) if it.rule not in ("sorry", "subproof") and it.th is not None
                 and base.visible(fs[0], pos)]
        if other:
            lines.append(other[len(rec.method_records) % len(other)])
        for line in lines:
            for names in ("zq8", "zq8, zq9"):
                step = {"method_name": "exists_elim", "goal_id": ids(line), "fact_ids": [ids(fs[0])], "names": names}
                tgt = copy.copy(state)
                try:
                    with time_limit(base.STEP_LIMIT):
                        method.apply_method(tgt, copy.deepcopy(step))
                except Timeout:
                    continue
                except AssertionError as e:
                    if str(e) not in self.EXISTS_MSGS:
                        self.ctx.count("exists-stream:other-refusal")
                        continue                  # name clash / refusal by the re-check: not modelled
                    tgt = None
                except ProofStateException:
                    tgt = None
                except Exception as e:  # noqa
                    self.ctx.count("exists-stream:other-failure:%s" % type(e).__name__)
                    continue
                self.ctx.count("exists-stream:%s" % ("ok" if tgt is not None else "refused"))
                self.exists_record(state, tgt, step, "method:exists_elim:direct")

    # ---------------------------------------------------------------- search-side model (Holpy/C14/Model.lean, `Sel`)
    FILTER_METHODS = ["introduction", "exists_elim", "forall_elim", "inst_exists_goal"]
    # message of the assertions `apply` makes before it looks at a parameter, and data that gets it there
    FIRST_TESTS = {"introduction": ({"names": ""}, ("introduction: id is not a gap", "introduction")),
                   "exists_elim": ({"names": "zq9"}, ("exists_elim", "exists_elim: id is not a gap")),
                   "inst_exists_goal": ({"s": "true"}, ("apply_tactic: id is not a gap",
                                                        "inst_exists_goal: goal is not exists statement"))}

    def sel_flags(self, state, line, fs):
        prop = state.get_proof_item(line).th.prop
        f0 = state.get_proof_item(fs[0]).th.prop if fs else None
        return [len(fs), bool(prop.is_forall()), bool(prop.is_implies()), bool(prop.is_exists()),
                bool(f0 is not None and f0.is_forall()), bool(f0 is not None and f0.is_exists())]

    def filter_stream(self, state, gp, fs, res):
        """Stream `search:filter`: which of the four shape-filter methods the real `search_method`
        suggested for this selection, against the model's filters.  Stream `search:applicable`
        (sampled; also on a line that is not a gap): do the first assertions of the real `apply` pass,
        against the model's `applicable*`."""
        rec = self.recorder
        if rec is None or not hasattr(rec, "search_records"):
            return
        n = sum(1 for r in rec.search_records if r[0] == "search:filter")
        if n >= 1500:
            return
        try:
            flags = self.sel_flags(state, gp, fs)
        except Exception:  # noqa
            return
        if any("_goal" in r and len(r["_goal"]) == 0 for r in res):
            # search_method returns only the solving suggestions when there is one: ask the four searches directly
            from server import method as method_
            allm = method_.get_all_methods()
            real = [len(state.apply_search(ids(gp), allm[m], [ids(f) for f in fs])) > 0 for m in self.FILTER_METHODS]
            self.ctx.count("search:filter:asked-directly")
        else:
            real = [any(r.get("method_name") == m for r in res) for m in self.FILTER_METHODS]
        rec.search_records.append(("search:filter", ["searchfilter"] + flags, real))
        if n % 6 != 0 or n >= 900:
            return
        from server import method
        lines = [gp]
        other = [pos for pos, it in base.walk(state) if it.rule not in ("sorry", "subproof") and it.th is not None
                 and all(base.visible(f, pos) for f in fs)]
        if other:
            lines.append(other[n // 6 % len(other)])
        for line in lines:
            try:
                fl = self.sel_flags(state, line, fs)
                rule = rec.rcode(state.get_proof_item(line).rule)
            except Exception:  # noqa
                continue
            passed = []
            for m in ("introduction", "exists_elim", "inst_exists_goal"):
                data, msgs = self.FIRST_TESTS[m]
                step = dict(data, method_name=m, goal_id=ids(line), fact_ids=[ids(f) for f in fs])
                ok = True
                try:
                    with time_limit(base.STEP_LIMIT):
                        method.apply_method(copy.copy(state), step)
                except AssertionError as e:
                    ok = str(e) not in msgs
                except Timeout:
                    passed = None
                    break
                except Exception:  # noqa   got past the first tests (parameter query, later failures)
                    ok = True
                passed.append(ok)
            if passed is not None:
                rec.search_records.append(("search:applicable", ["applicable", rule] + fl, passed))

    # ---------------------------------------------------------------- one suggestion
    def test_suggestion(self, goal, trail, state, gp, sugg):
        from kernel import theory
        from server import method
        ctx, rng = self.ctx, self.rng
        name = sugg["method_name"]
        goal.set_context()
        rp = {"goal": goal.to_json(), "trail": trail, "goal_id": sugg["goal_id"], "fact_ids": sugg.get("fact_ids", []),
              "suggestion": jsonable(sugg), "earlier_searches": getattr(self, "earlier", []),
              "earlier_states": getattr(self, "earlier_states", [])}
        try:
            step = base.fill_params(state, clean(sugg), rng)
        except Exception as e:  # noqa
            ctx.count("apply:%s:no-guess" % name)
            return
        if step is None:
            ctx.count("apply:%s:no-guess" % name)
            return
        asked = False
        nrec = len(self.recorder.records) if self.recorder is not None else 0
        outcome, err, target = None, None, None
        for _round in range(3):
            target = copy.copy(state)
            goal.set_context()
            try:
                if self.recorder is not None:
                    self.recorder.active = True
                try:
                    with time_limit(base.STEP_LIMIT):
                        method.apply_method(target, copy.deepcopy(step))
                finally:
                    if self.recorder is not None:
                        self.recorder.active = False
                outcome = "ok"
                break
            except Timeout:
                outcome = "timeout"
                break
            except theory.ParameterQueryException as e:
                params = list(getattr(e, "params", []) or [])
                if not params or not all(isinstance(p, str) and p for p in params):
                    outcome, err = "fail", e
                    break
                if all(p in step for p in params):
                    outcome, err = "fail", e        # asks again for what was supplied
                    break
                asked = True
                ctx.count("apply:%s:query" % name)
                try:
                    step2 = base.fill_params(state, step, rng, query=params)
                except Exception:  # noqa
                    step2 = None
                if step2 is None:
                    outcome = "query-no-guess"
                    break
                step = step2
                outcome = "query"
            except Exception as e:  # noqa
                outcome, err = "fail", e
                break
        rp["step"] = step
        nontriv = bool(sugg.get("_goal")) or bool(sugg.get("_fact")) or len(sugg.get("fact_ids", [])) > 0
        ctx.case((goal.ident(), json.dumps(trail, sort_keys=True, default=str), json.dumps(jsonable(sugg), sort_keys=True)), nontrivial=nontriv)
        if outcome in ("timeout", "query-no-guess", "query"):
            ctx.count("apply:%s:%s" % (name, outcome))
            return
        if outcome == "fail":
            cls = type(err).__name__
            if asked:
                # parameters asked for were guessed by the harness: a failure may be the guess's fault
                ctx.count("apply:%s:fails-after-guessed-parameters:%s" % (name, cls))
                return
            ctx.count("apply:%s:FAILS" % name)
            ctx.violation("fails-outright:%s:%s:%s" % (name, cls, base.err_class(base.short(err))),
                          "suggestion %s for goal %s facts %s on %s fails outright: %s: %s" % (
                              clean(sugg), sugg["goal_id"], sugg.get("fact_ids", []), goal.ident(), cls, base.short(err)), rp)
            return
        ctx.count("apply:%s:ok" % name)
        self.advertised_vs_export(sugg, nrec)
        if name == "exists_elim":
            try:
                self.exists_record(state, target, step, "method:exists_elim")
            except Exception as e:  # noqa
                ctx.count("exists-record-error:%s" % type(e).__name__)
        if sugg.get("_goal") or sugg.get("_fact"):
            ctx.sample({"goal": goal.ident(), "steps_so_far": len(trail), "suggestion": jsonable(sugg), "outcome": "ok"})
        if any(k.startswith("param_") and v != "" and k not in sugg for k, v in step.items()):
            # the advertised result was for the application that keeps these variables general
            ctx.count("apply:%s:ok-with-instantiated-parameters" % name)
            sugg = {k: v for k, v in sugg.items() if k not in ("_goal", "_fact")}
        self.compare(goal, state, target, gp, sugg, rp)

    def advertised_vs_export(self, sugg, nrec):
        """Hypothesis of the advertised_eq_applied_* theorems: `search` and `apply` evaluate the same
        proof term, i.e. the advertised `_goal` propositions are the propositions of the `sorry`
        lines of the export captured while the suggestion was applied."""
        rec = self.recorder
        if rec is None or "_goal" not in sugg:
            return
        new = [r for r in rec.records[nrec:] if r[0] == "apply_tactic"]
        if len(new) != 1:
            return
        cap = new[0][1][3]
        exported = sorted({ln[0][3][0] for ln in cap if ln[0][1] == 1})
        adv = sorted({rec.tcode(p) for p in sugg["_goal"]})
        self.ctx.count("model:advertised-vs-export")
        if adv != exported:
            self.ctx.broken("correspondence:c14:advertised-vs-export",
                            "%s advertised %d goals, the export applied has %d gaps with other propositions" % (clean(sugg), len(adv), len(exported)))

    def compare(self, goal, state, target, gp, sugg, rp):
        ctx = self.ctx
        name = sugg["method_name"]
        goal_th = state.get_proof_item(gp).th
        old = [it.th for _, it in base.walk(state) if it.rule == "sorry"]
        new = [it.th for _, it in base.walk(target) if it.rule == "sorry"]
        rest = ms_sub(old, [goal_th])
        new_open = ms_sub(new, rest)
        old_lines = [(it.rule, it.th, base.args_str(it)) for _, it in base.walk(state)]
        new_lines = [(it.rule, it.th, base.args_str(it)) for _, it in base.walk(target)]
        added = ms_sub(new_lines, old_lines)
        if "_goal" in sugg:
            adv = list(sugg["_goal"])
            extra = [th for th in new_open if th.prop not in adv]
            if extra:
                ctx.violation("unadvertised-goal:%s" % name,
                              "%s on %s advertised goals %s but leaves open %s" % (clean(sugg), goal.ident(), [str(t) for t in adv], [str(t) for t in extra]), rp)
            # a gap left open keeps the hypotheses of the goal (the step may add some, never drop one)
            lost = [th for th in new_open if th.prop in adv and not set(goal_th.hyps) <= set(th.hyps)]
            if lost:
                ctx.violation("gap-lost-hypotheses:%s" % name,
                              "%s on %s: goal `%s` but the gap left open is `%s`" % (clean(sugg), goal.ident(), goal_th, lost[0]), rp)
            open_props = [th.prop for th in new_open]
            allowed = set(goal_th.hyps)
            for l in added:
                if l[1] is not None:
                    allowed |= set(l[1].hyps)
            for p in adv:
                if p not in open_props:
                    how = closed_before(state, gp, p, allowed)
                    if how is None:
                        ctx.violation("advertised-goal-vanished:%s" % name,
                                      "%s on %s advertised goal %s which is neither left open nor proved by an earlier fact nor trivial" % (clean(sugg), goal.ident(), p), rp)
                    else:
                        ctx.count("advertised-closed-by-%s" % how)
                # the two statements of 'trivially true' (correspondence, not a verdict)
                try:
                    from logic import logic
                    if bool(logic.trivial_macro().can_eval(p)) != bool(indep_trivial(p)):
                        ctx.broken("correspondence:c14:trivial", "trivial_macro().can_eval and the independent test disagree on %s" % p)
                except Exception:  # noqa
                    pass
            # the goal line itself is no longer a gap, and the result is justified
            if self.start_ok(state):
                ok = rechecks(target)
                if ok is False:
                    ctx.violation("advertised-goal-step-not-justified:%s" % name,
                                  "%s on %s: the state after the step does not re-check" % (clean(sugg), goal.ident()), rp)
            elif self.start_ok(state) is False:
                ctx.count("start-state-does-not-recheck")
        elif "_fact" in sugg:
            # a forward step: the gaps stay as they are, except that the new fact may close the goal
            if new_open not in ([goal_th], []):
                ctx.violation("forward-step-changes-goals:%s" % name,
                              "%s on %s: open goals %s became %s" % (clean(sugg), goal.ident(), [str(t) for t in old], [str(t) for t in new]), rp)
        if "_fact" in sugg:
            for p in sugg["_fact"]:
                hit = [l for l in added if l[1] is not None and l[1].prop == p and l[0] != "sorry"]
                if not hit:
                    ctx.violation("advertised-fact-missing:%s" % name,
                                  "%s on %s advertised fact %s; new lines are %s" % (clean(sugg), goal.ident(), p, [(l[0], str(l[1])) for l in added]), rp)
            # 'proved': the state re-checks with the new line in it (when the state before did:
            # a starting state that does not re-check is C13's subject)
            if self.start_ok(state):
                if rechecks(target) is False:
                    ctx.violation("advertised-fact-not-proved:%s" % name,
                                  "%s on %s: the state with the new fact does not re-check" % (clean(sugg), goal.ident()), rp)
            elif self.start_ok(state) is False:
                ctx.count("start-state-does-not-recheck")


def jsonable(sugg):
    out = {}
    for k, v in sugg.items():
        if k == "display":
            continue
        if k in ("_goal", "_fact"):
            out[k] = [str(t) for t in v]
        else:
            out[k] = v
    return out


# ====================================================================== streams
def recorded_prefixes(ctx, ex, goal):
    """Every prefix of the recorded proof."""
    from server import method
    state = goal.init_state()
    trail = []
    for i, step in enumerate(goal.steps):
        ex.examine(goal, list(trail), state, hint_step=step)
        goal.set_context()
        try:
            with time_limit(base.STEP_LIMIT):
                method.apply_method(state, copy.deepcopy(step))
        except Timeout:
            ctx.count("recorded:timeout")
            return
        except Exception as e:  # noqa
            ctx.count("recorded-step-fails:%s" % type(e).__name__)
            return
        trail.append({"step": base.clean_step(step), "on_copy": False, "adopt": True})
    ex.examine(goal, list(trail), state)


def run(ctx):
    ctx.coverage["rule"] = (
        "states: every prefix of the recorded steps of the sampled library theorems (theories logic_base..set) and the states reached by "
        "perturbed replays / random walks of the C13 generator, plus generated propositional/predicate goals; choices: up to 3 gaps per state, "
        "fact selections [] + the recorded one + random 1-3 visible lines; every suggestion of search_method is one case; non-trivial = it "
        "advertises a goal or a fact or uses facts; distinct by (goal, steps so far, suggestion).")
    ctx.findings = ctx.findings + [dict(f, property="C14") for f in FINDINGS if not any(g["key"] == f["key"] for g in ctx.findings)]
    try:
        import faulthandler
        import signal
        faulthandler.register(signal.SIGUSR1)
    except Exception:  # noqa
        pass
    proofs_ok = ctx.lean_props(PROPS, exes=[EXE])
    if ctx.tier == "thorough" and proofs_ok:
        ctx.lean_check_modules(PROPS)
    ctx.coverage["trusted_base"] += [
        "property oracle harness/props/c14.py (what counts as advertised: the `_goal` / `_fact` entries output_hint displays)",
        "type-directed parameter guesses of harness/props/c13.py:fill_params"]
    ctx.assumptions += [
        "a failure after the harness supplied parameters that the method *asked for* (ParameterQueryException) is not counted: the guess may be at fault",
        "search bodies: only the enumeration of apply_backward_step.search is modelled (tactic outcome per theorem as data); the matcher is not",
        "z3 is never suggested by search (Z3Method.search returns []), z3wrapper.check_z3 = False during the run"]
    base.neutralise_z3(ctx)
    recorder = base.Recorder(ctx.scale(1500, 15000), every=ctx.scale(3, 2))
    recorder.active = False                     # switched on around the application of a suggestion
    recorder.install(ctx)
    try:
        streams(ctx, recorder)
    finally:
        recorder.uninstall()
    base.correspondence(ctx, recorder, exe=EXE, id_cases=ctx.scale(300, 3000))


# States aimed at bookkeeping that the sampled states reach rarely: a forward step whose new fact
# is exactly the goal (the three copies of "new fact closes the goal" in rewrite_fact,
# rewrite_fact_with_prev, apply_forward_step), searched with several fact selections.
DIRECTED = [
    {"name": "rewrite-fact-with-prev-closes-goal", "theory": "logic", "vars": {"a": "'a", "b": "'a", "P": "'a => bool"},
     "prop": "a = b --> P a --> P b", "steps": [], "goal_id": "2", "facts": [["0", "1"], ["1", "0"], ["0"], []]},
    {"name": "apply-forward-step-closes-goal", "theory": "logic", "vars": {"A": "bool", "B": "bool"},
     "prop": "A & B --> A", "steps": [], "goal_id": "1", "facts": [["0"], []]},
    {"name": "rewrite-fact-closes-goal", "theory": "logic", "vars": {"A": "bool"},
     "prop": "~~A --> A", "steps": [], "goal_id": "1", "facts": [["0"], []]},
    # an earlier visible line states a subgoal's proposition under a hypothesis the goal lacks (cut, then
    # revert_intro): it does not prove the subgoal, which has to stay open
    {"name": "earlier-line-with-foreign-hypothesis", "theory": "logic", "vars": {"X": "bool", "C": "bool", "B": "bool"},
     "prop": "~X --> C --> B",
     "steps": [{"method_name": "cut", "goal_id": "2", "fact_ids": [], "goal": "X"},
               {"method_name": "revert_intro", "goal_id": "3", "fact_ids": ["1"]}],
     "goal_id": "2", "facts": [["0"], [], ["1"], ["0", "1"]]},
    # a suggestion whose application removes a line (a new gap already stated by an earlier line / a forward
    # step that closes the goal) in front of a subproof line of the same block: the lines of that
    # subproof are renumbered at depth 2
    {"name": "gap-closed-in-front-of-a-subproof-line", "theory": "logic", "vars": {"A": "bool", "B": "bool"},
     "prop": "A --> (A & B) & (B --> A | B)",
     "steps": [{"method_name": "apply_backward_step", "goal_id": "1", "fact_ids": [], "theorem": "conjI"},
               {"method_name": "introduction", "goal_id": "2", "fact_ids": [], "names": ""}],
     "goal_id": "1", "facts": [[], ["0"]]},
    {"name": "forward-step-closes-goal-in-front-of-a-subproof-line", "theory": "logic", "vars": {"A": "bool", "B": "bool", "C": "bool"},
     "prop": "~~A --> A & (C --> B | C)",
     "steps": [{"method_name": "apply_backward_step", "goal_id": "1", "fact_ids": [], "theorem": "conjI"},
               {"method_name": "introduction", "goal_id": "2", "fact_ids": [], "names": ""}],
     "goal_id": "1", "facts": [["0"], []]},
    # exists_elim (model existsElimM): nested quantifiers with fewer / as many / more names than binders, a second
    # exists_elim in the same scope, a goal in front of a subproof line (its sequent is re-stated in place), a
    # derived line between the goal and the closing intros line
    {"name": "exists-elim-nested-binders", "theory": "logic", "vars": {"R": "'a => 'a => bool", "C": "bool"},
     "prop": "(?x. ?y. R x y) --> C", "steps": [], "goal_id": "1", "facts": [["0"]]},
    {"name": "exists-elim-second-in-scope", "theory": "logic", "vars": {"P": "'a => bool", "Q": "'a => bool", "C": "bool"},
     "prop": "(?x. P x) --> (?x. Q x) --> C",
     "steps": [{"method_name": "exists_elim", "goal_id": "2", "fact_ids": ["0"], "names": "u"}],
     "goal_id": "4", "facts": [["1"], ["0"]]},
    {"name": "exists-elim-in-front-of-subproof-line", "theory": "logic", "vars": {"P": "'a => bool", "A": "bool", "C": "bool"},
     "prop": "(?x. P x) --> C & (A --> A | C)",
     "steps": [{"method_name": "apply_backward_step", "goal_id": "1", "fact_ids": [], "theorem": "conjI"},
               {"method_name": "introduction", "goal_id": "2", "fact_ids": [], "names": ""}],
     "goal_id": "1", "facts": [["0"]]},
    {"name": "exists-elim-earlier-gap-of-two", "theory": "logic", "vars": {"P": "'a => bool", "B": "bool", "C": "bool"},
     "prop": "(?x. P x) --> B & C",
     "steps": [{"method_name": "apply_backward_step", "goal_id": "1", "fact_ids": [], "theorem": "conjI"}],
     "goal_id": "1", "facts": [["0"]]},
    {"name": "exists-elim-inside-subproof", "theory": "logic", "vars": {"P": "'a => bool", "B": "bool", "C": "bool"},
     "prop": "B & ((?x. P x) --> C)",
     "steps": [{"method_name": "apply_backward_step", "goal_id": "0", "fact_ids": [], "theorem": "conjI"},
               {"method_name": "introduction", "goal_id": "1", "fact_ids": [], "names": ""}],
     "goal_id": "1.1", "facts": [["1.0"]]},
    {"name": "conditional-rewrite-with-and-without-its-condition", "theory": "logic", "vars": {"P": "bool", "a": "'a", "b": "'a"},
     "prop": "P --> (if P then a else b) = a", "steps": [], "goal_id": "1", "facts": [[], ["0"], []]},
]


def run_directed(ctx, ex):
    from logic import basic
    from server import method
    for sc in DIRECTED:
        try:
            basic.load_theory(sc["theory"])
            g = base.Goal(sc["theory"], "directed:" + sc["name"], dict(sc["vars"]), sc["prop"], generated=True)
            st = g.init_state()
            trail = []
            for step in sc["steps"]:
                g.set_context()
                method.apply_method(st, copy.deepcopy(step))
                trail.append({"step": step, "on_copy": False, "adopt": True})
            gp = tuple(int(x) for x in sc["goal_id"].split("."))
            n0 = ctx.coverage["evaluations"]
            for fs in sc["facts"]:
                ex.examine_choice(g, trail, st, gp, [tuple(int(x) for x in f.split(".")) for f in fs])
            if ctx.coverage["evaluations"] == n0:
                ctx.count("directed-without-suggestion:" + sc["name"])
        except Timeout:
            ctx.count("directed:timeout:" + sc["name"])
        except Exception as e:  # noqa
            ctx.count("directed-not-runnable:" + sc["name"])
            ctx.log("directed state %s could not be built: %s: %s" % (sc["name"], type(e).__name__, base.short(e)))


def log_generator_search(state, goal_pos, facts):
    """Hook for the searches made by the step generator of C13 (they too are part of the history
    a later search may depend on)."""
    try:
        r = base.CURRENT_RUNNER
        if r is None or r.state is not state:
            return
        th = state.get_proof_item(goal_pos).th
        trail = [dict(t) for t in r.trail]
        log = SEARCH_LOG.setdefault(th, [])
        log.append({"where": (r.goal.ident(), json.dumps(trail, sort_keys=True, default=str), ids(goal_pos)),
                    "entry": {"goal": r.goal.to_json(), "trail": trail, "goal_id": ids(goal_pos), "fact_ids": [ids(f) for f in facts]}})
        if len(log) > 8:
            del log[0]
    except Exception:  # noqa
        pass


def streams(ctx, recorder):
    base.SEARCH_HOOK = log_generator_search
    theories = base.THEORIES_QUICK if ctx.tier == "quick" else base.THEORIES_THOROUGH
    budget = {"logic_base": 9, "logic": 12, "function": 5, "list": 4, "hoare": 4, "nat": 4, "set": 4}
    run_directed(ctx, Examiner(ctx, ctx.rng("directed"), 0, recorder))
    for thy in theories:
        rng = ctx.rng("lib/" + thy)
        ex = Examiner(ctx, rng, ctx.scale(2, 3), recorder)
        n = 0
        try:
            for item in base.theory_items(thy):
                if not item.steps:
                    continue
                n += 1
                limit = budget.get(thy, 6) if ctx.tier == "quick" else {"nat": 16, "set": 14, "logic": 30}.get(thy, 10 ** 6)
                if not (n <= limit or rng.random() < (0.015 if ctx.tier == "quick" else 0.03)):
                    continue
                g = base.Goal(thy, item.name, item.vars, item.prop, steps=item.steps)
                recorded_prefixes(ctx, ex, g)
                if ctx.tier == "thorough" or rng.random() < 0.5:
                    obs = lambda runner, st, g=g: ex.examine(g, [dict(t) for t in runner.trail], st)  # noqa
                    base.run_recorded(ctx, g, rng, 0.4, 0.0, recorder, observer=obs, judge_states=False)
                    base.run_walk(ctx, g, rng, ctx.scale(4, 10), 0.0, recorder, observer=obs, judge_states=False)
        except Timeout:
            ctx.count("timeout:theory:" + thy)
        ctx.log("theory %s: %d goals, %d suggestions so far" % (thy, n, ctx.coverage["evaluations"]))
    from logic import basic
    basic.load_theory("logic")
    rng = ctx.rng("generated")
    ex = Examiner(ctx, rng, ctx.scale(2, 4), recorder)
    for g in base.gen_goals(rng, ctx.scale(25, 300)):
        try:
            g.init_state()
        except Exception:  # noqa
            continue
        obs = lambda runner, st, g=g: ex.examine(g, [dict(t) for t in runner.trail], st)  # noqa
        base.run_walk(ctx, g, rng, ctx.scale(5, 10), 0.0, recorder, observer=obs, judge_states=False)
    ctx.log("generated goals done: %d suggestions" % ctx.coverage["evaluations"])


def rebuild(goal, trail):
    from server import method
    st = goal.init_state()
    for t in trail:
        if t.get("on_copy") and not t.get("adopt", True):
            continue
        goal.set_context()
        method.apply_method(st, copy.deepcopy(t["step"]))
    return st


def replay(ctx, rp):
    r = rp["replay"]
    base.neutralise_z3(ctx)
    # searches of the same sequent in other states that preceded the failing one
    for e in r.get("earlier_states", []):
        try:
            g0 = base.load_goal(e["goal"])
            st0 = rebuild(g0, e["trail"])
            g0.set_context()
            st0.search_method(e["goal_id"], e["fact_ids"])
        except Exception:  # noqa
            pass
    goal = base.load_goal(r["goal"])
    state = rebuild(goal, r["trail"])
    ex = Examiner(ctx, ctx.rng("replay"), 0)
    gp = tuple(int(x) for x in str(r["goal_id"]).split("."))
    fs = [tuple(int(x) for x in f.split(".")) for f in r.get("fact_ids", [])]
    # the searches that preceded the failing one in the original run (a search may depend on
    # earlier searches of the same goal)
    for prev in r.get("earlier_searches", []):
        try:
            goal.set_context()
            state.search_method(r["goal_id"], prev)
        except Exception:  # noqa
            pass
    ex.examine_choice(goal, r["trail"], state, gp, fs)
    for v in ctx.violations:
        print("still fails:", v[1][:400])
    return bool(ctx.violations)


MANIFEST = {
    "text": "Property oracle on the real code: at reachable states (directed states - among them gaps whose suggestions remove a line in "
            "front of a subproof line of the same block -, every prefix of recorded library proofs, states of "
            "perturbed/random edit sequences), for gap and fact selections (<=3 facts; the same goal is searched repeatedly with different "
            "selections in one process), every suggestion of search_method is applied to a copy with the declared parameters supplied "
            "type-directedly: it must succeed or raise ParameterQueryException naming parameters; on success the newly open goals are "
            "compared with the advertised _goal list (proposition, no hypothesis of the goal lost; each advertised goal not left open must be "
            "stated by an earlier visible line or be trivially true by an independent test), the state after a _goal or _fact suggestion "
            "must re-check, an advertised _fact appears as a new non-gap line. Model streams (c14_model): every apply_tactic / forward-step "
            "primitive call made while applying suggestions; method-level records of cut / forall_elim / apply_fact / new_var / cases / "
            "introduction / revert_intro / rewrite_fact / rewrite_fact_with_prev / apply_forward_step against cutM / forwardFact / casesM / "
            "introM / revertIntroM / forwardCloseM; `advertised-vs-export`: the _goal list of a suggestion = the gaps of the export captured "
            "while applying it; `search:filter`: which of introduction / exists_elim / forall_elim / inst_exists_goal search_method "
            "suggested for a selection (their own `search` when search_method kept only the solving suggestions), against the model's shape filters; `search:applicable`: whether the first assertions of the real "
            "apply of introduction / exists_elim / inst_exists_goal pass (also on a line that is not a gap), against the model's "
            "applicable*. PROVED (exported lines numbered id, id+1, .. without subproofs - checked on every captured export): "
            "open_goals_subset_advertised, solving_shape_closes_exactly_the_goal, advertised_eq_applied_apply_backward_step / _rewrite_goal "
            "(gaps after <= gaps before minus the goal plus the advertised ones, as multisets; nothing advertised = exactly the goal "
            "disappears), advertised_eq_applied_cases (at most the two case goals open), advertised_eq_applied_cut (exactly one new gap "
            "with the given sequent), advertised_eq_applied_forall_elim (a forward step leaves the gaps exactly as they were), "
            "advertised_eq_applied_introduction (introM = the subproof splice + the already-proved loop, compared with every real "
            "introduction: the goal line is closed, newly open gaps are among those of the new subproof), "
            "advertised_eq_applied_tactic_methods (induction, rewrite_goal_with_prev, apply_resolve_step, inst_exists_goal, apply_prev: "
            "the apply_tactic law, as for apply_backward_step), advertised_eq_applied_new_var_apply_fact (gaps exactly as before), "
            "advertised_eq_applied_forward_close (rewrite_fact, rewrite_fact_with_prev, apply_forward_step: no gap opened; the goal may be "
            "closed by an earlier line), advertised_eq_applied_revert_intro_partial (at most the re-stated gap is newly open; that the old "
            "statement is gone is not in the theorem), search_suggestions_apply_partial (for introduction, exists_elim, inst_exists_goal: a "
            "suggestion returned by the shape filter for a gap passes the assertions apply makes before it looks at a parameter; "
            "forall_elim.apply asserts nothing on shape), advertised_eq_applied_exists_elim (exists_elim.apply is modelled as "
            "existsElimM: add_line_before, the variable/assume lines, the loop that re-states the sequents of the following lines in place "
            "up to the closing intros line and extends its citations; compared with every real application of an exists_elim suggestion "
            "and with direct calls on gaps / non-gaps / facts of other shapes / one or two names - streams method:exists_elim, "
            "method:exists_elim:direct; theorem: for every class q of sequents the gaps in q afterwards are at most the earlier gaps in q "
            "or brought into q by the new hypothesis, and for a class that ignores that hypothesis - a given proposition, any gap - the "
            "number of gaps is exactly what it was: every open goal is kept, none is opened), "
            "search_backward_suggestions_apply_partial (apply_backward_step.search as an enumeration of an abstract theorem database "
            "- name, hint_backward, hint_backward1 - with the tactic as a function of the name with outcomes proof term / parameter "
            "query / refused: every suggestion returned names a theorem the tactic does not refuse, one without _goal asks for "
            "parameters, one with _goal = adv yields a term whose gaps are adv and applying it obeys the apply_backward_step law; "
            "stream search:backward compares the real search for a goal and fact order with the model's enumeration - filter, sort by "
            "name, query case - the outcome per theorem being computed by calling tactic.rule() the way apply does; partial: matcher "
            "and instantiation are not modelled inside Lean, C09's first_order_match model is not connected). NOT modelled: the "
            "`intros` arguments exists_elim writes (C13's alias model; the known finding recheck-fails:repeated-exists-elim is about the "
            "pairing of those arguments with the citations inside intros_macro and cannot be stated in the structural model: no "
            "counterexample theorem), rewrite_goal / rewrite_fact / apply_forward_step searches (oracle only), "
            "sorry/z3/other methods without suggestions of their own shape. NOT proved: that a vanished advertised gap went through find_goal / trivial (by "
            "construction of the model only), search bodies (a tactic is the list of its exported lines; search and apply evaluating the "
            "same term is the stream, not a theorem).",
    "note": "Trusted: Lean kernel (propext/Classical.choice/Quot.sound), harness generators and parameter guesses, the reading of `_goal`/`_fact` "
            "as what a suggestion advertises (method.output_hint), holpy's checker for 'justified'. A failure after the harness supplied "
            "parameters that the method asked for is counted but not reported (the guess may be at fault).",
    "design_ref": "DESIGN.md 4/C14",
}
FINDINGS = [
    {"status": "fixed", "key": "advertised-goal-step-not-justified:apply_backward_step", "commit": "7a9753d",
     "what": "apply_backward_step someI with fact 0.2.2 on logic_base.exists_thm (goal 0.2.3 `P (Some P)`) was suggested as solving but "
             "replaced the goal by `P (SOME x1. P x1)` (equal only up to eta); the state no longer re-checked"},
    {"status": "fixed", "key": "fails-outright:exists_elim:AttributeError:'NoneType'_object_has_no", "commit": "793f072",
     "what": "exists_elim suggested for a goal that is followed by a subproof line (logic.ex_conj_distrib after cases + introduction, goal 1, "
             "fact 0) failed with AttributeError: it re-created the following lines with set_line, dropping their subproofs"},
    {"status": "fixed", "key": "fails-outright:induction:IndexError:list_index_out_of", "commit": "8f46948",
     "what": "induction suggested for a goal that is an implication (nat.add_cancel_left after revert_intro: x + y = x + z --> y = z, "
             "nat_induct on x) failed with IndexError in apply_theorem: var_induct passed the goal's own assumption as an extra case"},
    {"status": "fixed", "key": "advertised-goal-vanished:apply_backward_step", "commit": "4f6782f",
     "what": "apply_tactic's trivial-closing loop revisited a gap that replace_id had removed and overwrote the next gap "
             "(set.member_singleton, goal 0.3.1, fact 0.1, disjE: advertised `y Mem {} --> y = x` vanished)"},
]
