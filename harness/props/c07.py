"""C07 -- printing then parsing is the identity.

Stages: (1) tables of syntax/operator.py and the precedence ladder / terminals of the Lark grammar in
syntax/parser.py are re-read (ast / regex, nothing imported) into lean/Holpy/C07/Gen.lean; the Lean
obligations (Holpy.C07.Props: `parse_print` over an abstract consistent table, `table_consistent`
for the generated one, ...) and the model driver are built and audited; (2) PROPERTY ORACLE on the
implementation: type-directed well-typed terms over the signatures of several library theories, all
library statements, systematic operator-in-operator nestings, types, sequents, instantiations,
exported proof items -- printed under {ascii, unicode} x {no line limit, 20, 80} x {plain, highlight
flattened} and parsed back in a Context declaring the free variables; three memo histories;
(3) correspondence: token stream of the real printer vs the model's `printSkel`, and the model's
parser vs the real parser on the same text, for the precedence core.
"""
import ast
import contextlib
import io
import json
import os
import re

from harness.common import sexp
from harness.common.ctx import Timeout, time_limit

EXE = "c07_model"

SETTINGS = [(u, ll, hl) for u in (False, True) for ll in (None, 20, 80) for hl in (False, True)]


# =====================================================================================
# 1. tables read from the sources (never imported)
# =====================================================================================
def read_operator_tables(repo):
    """op_data_raw / binder_data_raw of syntax/operator.py as plain dict rows."""
    with open(os.path.join(repo, "syntax", "operator.py"), encoding="utf-8") as f:
        tree = ast.parse(f.read())
    consts = {}
    for node in tree.body:          # LEFT, RIGHT = range(2) ; CONST, UNARY, BINARY = range(3)
        if isinstance(node, ast.Assign) and isinstance(node.targets[0], ast.Tuple) and isinstance(node.value, ast.Call) \
                and getattr(node.value.func, "id", None) == "range":
            for i, el in enumerate(node.targets[0].elts):
                consts[el.id] = i
    tables = {}
    for node in ast.walk(tree):
        if isinstance(node, ast.Assign) and isinstance(node.targets[0], ast.Name) and node.targets[0].id in ("op_data_raw", "binder_data_raw"):
            tables[node.targets[0].id] = node.value
    assert set(tables) == {"op_data_raw", "binder_data_raw"}, "untranslatable: operator tables not found"
    assert {"LEFT", "RIGHT", "CONST", "UNARY", "BINARY"} <= set(consts), "untranslatable: LEFT/RIGHT/arity constants"

    def val(node):
        if isinstance(node, ast.Name):
            return consts[node.id]
        return ast.literal_eval(node)

    ops = []
    for elt in tables["op_data_raw"].elts:
        assert isinstance(elt, ast.Call) and elt.func.id == "OperatorData", "untranslatable: op_data_raw entry"
        kw = {k.arg: val(k.value) for k in elt.keywords}
        fun_name, priority = val(elt.args[0]), val(elt.args[1])
        arity = kw.get("arity", consts["BINARY"])
        assoc = kw.get("assoc")
        ops.append({
            "fun_name": fun_name, "priority": priority,
            "assoc": {None: "none", consts["LEFT"]: "left", consts["RIGHT"]: "right"}[assoc],
            "arity": {consts["CONST"]: "const", consts["UNARY"]: "unary", consts["BINARY"]: "binary"}[arity],
            "ascii_op": kw["ascii_op"], "unicode_op": kw.get("unicode_op") or kw["ascii_op"],
            "key": kw.get("key") or fun_name})
    binders = []
    for elt in tables["binder_data_raw"].elts:
        assert isinstance(elt, ast.Call) and elt.func.id == "BinderData", "untranslatable: binder_data_raw entry"
        kw = {k.arg: val(k.value) for k in elt.keywords}
        fun_name = val(elt.args[0])
        binders.append({"fun_name": fun_name, "ascii_op": kw["ascii_op"], "unicode_op": kw.get("unicode_op") or kw["ascii_op"],
                        "key": kw.get("key") or fun_name})
    return ops, binders


def read_grammar(repo):
    """The Lark grammar text of syntax/parser.py: rules as lists of alternatives (token lists)."""
    with open(os.path.join(repo, "syntax", "parser.py"), encoding="utf-8") as f:
        tree = ast.parse(f.read())
    text = None
    for node in tree.body:
        if isinstance(node, ast.Assign) and getattr(node.targets[0], "id", None) == "grammar":
            text = ast.literal_eval(node.value)
    assert text is not None, "untranslatable: grammar string not found"
    # strip comments, join continuation lines
    lines = []
    for ln in text.splitlines():
        ln = re.sub(r"//.*$", "", ln).rstrip()
        if ln.strip():
            lines.append(ln)
    rules, cur = {}, None
    order = []
    for ln in lines:
        s = ln.strip()
        m = re.match(r"^(\??[a-z_0-9]+)\s*:\s*(.*)$", s)
        if s.startswith("%"):
            cur = None
            continue
        if m and not s.startswith("|"):
            cur = m.group(1).lstrip("?")
            rules[cur] = m.group(2)
            order.append(cur)
        elif cur is not None:
            rules[cur] += " " + s
    return text, rules, order


TOKEN_RE = re.compile(r'"(?:[^"\\]|\\.)*"|->|[A-Za-z_][A-Za-z_0-9]*|[()|*?+]')


def split_alternatives(body):
    """Top-level `|` split of a rule body; each alternative is (items, alias)."""
    toks = TOKEN_RE.findall(body)
    alts, cur, depth = [], [], 0
    for t in toks:
        if t == "(":
            depth += 1
        elif t == ")":
            depth -= 1
        if t == "|" and depth == 0:
            alts.append(cur)
            cur = []
        else:
            cur.append(t)
    alts.append(cur)
    out = []
    for a in alts:
        alias = None
        if "->" in a:
            i = a.index("->")
            alias = a[i + 1]
            a = a[:i]
        out.append((a, alias))
    return out


def lit(tok):
    return ast.literal_eval(tok) if tok.startswith('"') else None


def read_ladder(repo):
    """The precedence ladder from rule `term` down to `comb`: for every level the kind
    (infix / prefix / app / alias), the operator symbols, and the non-terminals written to the
    left and right of the operator.  Plus all literal terminals of the grammar.
    Returns (levels, terminals): levels are ordered loosest first."""
    text, rules, order = read_grammar(repo)
    terminals = sorted(set(ast.literal_eval(m) for m in re.findall(r'"(?:[^"\\]|\\.)*"', "\n".join(rules.values()))))
    levels = []
    name = "term"
    seen = set()
    while True:
        assert name in rules and name not in seen, "untranslatable: ladder does not reach comb (%s)" % name
        seen.add(name)
        alts = split_alternatives(rules[name])
        if name == "comb":
            # comb: comb atom | atom
            shapes = sorted(" ".join(a) for a, _ in alts)
            assert shapes == ["atom", "comb atom"], "untranslatable: comb rule %r" % shapes
            levels.append({"name": name, "kind": "app", "ops": [], "left": "comb", "right": "atom", "next": "atom"})
            break
        nxt, ops, lefts, rights, kind = None, [], set(), set(), None
        for items, alias in alts:
            if len(items) == 1 and lit(items[0]) is None:
                assert nxt is None, "untranslatable: two fall-through alternatives in %s" % name
                nxt = items[0]
                continue
            # operator alternative:   L ( "a" | "b" ) R     or    ( "a" | "b" ) R   (prefix)
            syms = [lit(t) for t in items if lit(t) is not None]
            nts = [t for t in items if lit(t) is None and t not in "()|"]
            assert syms and all(t in "()|" or lit(t) is not None or re.match(r"^[a-z_0-9]+$", t) for t in items), \
                "untranslatable: alternative %r of %s" % (items, name)
            if len(nts) == 2:
                k = "infix"
                assert lit(items[0]) is None and lit(items[-1]) is None, "untranslatable: infix shape %r" % items
                lefts.add(nts[0])
                rights.add(nts[1])
            elif len(nts) == 1:
                k = "prefix"
                assert lit(items[-1]) is None, "untranslatable: prefix shape %r" % items
                rights.add(nts[0])
            else:
                raise AssertionError("untranslatable: alternative %r of %s" % (items, name))
            assert kind in (None, k), "untranslatable: mixed level %s" % name
            kind = k
            ops.append({"symbols": syms, "alias": alias or name})
        assert nxt is not None, "untranslatable: no fall-through in %s" % name
        if kind is None:
            levels.append({"name": name, "kind": "alias", "ops": [], "left": None, "right": None, "next": nxt})
        else:
            assert len(rights) == 1 and len(lefts) <= 1, "untranslatable: level %s uses several operand non-terminals" % name
            levels.append({"name": name, "kind": kind, "ops": ops, "left": (sorted(lefts) or [None])[0],
                           "right": sorted(rights)[0], "next": nxt})
        name = nxt
    return levels, terminals, rules


def identifier_keywords(terminals):
    """Literal terminals that have the shape of an identifier (CNAME)."""
    return sorted(t for t in terminals if re.fullmatch(r"[A-Za-z_][A-Za-z_0-9]*", t))


# =====================================================================================
# 2. the implementation under test: print / parse helpers
# =====================================================================================
class Impl:
    """Thin access layer to holpy (imports happen after the runner put ctx.repo on sys.path)."""

    def __init__(self, ctx):
        from logic import basic, context
        from kernel import theory, term as kterm, type as ktype, thm, proof
        from syntax import printer, parser, pprint, settings
        from lark import exceptions as lark_exc
        self.ctx = ctx
        self.basic, self.context, self.theory = basic, context, theory
        self.kterm, self.ktype, self.thm, self.proof = kterm, ktype, thm, proof
        self.printer, self.parser, self.pprint = printer, parser, pprint
        self.global_setting = settings.global_setting
        self.lark_exc = lark_exc
        self.loaded = None
        # resolved once: a renamed attribute is a machinery error (exit 2), never a verdict
        self.api_print_term, self.api_print_type, self.api_print_thm = printer.print_term, printer.print_type, printer.print_thm
        self.api_export_proof_item = printer.export_proof_item
        self.api_parse_term, self.api_parse_type, self.api_parse_thm = parser.parse_term, parser.parse_type, parser.parse_thm
        self.api_parse_proof_rule = parser.parse_proof_rule
        self.term_ast = pprint.term_ast
        self.term_parser = parser.term_parser
        self.parse_errors = (lark_exc.LarkError,)

    def load(self, name):
        if self.loaded is None:
            # DESIGN 5 / C12: in a fresh process some theories only load after 'real'
            try:
                self.basic.load_theory("real")
            except Exception:  # noqa
                pass
        self.basic.load_theory(name)
        self.loaded = name

    def clear_memo(self):
        self.term_ast.clear()

    @staticmethod
    def flatten(res, hl, ll):
        if ll:
            lines = res
            if hl:
                lines = ["".join(n["text"] for n in ln) for ln in lines]
            return "\n".join(lines)
        if hl:
            return "".join(n["text"] for n in res)
        return res

    def print_term(self, t, setting):
        u, ll, hl = setting
        with self.global_setting(unicode=u, line_length=ll, highlight=hl):
            return self.flatten(self.api_print_term(t), hl, ll)

    def print_type(self, T, setting):
        u, ll, hl = setting
        with self.global_setting(unicode=u, line_length=ll, highlight=hl):
            return self.flatten(self.api_print_type(T), hl, None)   # print_type forces line_length=None

    def print_thm(self, th, setting):
        u, ll, hl = setting
        with self.global_setting(unicode=u, line_length=ll, highlight=hl):
            res = self.api_print_thm(th)
        return self.flatten(res, hl, None)      # a sequent is printed on one line whatever the line width

    def set_context(self, vars, svars=None):
        self.context.set_context(None, vars=dict(vars), svars=dict(svars or {}))

    def quiet(self, f, *a):
        with contextlib.redirect_stdout(io.StringIO()):
            return f(*a)


def has_internal_stvar(t):
    """A schematic type variable named like the internal variables of type inference (?'_t<n>)."""
    from harness.props import c07_gen as G
    found = []

    def chk(T):
        if T.is_stvar() and T.name.startswith("_t"):
            found.append(T.name)
        return T
    G.map_types(t, lambda T: G.map_type(T, chk))
    return bool(found)


def rename_internal_stvars(T):
    from harness.props import c07_gen as G
    return G.map_type(T, lambda U: G.STVar("u" + U.name[2:]) if (U.is_stvar() and U.name.startswith("_t")) else U)


def free_names(t, vars=None, svars=None):
    vars = {} if vars is None else vars
    svars = {} if svars is None else svars
    stack = [t]
    while stack:
        t = stack.pop()
        if t.is_var():
            vars[t.name] = t.T
        elif t.is_svar():
            svars[t.name] = t.T
        elif t.is_comb():
            stack.append(t.fun)
            stack.append(t.arg)
        elif t.is_abs():
            stack.append(t.body)
    return vars, svars


def all_names(t):
    from harness.props.c07_gen import used_names
    return used_names(t)


# =====================================================================================
# 3. round trip oracle
# =====================================================================================
class Oracle:
    def __init__(self, ctx, impl, sig, keywords):
        self.ctx, self.impl, self.sig = ctx, impl, sig
        self.keywords = set(keywords)
        self.nfail = 0
        self.limit = 60          # seconds per print / parse call

    def roundtrip(self, t, setting):
        """Returns (failure kind or None, text, detail)."""
        from harness.props import c07_gen as G
        impl = self.impl
        vars, svars = free_names(t)
        impl.set_context(vars, svars)
        try:
            with time_limit(self.limit):
                text = impl.print_term(t, setting)
        except Timeout:
            raise
        except Exception as e:  # noqa
            return "print-raises:" + type(e).__name__, None, repr(e)[:200]
        if not isinstance(text, str):
            return "print-not-text", None, repr(text)[:200]
        try:
            with time_limit(self.limit):
                t2 = impl.quiet(impl.api_parse_term, text)
        except Timeout:
            raise
        except Exception as e:  # noqa
            return "parse-raises:" + type(e).__name__, text, (getattr(e, "err", None) or repr(e))[:300]
        if not G.term_eq(t, t2):
            return "different-term", text, G.dump_term(t2)[:600]
        try:
            if not (t2 == t):
                return "different-term(==)", text, "parsed term is structurally alpha-equal but `==` says False"
        except Exception as e:  # noqa
            return "eq-raises:" + type(e).__name__, text, repr(e)[:200]
        return None, text, None

    def classify(self, t, setting=None):
        """Known-finding class of a failing term, or None.  A failure only counts as the known
        identifier finding if the identifiers EXPLAIN it: the same term with the suspicious names
        replaced by fresh ordinary names must round-trip under the same setting."""
        from harness.props import c07_gen as G
        names = sorted(all_names(t))
        kw = [n for n in names if n in self.keywords]
        cs = [n for n in names if n in self.sig.consts and n not in kw]
        bad = [n for n in names if not re.fullmatch(r"[A-Za-z_][A-Za-z_0-9]*", n) and n not in kw and n not in cs]
        setting = setting or (False, None, False)
        internal = has_internal_stvar(t)
        if not (kw or cs or bad or internal):
            return None
        mapping, k = {}, 0
        for n in kw + cs + bad:
            while True:
                k += 1
                fresh = "zq%d" % k
                if fresh not in names and fresh not in self.sig.consts:
                    break
            mapping[n] = fresh
        t_types = G.map_types(t, rename_internal_stvars) if internal else t
        if internal and self.roundtrip(t_types, setting)[0] is None:
            return "internal-type-variable-name"          # explained by the ?'_t<n> type variables alone
        if not (kw or cs or bad):
            return None
        if self.roundtrip(G.rename_names(t_types, mapping), setting)[0] is not None:
            return None       # still fails with ordinary names (and ordinary type variables): not a known finding
        if kw:
            return "reserved-word-identifier:" + kw[0]
        if cs:
            return "identifier-shadowed-by-constant"
        return "not-an-identifier"

    def check(self, t, settings, stream, nontrivial=True, extra=None):
        """Round trip under each setting; reports the first failure (minimised).  Returns True if all passed."""
        from harness.props import c07_gen as G
        ctx = self.ctx
        ctx.case((stream, self.sig.thy_name, G.dump_term(t)), nontrivial=nontrivial)
        for setting in settings:
            kind, text, detail = self.roundtrip(t, setting)
            if kind is None:
                continue
            self.nfail += 1
            # minimise with the same failure kind under the same setting
            small = t
            if self.nfail <= 40:
                small = G.shrink(t, lambda c: self.roundtrip(c, setting)[0] == kind, budget=300)
            kind2, text2, detail2 = self.roundtrip(small, setting)
            if kind2 is None:       # (only if the failure is history dependent)
                small, kind2, text2, detail2 = t, kind, text, detail
            cls = self.classify(small, setting)
            key = cls or ("roundtrip:%s:%s" % (kind2, G.dump_term(small)))
            what = "theory %s, setting unicode=%s line_length=%s highlight=%s: %s prints as %r; %s %s" % (
                self.sig.thy_name, setting[0], setting[1], setting[2], G.dump_term(small), text2, kind2, detail2 or "")
            ctx.violation(key, what, {"kind": "term", "theory": self.sig.thy_name, "term": G.term_to_json(small),
                                      "setting": list(setting), "text": text2, "failure": kind2, "detail": detail2,
                                      "stream": stream, "extra": extra})
            ctx.count("%s:FAIL" % stream)
            return False
        return True


# =====================================================================================
# 4. streams
# =====================================================================================
def pick_settings(rng, i, full_every=6):
    """All twelve settings for every `full_every`-th case, else the two unbroken plain ones plus two random."""
    if i % full_every == 0:
        return SETTINGS
    base = [(False, None, False), (True, None, False)]
    return base + rng.sample([s for s in SETTINGS if s not in base], 2)


def stream_random_terms(ctx, impl, sig, oracle, n, label="terms"):
    from harness.props import c07_gen as G
    rng = ctx.rng("%s/%s" % (label, sig.thy_name))
    forbidden = lambda nm: nm in oracle.keywords or nm in sig.consts   # noqa
    hist = {}
    for i in range(n):
        names = G.Names(rng, forbidden)
        gen = G.TermGen(rng, sig, names)
        T = gen.rand_type(2) if rng.random() < 0.5 else G.BoolType
        t = gen.gen(T, rng.randint(1, 4), [])
        try:
            G.check_welltyped(sig, t)
        except ValueError as e:
            raise AssertionError("generator produced a term outside the domain: %s %s" % (e, G.dump_term(t)))
        for k, v in gen.hist.items():
            k2 = k.split("/")[0] if k.startswith("const:") else k
            hist[k2] = hist.get(k2, 0) + v
        oracle.check(t, pick_settings(rng, i), label, nontrivial=t.size() >= 3)
        ctx.count("%s:%s" % (label, sig.thy_name))
        if i < 2:
            ctx.sample({"stream": label, "theory": sig.thy_name, "term": G.dump_term(t)[:300]})
    return hist


def head_specs(sig, ops, binders):
    """Heads for the systematic nesting stream: every operator-table row, every binder, and the
    special syntaxes, each with the constant it stands for and the number of arguments."""
    out = []
    for row in ops:
        if row["fun_name"] in sig.consts:
            k = {"const": 0, "unary": 1, "binary": 2}[row["arity"]]
            out.append((row["key"], row["fun_name"], k))
    for row in binders:
        if row["fun_name"] in sig.consts:
            out.append((row["key"], row["fun_name"], 1))
    for name, k in (("IF", 3), ("collect", 1), ("fun_upd", 3), ("nat_interval", 2), ("cons", 2), ("insert", 2), ("Let", 2)):
        if name in sig.consts:
            out.append((name, name, k))
    return out


def stream_nestings(ctx, impl, sig, oracle, ops, binders, per_pair):
    """Every head in every argument position of every head (depth 2, leaves = variables /
    numerals), plus lambda / application / redex as inner and outer constructs."""
    from harness.props import c07_gen as G
    rng = ctx.rng("nest/" + sig.thy_name)
    heads = head_specs(sig, ops, binders)
    forbidden = lambda nm: nm in oracle.keywords or nm in sig.consts   # noqa
    base = [T for T in (G.BoolType, G.NatType, G.IntType, G.RealType) if T.name in sig.tycons]
    cand_types = base + [G.TVar("a")]
    for c in ("set", "list"):
        if c in sig.tycons:
            cand_types += [G.TConst(c, T) for T in base[:2] + [G.TVar("a")]] + [G.TConst(c, G.TConst(c, G.TVar("a")))]
    cand_types += [G.TFun(G.TVar("a"), G.BoolType), G.TFun(G.NatType, G.NatType), G.TFun(G.TVar("a"), G.TVar("b")), G.TFun(G.BoolType, G.BoolType)]
    cand_types = [T for T in cand_types if sig.type_ok(T)]
    done = 0
    covered = set()
    for (k1, c1, n1) in heads:
        for pos in range(max(n1, 1)):
            for (k2, c2, n2) in heads + [("<lambda>", None, 0), ("<app>", None, 0), ("<redex>", None, 0)]:
                made = 0
                types = list(cand_types)
                rng.shuffle(types)
                for T in types:
                    if made >= per_pair:
                        break
                    names = G.Names(rng, forbidden)
                    gen = G.TermGen(rng, sig, names, allow_svar=False)
                    # choose a result type for the outer head, instantiate, then force the inner head at `pos`
                    cands = [(nm, k, inst) for (nm, k, inst) in gen.const_candidates(T, only=c1) if k == n1 and inst is not None]
                    if not cands:
                        continue
                    inst = gen.complete_inst(c1, cands[0][2])
                    if inst is None:
                        continue
                    cT = G.subst_type(sig.consts[c1], inst)
                    if not sig.const_ok(c1, cT):
                        continue
                    argTs, _ = G.strip_fun(cT)
                    t = G.Const(c1, cT)
                    ok = True
                    for i in range(n1):
                        A = argTs[i]
                        if i == pos:
                            a = forced(gen, A, k2, c2, n2, rng)
                            if a is None:
                                ok = False
                                break
                        elif c1 in G.BINDER_CONSTS and i == 0:
                            a = gen.gen_abs(A, 1, [])
                        else:
                            a = gen.leaf(A, [])
                        t = G.Comb(t, a)
                    if not ok:
                        continue
                    try:
                        G.check_welltyped(sig, t)
                    except ValueError as e:
                        raise AssertionError("generator produced a term outside the domain: %s %s" % (e, G.dump_term(t)))
                    made += 1
                    done += 1
                    covered.add((k1, pos, k2))
                    oracle.check(t, pick_settings(rng, done, full_every=10), "nest", nontrivial=True)
    ctx.count("nest:%s" % sig.thy_name, done)
    ctx.coverage.setdefault("nest_pairs_covered", {})[sig.thy_name] = len(covered)
    return covered


def forced(gen, A, k2, c2, n2, rng):
    """A term of type A whose top construct is the given head, or None if impossible."""
    from harness.props import c07_gen as G
    if k2 == "<lambda>":
        return gen.gen_abs(A, 1, []) if (A.is_tconst() and A.name == "fun") else None
    if k2 == "<app>":
        return gen.gen_varapp(A, 1, [])
    if k2 == "<redex>":
        return gen.gen_redex(A, 1, [])
    cands = [(nm, k, inst) for (nm, k, inst) in gen.const_candidates(A, only=c2) if k == n2 and inst is not None]
    rng.shuffle(cands)
    for nm, k, inst in cands:
        t = gen.build_const(nm, k, inst, A, 1, [])
        if t is not None:
            return t
    return None


def stream_adversarial_names(ctx, impl, sig, oracle, n):
    """Variables / bound names that are keyword terminals, operator spellings or constants."""
    from harness.props import c07_gen as G
    rng = ctx.rng("names/" + sig.thy_name)
    special = sorted(oracle.keywords) + sorted(sig.consts)[:40] + ["x1", "a1", "_", "_x", "A1"]
    for i in range(n):
        sp = rng.sample(special, 3)
        names = G.Names(rng, lambda nm: False, special=sp)
        gen = G.TermGen(rng, sig, names)
        T = gen.rand_type(1) if rng.random() < 0.5 else G.BoolType
        t = gen.gen(T, rng.randint(1, 3), [])
        if rng.random() < 0.15:
            # ?'_t<n> is the spelling of type inference's own variables (known finding if it breaks)
            nm = "_t%d" % rng.randint(0, 1)
            t_st = G.map_types(t, lambda U: G.map_type(U, lambda V: G.STVar(nm) if (V.is_tvar() and V.name == "a") else V))
            try:
                G.check_welltyped(sig, t_st)
                t = t_st
            except ValueError:      # an overloaded constant would sit at an undeclared instance: keep the original
                pass
            ctx.count("names:internal-stvar")
        oracle.check(t, [(False, None, False), (True, None, False)], "names", nontrivial=True)
        ctx.count("names:%s" % sig.thy_name)


def library_items(repo, thy_names):
    for name in thy_names:
        with open(os.path.join(repo, "library", name + ".json"), encoding="utf-8") as f:
            data = json.load(f)
        for it in data.get("content", []):
            yield name, it


def stream_library(ctx, impl, sig, oracle, thy_name, limit, tables=None):
    """Every statement of the library file `thy_name` (parsed in the theory that contains it):
    parse -> print -> parse must give the same term."""
    from harness.props import c07_gen as G
    rng = ctx.rng("library/" + thy_name)
    items = [it for _, it in library_items(ctx.repo, [thy_name])]
    n = 0
    parsed = []
    for it in items:
        if n >= limit:
            break
        props = []
        if it.get("ty") in ("thm", "thm.ax") and "prop" in it:
            props.append((it.get("vars", {}), it["prop"]))
        elif it.get("ty") == "def" and "prop" in it:
            props.append((it.get("vars", {}), it["prop"]))
        elif it.get("ty") in ("def.ind", "def.pred"):
            for r in it.get("rules", []):
                props.append((r.get("vars", it.get("vars", {})), r["prop"]))
        for vars, prop in props:
            if isinstance(prop, list):
                prop = " ".join(prop)
            try:
                impl.context.set_context(None, vars=vars)
                t = impl.quiet(impl.api_parse_term, prop)
                impl.theory.thy.check_term(t)
            except Exception:  # noqa  (statement of a later definition, needs `defs` context, ...)
                ctx.count("library:unparsed")
                continue
            n += 1
            oracle.check(t, pick_settings(rng, n, full_every=8), "library", nontrivial=t.size() >= 5, extra={"item": it.get("name")})
            ctx.count("library:%s" % thy_name)
            parsed.append(t)
    if tables is not None and parsed:
        try:
            from harness.props.c07_lean import library_correspondence
        except ImportError:
            return
        library_correspondence(ctx, impl, sig, tables[0], tables[1], parsed)


# ---------------------------------------------------------------- types
def gen_type(rng, sig, depth):
    from harness.props import c07_gen as G
    r = rng.random()
    if depth == 0 or r < 0.3:
        c = rng.random()
        if c < 0.3:
            return G.TVar(rng.choice(["a", "b", "c", "a1", "x"]))
        if c < 0.4:
            return G.STVar(rng.choice(["a", "b", "T"]))
        zero = sorted(n for n, k in sig.tycons.items() if k == 0)
        return G.TConst(rng.choice(zero))
    if r < 0.6:
        return G.TFun(gen_type(rng, sig, depth - 1), gen_type(rng, sig, depth - 1))
    cons = sorted((n, k) for n, k in sig.tycons.items() if k >= 1 and n != "fun")
    if not cons:
        return G.TFun(gen_type(rng, sig, depth - 1), gen_type(rng, sig, depth - 1))
    n, k = rng.choice(cons)
    return G.TConst(n, *[gen_type(rng, sig, depth - 1) for _ in range(k)])


def stream_types(ctx, impl, sig, n):
    from harness.props import c07_gen as G
    rng = ctx.rng("types/" + sig.thy_name)
    for i in range(n):
        T = gen_type(rng, sig, rng.randint(0, 4))
        ctx.case(("type", G.dump_type(T)), nontrivial=T.is_tconst() and bool(T.args))
        ctx.count("types")
        for setting in pick_settings(rng, i, full_every=4):
            try:
                text = impl.print_type(T, setting)
                T2 = impl.api_parse_type(text)
                ok = G.ty_eq(T, T2) and T2 == T
                detail = G.dump_type(T2)
            except Exception as e:  # noqa
                ok, text, detail = False, locals().get("text"), repr(e)[:200]
            if not ok:
                ctx.violation("type-roundtrip:" + G.dump_type(T), "type %s prints as %r, parses back as %s (setting %s)" % (G.dump_type(T), text, detail, setting),
                              {"kind": "type", "theory": sig.thy_name, "type": G.type_to_json(T), "setting": list(setting)})
                break
    # 2-ary type constructors exist only in some theories; a declared-but-absent constructor is not in the domain


# ---------------------------------------------------------------- sequents / instantiations / proof items
def gen_small_term(ctx, rng, sig, oracle, T, names, depth=2):
    from harness.props import c07_gen as G
    gen = G.TermGen(rng, sig, names, allow_svar=True)
    t = gen.gen(T, depth, [])
    G.check_welltyped(sig, t)
    return t


def stream_thms(ctx, impl, sig, oracle, n):
    """Sequents: print_thm / parse_thm."""
    from harness.props import c07_gen as G
    rng = ctx.rng("thm/" + sig.thy_name)
    forbidden = lambda nm: nm in oracle.keywords or nm in sig.consts   # noqa
    for i in range(n):
        names = G.Names(rng, forbidden)
        k = rng.choice([0, 0, 1, 2, 3])
        hyps = [gen_small_term(ctx, rng, sig, oracle, G.BoolType, names, rng.randint(0, 2)) for _ in range(k)]
        prop = gen_small_term(ctx, rng, sig, oracle, G.BoolType, names, rng.randint(0, 3))
        th = impl.thm.Thm(prop, tuple(hyps))
        hyps = list(th.hyps)        # Thm may de-duplicate / order hypotheses: compare with what it stores
        canon = (tuple(G.dump_term(h) for h in hyps), G.dump_term(prop))
        ctx.case(("thm", canon), nontrivial=k >= 1)
        ctx.count("thm")
        vars, svars = {}, {}
        for h in hyps + [prop]:
            free_names(h, vars, svars)
        for setting in [(False, None, False), (True, None, False), (False, None, True), (True, 80, False), (False, 20, True)]:
            impl.set_context(vars, svars)
            text = None
            try:
                text = impl.print_thm(th, setting)
                th2 = impl.quiet(impl.api_parse_thm, text)
                ok = len(th2.hyps) == len(hyps) and all(G.term_eq(a, b) for a, b in zip(th2.hyps, hyps)) and G.term_eq(th2.prop, prop)
                detail = ""
            except Exception as e:  # noqa
                ok, detail = False, "%s %s" % (type(e).__name__, (getattr(e, "err", None) or repr(e))[:200])
            if not ok:
                # is it a failure of one of the component terms already?  then the term stream reports it
                comp_ok = all(oracle.roundtrip(x, (setting[0], None, False))[0] is None for x in hyps + [prop])
                key = "thm-roundtrip:%s" % (canon,) if comp_ok else "thm-component:%s" % (canon,)
                ctx.violation(key, "sequent %s prints as %r and does not parse back (%s), setting %s" % (canon, text, detail, setting),
                              {"kind": "thm", "theory": sig.thy_name, "hyps": [G.term_to_json(h) for h in hyps], "prop": G.term_to_json(prop),
                               "setting": list(setting)})
                break


def stream_insts_items(ctx, impl, sig, oracle, n):
    """Instantiations and exported proof items: export_proof_item / parse_proof_rule.  Every argument
    signature that a primitive rule or a registered macro declares is generated (rules are enumerated
    from the registries, one to three per signature); instantiations carry a type part; items may have
    schematic variables, a sequent, and a subproof (exported as further lines)."""
    from harness.props import c07_gen as G
    from typing import Tuple, List
    rng = ctx.rng("item/" + sig.thy_name)
    Inst, Term, Type, TyInst = impl.kterm.Inst, impl.kterm.Term, impl.ktype.Type, impl.ktype.TyInst
    forbidden = lambda nm: nm in oracle.keywords or nm in sig.consts   # noqa
    thy = impl.theory.thy
    by_sig = {}
    for r in ["theorem", "variable", "sorry", "subproof"] + sorted(impl.thm.primitive_deriv) + sorted(impl.theory.global_macros):
        try:
            sg = thy.get_proof_rule_sig(r)
        except Exception:  # noqa
            continue
        by_sig.setdefault(sig_name(sg), []).append((r, sg))
    sigs = {}
    for k, lst in sorted(by_sig.items()):
        keep = [x for x in lst if x[0] in ("theorem", "variable", "sorry", "subst_type", "substitution", "apply_theorem_for",
                                           "apply_induct", "rewrite_goal", "assume", "forall_elim")][:3] or lst[:2]
        for r, sg in keep:
            sigs[r] = sg
    ctx.coverage["item_signatures"] = sorted(by_sig)

    def mk_term(names, T=None, d=2):
        gen = G.TermGen(rng, sig, names, allow_svar=True)
        T = T or (gen.rand_type(1) if rng.random() < 0.5 else G.BoolType)
        t = gen.gen(T, rng.randint(0, d), [])
        G.check_welltyped(sig, t)
        return t

    def mk_inst(names):
        d = {}
        for _ in range(rng.choice([0, 1, 2, 3])):
            d[rng.choice(["x", "y", "P", "f", "a", "n", "S"])] = mk_term(names)
        inst = Inst(d)
        if rng.random() < 0.45:
            ks = rng.sample(["a", "b", "c", "T1"], rng.randint(1, 2))
            if d and rng.random() < 0.5:
                # a schematic TYPE variable named like a schematic variable of the term part ('a and ?a): two
                # namespaces in the Inst, one text {'a: T, a: t} -- both entries must come back
                ks[0] = rng.choice(sorted(d))
                ctx.count("item:inst-type-and-term-variable-share-a-name")
            for k in ks:
                inst.tyinst[k] = gen_type(rng, sig, 2)
        r = rng.random()
        if r < 0.04:
            inst.var_inst[rng.choice(["u", "v"])] = mk_term(names)
        elif r < 0.08:
            inst.abs_name_inst["x"] = rng.choice(["y", "z1"])
        return inst

    def mk_args(s, names):
        if s is None:
            return True, None
        if s == str:
            return True, rng.choice(["conjI", "disjE", "my_thm"])
        if s == Term:
            return True, mk_term(names)
        if s == Inst:
            return True, mk_inst(names)
        if s == TyInst:
            return True, TyInst({k: gen_type(rng, sig, 2) for k in rng.sample(["a", "b", "c"], rng.randint(0, 2))})
        if s == Tuple[str, Type]:
            return True, (rng.choice(["x", "n1", "f"]), gen_type(rng, sig, 2))
        if s == Tuple[str, Term]:
            return True, (rng.choice(["conjI", "nat_induct"]), mk_term(names))
        if s == Tuple[str, Inst]:
            return True, (rng.choice(["conjI", "nat_induct"]), mk_inst(names))
        if s == Tuple[str, Term, Term]:
            return True, (rng.choice(["nat_induct", "list_induct"]), mk_term(names), mk_term(names, G.BoolType))
        if s == List[Term]:
            return True, [mk_term(names) for _ in range(rng.randint(1, 3))]
        return False, None

    inst_rules = sorted(r for r in sigs if sigs[r] == Inst or sigs[r] == Tuple[str, Inst])

    def mk_item(names, depth, want_inst=False):
        rule = rng.choice(inst_rules) if want_inst and inst_rules else rng.choice(sorted(sigs))
        ok, args = mk_args(sigs[rule], names)
        if not ok:
            ctx.count("item:unsupported-signature:%s" % sig_name(sigs[rule]))
            return None
        th = None
        if rng.random() < 0.6:
            hyps = [mk_term(names, G.BoolType, 1) for _ in range(rng.choice([0, 0, 1, 2]))]
            th = impl.thm.Thm(mk_term(names, G.BoolType, 2), tuple(hyps))
        prevs = [rng.choice(["0", "1", "2.1", "0.3.1"]) for _ in range(rng.choice([0, 1, 2]))]
        item = impl.proof.ProofItem(rng.choice(["0", "3", "1.2", "0.0.1"]), rule, args=args, prevs=prevs, th=th)
        ctx.count("item:%s" % sig_name(sigs[rule]))
        if depth > 0 and rng.random() < 0.15:
            sub = impl.proof.Proof()
            for _ in range(rng.randint(1, 2)):
                it = mk_item(names, depth - 1)
                if it is not None:
                    sub.items.append(it)
            if sub.items:
                item.subproof = sub
                ctx.count("item:with-subproof")
        return item

    def flatten(item):
        out = [item]
        if item.subproof:
            for it in item.subproof.items:
                out += flatten(it)
        return out

    def export_parse(item, u):
        """None if every exported line parses back to the corresponding item, else a description."""
        data = None
        try:
            with impl.global_setting(unicode=u, highlight=False, line_length=None):
                data = impl.api_export_proof_item(item)
            flat = flatten(item)
            if len(data) != len(flat):
                return "exported %d lines for %d items" % (len(data), len(flat)), data
            for d, it in zip(data, flat):
                it2 = impl.quiet(impl.api_parse_proof_rule, dict(d))
                if not item_eq(it, it2):
                    return "line %r parses to a different item" % (d,), data
            return None, data
        except Exception as e:  # noqa
            return "%s %s" % (type(e).__name__, (getattr(e, "err", None) or repr(e))[:200]), data

    for i in range(n):
        names = G.Names(rng, forbidden)
        item = mk_item(names, 1, want_inst=(i % 4 == 3))      # every fourth item carries an instantiation
        if item is None:
            continue
        flat = flatten(item)
        canon = repr([(it.rule, dump_args(it.args), dump_thm(it.th), [str(p) for p in it.prevs]) for it in flat])
        ctx.case(("item", canon), nontrivial=item.args is not None or item.th is not None)
        impl.set_context(dict(names.name_T), dict(names.svar_T))
        for u in (False, True):
            bad, data = export_parse(item, u)
            if bad is None:
                continue
            # known: parts of an instantiation that have no concrete syntax; only if they explain the failure
            comps = sorted({c for it in flat for c in inst_hidden_components(it.args)})
            key = "item-roundtrip:" + canon
            if comps:
                stripped = strip_hidden(item, impl)
                if export_parse(stripped, u)[0] is None:
                    key = "inst-component-not-exported:" + comps[0]
            ctx.violation(key, "proof item %s exports as %r and does not parse back (%s), unicode=%s" % (canon[:600], data, bad, u),
                          {"kind": "item", "theory": sig.thy_name, "canon": canon, "seed_stream": "item/" + sig.thy_name, "index": i})
            break


def inst_hidden_components(a):
    from kernel.term import Inst
    out = []
    if isinstance(a, Inst):
        if a.var_inst:
            out.append("var_inst")
        if a.abs_name_inst:
            out.append("abs_name_inst")
    elif isinstance(a, (tuple, list)):
        for x in a:
            out += inst_hidden_components(x)
    return out


def strip_hidden(item, impl):
    """Copy of the item (and its subproof) without var_inst / abs_name_inst in its instantiations."""
    from kernel.term import Inst

    def strip(a):
        if isinstance(a, Inst):
            b = Inst(dict(a.items()))
            for k, v in a.tyinst.items():
                b.tyinst[k] = v
            return b
        if isinstance(a, tuple):
            return tuple(strip(x) for x in a)
        if isinstance(a, list):
            return [strip(x) for x in a]
        return a
    it = impl.proof.ProofItem(item.id, item.rule, args=strip(item.args), prevs=item.prevs, th=item.th)
    if item.subproof:
        it.subproof = impl.proof.Proof()
        it.subproof.items = [strip_hidden(x, impl) for x in item.subproof.items]
    return it


def sig_name(s):
    if s is None or isinstance(s, type):
        return getattr(s, "__name__", "None")
    return str(s).replace("typing.", "").replace("kernel.term.", "").replace("kernel.type.", "")


def dump_args(a):
    from harness.props import c07_gen as G
    from kernel.term import Term, Inst
    from kernel.type import Type, TyInst
    if isinstance(a, Term):
        return G.dump_term(a)
    if isinstance(a, Type):
        return G.dump_type(a)
    if isinstance(a, Inst):
        return "{%s | ty %s | var %s | abs %s}" % (", ".join("%s: %s" % (k, dump_args(v)) for k, v in sorted(a.items())),
                                                  dump_args(TyInst(dict(a.tyinst))), sorted((k, dump_args(v)) for k, v in a.var_inst.items()),
                                                  sorted(a.abs_name_inst.items()))
    if isinstance(a, TyInst):
        return "{%s}" % ", ".join("%s: %s" % (k, dump_args(v)) for k, v in sorted(a.items()))
    if isinstance(a, (tuple, list)):
        return "[%s]" % ", ".join(dump_args(x) for x in a)
    return repr(a)


def dump_thm(th):
    from harness.props import c07_gen as G
    if th is None:
        return None
    return ([G.dump_term(h) for h in th.hyps], G.dump_term(th.prop))


def args_eq(a, b):
    from harness.props import c07_gen as G
    from kernel.term import Term, Inst
    from kernel.type import Type, TyInst
    if isinstance(a, Term):
        return isinstance(b, Term) and G.term_eq(a, b)
    if isinstance(a, Type):
        return isinstance(b, Type) and G.ty_eq(a, b)
    if isinstance(a, (Inst, TyInst)):
        if not (type(a) is type(b) and sorted(a.keys()) == sorted(b.keys()) and all(args_eq(a[k], b[k]) for k in a.keys())):
            return False
        if isinstance(a, Inst):     # ALL components of an instantiation
            return args_eq(TyInst(dict(a.tyinst)), TyInst(dict(b.tyinst))) and \
                sorted(a.var_inst) == sorted(b.var_inst) and all(args_eq(a.var_inst[k], b.var_inst[k]) for k in a.var_inst) and \
                dict(a.abs_name_inst) == dict(b.abs_name_inst)
        return True
    if isinstance(a, (tuple, list)):
        return isinstance(b, (tuple, list)) and len(a) == len(b) and all(args_eq(x, y) for x, y in zip(a, b))
    return a == b


def item_eq(i1, i2):
    if not (i1.id == i2.id and i1.rule == i2.rule and i1.prevs == i2.prevs):
        return False
    if (i1.th is None) != (i2.th is None):
        return False
    if i1.th is not None:
        if len(i1.th.hyps) != len(i2.th.hyps) or not all(args_eq(a, b) for a, b in zip(i1.th.hyps, i2.th.hyps)) or not args_eq(i1.th.prop, i2.th.prop):
            return False
    a, b = i1.args, i2.args
    if a is None or (isinstance(a, str) and a == ""):
        return b is None or (isinstance(b, str) and b == "")
    return args_eq(a, b)


# ---------------------------------------------------------------- memo histories
def alpha_variants(t, rng):
    """Terms `==` to t whose binders carry other suggested names (outer and inner)."""
    from harness.props import c07_gen as G
    pool = ["x", "y", "z", "u", "v", "a", "n", "P", "x1", "k"]

    def rec(t):
        if t.is_comb():
            return G.Comb(rec(t.fun), rec(t.arg))
        if t.is_abs():
            nm = rng.choice(pool) if rng.random() < 0.7 else t.var_name
            return G.Abs(nm, t.var_T, rec(t.body))
        return t
    return [rec(t) for _ in range(3)]


def memo_texts(impl, t, variants, setting, saved=None):
    """The text of t under the memo histories: fresh table / after alpha-variants / after the other
    unicode flag / (with everything printed so far still cached)."""
    other = (not setting[0], setting[1], setting[2])
    texts = {}
    try:
        impl.clear_memo()
        texts["fresh"] = impl.print_term(t, setting)
        impl.clear_memo()
        for v in variants:
            impl.print_term(v, setting)
        texts["after-alpha-variants"] = impl.print_term(t, setting)
        impl.clear_memo()
        for v in variants + [t]:
            impl.print_term(v, other)
        texts["after-other-unicode-flag"] = impl.print_term(t, setting)
        if saved is not None:
            impl.term_ast.update(saved)
            texts["after-whole-run"] = impl.print_term(t, setting)
    except Exception as e:  # noqa
        texts["error"] = repr(e)[:200]
    return texts


def stream_memo(ctx, impl, sig, oracle, n):
    """The same term printed (a) with an empty memo table, (b) after printing alpha-variants of it,
    (c) after printing it and its variants under the other unicode flag, (d) with everything the run
    printed so far still cached: the text must be the same and must parse back."""
    from harness.props import c07_gen as G
    rng = ctx.rng("memo/" + sig.thy_name)
    forbidden = lambda nm: nm in oracle.keywords or nm in sig.consts   # noqa
    saved = dict(impl.term_ast)
    try:
        for i in range(n):
            names = G.Names(rng, forbidden)
            gen = G.TermGen(rng, sig, names)
            T = gen.rand_type(1) if rng.random() < 0.4 else G.BoolType
            t = gen.gen(T, rng.randint(2, 4), [])
            if "Abs" not in G.dump_term(t) and rng.random() < 0.7:
                continue
            G.check_welltyped(sig, t)
            vars, svars = free_names(t)
            u = rng.random() < 0.5
            setting = (u, None, False)
            variants = alpha_variants(t, rng)
            ctx.case(("memo", G.dump_term(t)), nontrivial=True)
            ctx.count("memo")
            impl.set_context(vars, svars)
            texts = memo_texts(impl, t, variants, setting, saved)
            bad = None
            if "error" in texts or len(set(texts.values())) != 1:
                bad = "texts differ between memo histories: %s" % texts
            else:
                for hist, text in texts.items():
                    try:
                        t2 = impl.quiet(impl.api_parse_term, text)
                        if not G.term_eq(t, t2):
                            bad = "text %r printed %s parses to a different term" % (text, hist)
                    except Exception as e:  # noqa
                        if oracle.roundtrip(t, setting)[0] is None:
                            bad = "text %r printed %s does not parse (%s)" % (text, hist, type(e).__name__)
                    break
            if bad:
                cls = oracle.classify(t, setting)
                ctx.violation(cls or ("memo-history:" + G.dump_term(t)), "theory %s: %s: %s" % (sig.thy_name, G.dump_term(t)[:300], bad),
                              {"kind": "memo", "theory": sig.thy_name, "term": G.term_to_json(t), "variants": [G.term_to_json(v) for v in variants],
                               "setting": list(setting), "texts": texts})
    finally:
        impl.term_ast.update(saved)


def stream_cross_theory(ctx, impl, keywords, pairs, n):
    """History independence ACROSS THEORIES.  Terms over theory A whose constants have the same
    declared types in a larger theory B; bound names are often constants of B only (P1 in hoare) or
    names whose printed variant is one.  Print everything in A, switch to B WITHOUT touching the memo
    table, print again, switch back to A: in each theory the text must parse back to the term and must
    be the text a fresh memo table gives in that theory."""
    from harness.props import c07_gen as G
    for thy_a, thy_b in pairs:
        rng = ctx.rng("cross/%s/%s" % (thy_a, thy_b))
        impl.load(thy_b)
        sig_b = G.Sig(ctx.repo, thy_b, impl.api_parse_type)
        impl.load(thy_a)
        sig_a = G.Sig(ctx.repo, thy_a, impl.api_parse_type)
        only_b = sorted(c for c in sig_b.consts if c not in sig_a.consts and re.fullmatch(r"[A-Za-z_][A-Za-z_0-9]*", c)
                        and c not in keywords)
        # constants of B that are variants <name><digits> of an ordinary name come first
        only_b.sort(key=lambda c: (not re.fullmatch(r"[A-Za-z]+[0-9]+", c), c))
        bound_special = only_b[:12] + [re.sub(r"[0-9]+$", "", c) for c in only_b[:6] if re.search(r"[0-9]+$", c)]
        forbidden = lambda nm: nm in keywords or nm in sig_a.consts or nm in sig_b.consts   # noqa
        oracle_a, oracle_b = Oracle(ctx, impl, sig_a, keywords), Oracle(ctx, impl, sig_b, keywords)
        cases = []
        tries = 0
        while len(cases) < n and tries < 5 * n:
            tries += 1
            names = G.Names(rng, forbidden, bound_special=bound_special)
            gen = G.TermGen(rng, sig_a, names)
            T = gen.rand_type(1) if rng.random() < 0.4 else G.BoolType
            t = gen.gen(T, rng.randint(2, 4), [])
            if "Abs" not in G.dump_term(t):
                continue
            try:
                G.check_welltyped(sig_a, t)
                G.check_welltyped(sig_b, t)
            except ValueError:
                continue
            cases.append((t, (rng.random() < 0.5, None, False)))
        impl.clear_memo()

        def phase(oracle, label, fresh):
            out = []
            for t, setting in cases:
                if fresh:
                    impl.clear_memo()
                vars, svars = free_names(t)
                impl.set_context(vars, svars)
                try:
                    text = impl.print_term(t, setting)
                except Exception as e:  # noqa
                    text = "print-raises:" + type(e).__name__
                try:
                    ok = G.term_eq(t, impl.quiet(impl.api_parse_term, text))
                except Exception as e:  # noqa
                    ok = False
                out.append((text, ok))
            return out
        in_a = phase(oracle_a, "A", False)
        impl.load(thy_b)
        in_b = phase(oracle_b, "B-after-A", False)
        fresh_b = phase(oracle_b, "B-fresh", True)
        impl.load(thy_a)
        back_a = phase(oracle_a, "A-after-B", False)
        fresh_a = phase(oracle_a, "A-fresh", True)
        for idx, (t, setting) in enumerate(cases):
            ctx.case(("cross", thy_a, thy_b, G.dump_term(t)), nontrivial=True)
            ctx.count("cross:%s->%s" % (thy_a, thy_b))
            hist = {"in %s" % thy_a: in_a[idx], "in %s after %s" % (thy_b, thy_a): in_b[idx], "in %s, fresh memo" % thy_b: fresh_b[idx],
                    "back in %s" % thy_a: back_a[idx], "in %s, fresh memo" % thy_a: fresh_a[idx]}
            bad = None
            if not (fresh_a[idx][1] and fresh_b[idx][1]):
                continue        # not a history effect: the plain round trip fails (reported by the term streams of these theories)
            if in_b[idx][0] != fresh_b[idx][0] or not in_b[idx][1]:
                bad = "printed in %s after %s: %r (parses back: %s); with a fresh memo table: %r" % (
                    thy_b, thy_a, in_b[idx][0], in_b[idx][1], fresh_b[idx][0])
            elif back_a[idx][0] != fresh_a[idx][0] or in_a[idx][0] != fresh_a[idx][0] or not back_a[idx][1] or not in_a[idx][1]:
                bad = "printed in %s: %r, again after visiting %s: %r (parses back: %s); fresh: %r" % (
                    thy_a, in_a[idx][0], thy_b, back_a[idx][0], back_a[idx][1], fresh_a[idx][0])
            if bad:
                ctx.violation("memo-theory-history:%s->%s:%s" % (thy_a, thy_b, G.dump_term(t)),
                              "history dependence across theories: %s: %s" % (G.dump_term(t)[:300], bad),
                              {"kind": "cross", "theory": thy_a, "theory_b": thy_b, "term": G.term_to_json(t), "setting": list(setting),
                               "history": {k: list(v) for k, v in hist.items()}})
    impl.clear_memo()


def stream_extend_theory(ctx, impl, keywords, thy_names, rounds, per_round):
    """History independence when the CURRENT theory object is extended in place (the user adds a
    definition): print a batch of terms, extend `theory.thy` with a new constant (unchecked_extend, same
    object), print the same terms again WITHOUT touching the memo table.  The new constant is named
    like a bound name suggestion of some of the terms / like the variant the printer would choose
    (<name>1) / like a free variable of some terms (those terms leave the domain: a free variable
    shadowed by a constant is the known finding) / like nothing in the batch.  After the extension each
    text must be the text a fresh memo table gives and must parse back to the term.  The kernel has no
    API to REMOVE a constant; loading a theory again (a new, smaller theory object) is covered by
    stream_cross_theory."""
    from harness.props import c07_gen as G
    from kernel import extension
    for thy_name in thy_names:
        rng = ctx.rng("extend/" + thy_name)
        for rnd in range(rounds):
            impl.load(thy_name)             # a fresh theory object: extensions of earlier rounds are gone
            sig = G.Sig(ctx.repo, thy_name, impl.api_parse_type)
            oracle = Oracle(ctx, impl, sig, keywords)
            forbidden = lambda nm: nm in keywords or nm in sig.consts   # noqa
            cases, tries = [], 0
            while len(cases) < per_round and tries < 6 * per_round:
                tries += 1
                names = G.Names(rng, forbidden)
                gen = G.TermGen(rng, sig, names)
                T = gen.rand_type(1) if rng.random() < 0.4 else G.BoolType
                t = gen.gen(T, rng.randint(2, 4), [])
                if "Abs" not in G.dump_term(t):
                    continue
                G.check_welltyped(sig, t)
                cases.append((t, (rng.random() < 0.5, None, False)))
            bound, free = [], []
            for t, _ in cases:
                vars, svars = free_names(t)
                free += list(vars) + list(svars)
                bound += [nm for nm in all_names(t) if nm not in vars and nm not in svars]
            mode = rnd % 4
            pool = {0: sorted(set(bound)), 1: sorted(set(nm + "1" for nm in bound)), 2: sorted(set(free)), 3: ["zzfresh"]}[mode]
            pool = [nm for nm in pool if re.fullmatch(r"[A-Za-z_][A-Za-z_0-9]*", nm) and not forbidden(nm)]
            if not pool:
                continue
            new_name = rng.choice(pool)
            new_T = rng.choice([G.TFun(G.BoolType, G.BoolType), G.TVar("a"), G.BoolType, G.TFun(G.TVar("a"), G.TVar("a"))])

            def phase(fresh):
                out = []
                for t, setting in cases:
                    if fresh:
                        impl.clear_memo()
                    vars, svars = free_names(t)
                    impl.set_context(vars, svars)
                    try:
                        text = impl.print_term(t, setting)
                    except Exception as e:  # noqa
                        text = "print-raises:" + type(e).__name__
                    try:
                        ok = G.term_eq(t, impl.quiet(impl.api_parse_term, text))
                    except Exception:  # noqa
                        ok = False
                    out.append((text, ok))
                return out
            impl.clear_memo()
            before = phase(False)
            impl.theory.thy.unchecked_extend([extension.Constant(new_name, new_T)])     # the SAME theory object, extended
            after = phase(False)
            fresh = phase(True)
            for idx, (t, setting) in enumerate(cases):
                vars, svars = free_names(t)
                ctx.case(("extend", thy_name, new_name, G.dump_term(t)), nontrivial=True)
                ctx.count("extend:%s" % ["bound-name", "variant-name", "free-name", "unrelated"][mode])
                if new_name in vars or new_name in svars:
                    continue        # the term now has a free variable shadowed by a constant (known finding class)
                if not before[idx][1] or not fresh[idx][1]:
                    continue        # the plain round trip fails: reported by the term streams
                if after[idx][0] != fresh[idx][0] or not after[idx][1]:
                    ctx.violation("memo-extend-history:%s:%s:%s" % (thy_name, new_name, G.dump_term(t)),
                                  "theory %s extended in place by the constant %s :: %s: %s printed %r before; after the extension the memo gives "
                                  "%r (parses back: %s), a fresh memo table gives %r" % (
                                      thy_name, new_name, G.dump_type(new_T), G.dump_term(t)[:300], before[idx][0], after[idx][0], after[idx][1], fresh[idx][0]),
                                  {"kind": "extend", "theory": thy_name, "term": G.term_to_json(t), "setting": list(setting),
                                   "new_const": new_name, "new_type": G.type_to_json(new_T)})
    impl.clear_memo()


def stream_many_annotations(ctx, impl, sig, oracle):
    """Large terms in which every conjunct needs its own type annotation (the annotation loop of
    infer_printed_type runs once per annotation)."""
    from harness.props import c07_gen as G
    a = G.TVar("a")
    atoms = []
    if "nil" in sig.consts:
        LA = G.TConst("list", a)
        atoms.append(G.Const("equals", G.TFun(LA, LA, G.BoolType))(G.Const("nil", LA), G.Const("nil", LA)))
    if "empty_set" in sig.consts:
        SA = G.TConst("set", a)
        atoms.append(G.Const("equals", G.TFun(SA, SA, G.BoolType))(G.Const("empty_set", SA), G.Const("empty_set", SA)))
    if "zero" in sig.consts:
        atoms.append(G.Const("equals", G.TFun(a, a, G.BoolType))(G.Const("zero", a), G.Const("zero", a)))
    conj = G.Const("conj", G.TFun(G.BoolType, G.BoolType, G.BoolType))
    # printing a term with k annotations costs about (k/40)^5 * 0.3 s (type inference is re-run per annotation):
    # the quick tier stays below the old limit of 99 rounds, the thorough tier crosses it
    big = ctx.tier == "thorough" and not ctx.coverage.get("many_annotations_big_done")
    for n_atom, atom in enumerate(atoms):
        for k in ([40, 101] if (big and n_atom == 0) else [40]):
            t = atom
            for _ in range(k - 1):
                t = conj(atom, t)
            G.check_welltyped(sig, t)
            if k > 60:
                ctx.coverage["many_annotations_big_done"] = True      # once per run: it costs about a minute
                oracle.limit = 900
            try:
                oracle.check(t, [(False, None, False)] if k > 60 else [(False, None, False), (True, 80, True)], "many-annotations", nontrivial=True)
            finally:
                oracle.limit = 60
            ctx.count("many-annotations")


# =====================================================================================
# 5. run / replay
# =====================================================================================
QUICK_THEORIES = [("hoare", 500), ("interval_arith", 450), ("string", 150), ("set", 250)]
THOROUGH_THEORIES = [("hoare", 4000), ("interval_arith", 4000), ("string", 1000), ("set", 2000), ("list", 1000), ("real", 1500),
                     ("function", 800), ("logic", 500), ("nat", 800), ("int", 800), ("expr", 400), ("gcl", 400), ("realintegral", 800)]


CROSS_THEORIES = [("set", "hoare"), ("nat", "real"), ("list", "string")]
CROSS_THEORIES_MORE = [("logic", "hoare"), ("function", "expr"), ("function", "gcl"), ("real", "interval_arith"), ("int", "hoare")]


def known_keys(keywords):
    return ["reserved-word-identifier:" + k for k in keywords] + ["identifier-shadowed-by-constant"]


def run(ctx):
    ctx.coverage["rule"] = (
        "terms: type-directed random terms over the full signature of each loaded library theory (every constant at an instance of its declared "
        "type, overloaded constants at declared instances, binders, numerals at nat/int/real/'a, negative numerals and fractions, list/set literals, "
        "comprehension, intervals, if, function update, chars/strings, beta-redexes, schematic variables, bound names clashing with free names), "
        "depth 1-4; nest: every operator/binder/special syntax in every argument position of every other (depth 2); library: every statement of the "
        "library files; names: the same generator with keyword/constant-like identifiers (separate stream); types, sequents, proof items; memo: three "
        "print histories per term. Each case is printed under 4-12 of the 12 settings {ascii,unicode}x{None,20,80}x{plain,highlight flattened} and "
        "parsed back. non-trivial = term size >= 3 (library: >= 5); distinct by the raw structure of the term.")
    # the module's own FINDINGS are authoritative for the keys it computes (known_findings.json is generated from them)
    for f in FINDINGS:
        if f["status"] == "known" and not any(x.get("key") == f["key"] for x in ctx.findings):
            ctx.findings.append(dict(f, property="C07"))
    # ---- 1. tables + Lean obligations
    ops = binders = levels = terminals = None
    try:
        ops, binders = read_operator_tables(ctx.repo)
        levels, terminals, rules = read_ladder(ctx.repo)
        from harness.props.c07_lean import gen_lean
        from harness.props.c07_lean import read_lambda_spelling
        if ctx.write_if_changed("Holpy/C07/Gen.lean", gen_lean(ops, binders, levels, terminals, rules, read_lambda_spelling(ctx.repo))):
            ctx.log("Gen.lean regenerated (changed)")
    except AssertionError as e:
        ctx.broken("translate:c07:tables", str(e))
    if os.environ.get("C07_DEV_NO_LEAN"):       # development only: oracle streams without the Lean stage
        ctx.log("C07_DEV_NO_LEAN set: Lean obligations NOT checked in this run")
        ctx.broken("dev:no-lean", "C07_DEV_NO_LEAN is set")
    else:
        proofs_ok = ctx.lean_props(["Holpy.C07.Props", "Holpy.C07.PropsText", "Holpy.C07.PropsTypes", "Holpy.C07.PropsTypesText", "Holpy.C07.PropsBroken", "Holpy.C07.PropsInst", "Holpy.C07.PropsLits"], exes=[EXE])
        if ctx.tier == "thorough" and proofs_ok:
            ctx.lean_check_modules(["Holpy.C07.Props", "Holpy.C07.PropsText", "Holpy.C07.PropsTypes", "Holpy.C07.PropsTypesText", "Holpy.C07.PropsBroken", "Holpy.C07.PropsInst", "Holpy.C07.PropsLits"])
    if ops is None or levels is None:
        # fall back so that the failing-input search can still run
        ops, binders = ops or [], binders or []
        terminals = terminals or []
    keywords = identifier_keywords(terminals)
    ctx.coverage["trusted_base"] += [
        "harness/props/c07.py + c07_gen.py: generators, own alpha-equality and own type checker (the judge of 'equal term' and 'well-typed')",
        "regex/ast reader of syntax/operator.py and of the grammar text in syntax/parser.py",
        "Lark's LALR construction and contextual lexer (the Lean ladder parser is compared with it on generated texts, not proved equal)"]
    ctx.assumptions += [
        "identifiers are CNAME-shaped; in the main streams they are neither keyword terminals nor constants of the theory (those are the `names` stream)",
        "the Lean theorem covers the precedence core (skeletons); annotations, literals and binder naming are covered by the round-trip oracle only"]
    # ---- 2. oracle streams
    impl = Impl(ctx)
    from harness.props import c07_gen as G
    theories = QUICK_THEORIES if ctx.tier == "quick" else THOROUGH_THEORIES
    replay_corpus(ctx, impl, keywords)
    for idx_thy, (thy_name, n) in enumerate(theories):
        full = ctx.tier == "quick" or idx_thy < 4       # thorough: the first four theories at full scale, the rest at quick scale
        scale = ctx.scale if full else (lambda q, t: q)
        impl.load(thy_name)
        sig = G.Sig(ctx.repo, thy_name, impl.api_parse_type)
        oracle = Oracle(ctx, impl, sig, keywords)
        import time
        marks = [("start", time.time())]
        hist = stream_random_terms(ctx, impl, sig, oracle, n)
        for k, v in hist.items():
            ctx.count("gen:" + k, v)
        marks.append(("terms", time.time()))
        stream_nestings(ctx, impl, sig, oracle, ops, binders, per_pair=scale(1, 2))
        marks.append(("nest", time.time()))
        stream_adversarial_names(ctx, impl, sig, oracle, scale(60, 600))
        marks.append(("names", time.time()))
        stream_types(ctx, impl, sig, scale(100, 1500))
        marks.append(("types", time.time()))
        stream_thms(ctx, impl, sig, oracle, scale(60, 800))
        marks.append(("thm", time.time()))
        stream_insts_items(ctx, impl, sig, oracle, scale(80, 1000))
        marks.append(("item", time.time()))
        stream_memo(ctx, impl, sig, oracle, scale(60, 600))
        marks.append(("memo", time.time()))
        stream_library(ctx, impl, sig, oracle, thy_name, ctx.scale(150, 100000), tables=(ops, binders))
        if thy_name == "interval_arith" and ctx.tier == "quick":
            # the library files with most interval literals {m..n} (imported by this theory): their statements, too
            for extra in ("iterate", "sums"):
                stream_library(ctx, impl, sig, oracle, extra, ctx.scale(150, 100000), tables=(ops, binders))
        stream_many_annotations(ctx, impl, sig, oracle)
        marks.append(("library", time.time()))
        correspondence(ctx, impl, sig, oracle, ops, binders, levels, scale(150, 2000))
        marks.append(("corr", time.time()))
        ctx.log("theory %s done: %s" % (thy_name, " ".join("%s=%.1fs" % (marks[i][0], marks[i][1] - marks[i - 1][1]) for i in range(1, len(marks)))))
    stream_cross_theory(ctx, impl, keywords, CROSS_THEORIES if ctx.tier == "quick" else CROSS_THEORIES + CROSS_THEORIES_MORE,
                        ctx.scale(60, 400))
    stream_extend_theory(ctx, impl, keywords, ["nat", "set", "hoare"] if ctx.tier == "quick" else ["nat", "set", "hoare", "real", "list", "function"],
                         ctx.scale(8, 40), ctx.scale(12, 20))
    if ctx.tier == "thorough":
        # every library file in its own theory
        done = {t for t, _ in theories}
        for thy_name in sorted(f[:-5] for f in os.listdir(os.path.join(ctx.repo, "library")) if f.endswith(".json")):
            if thy_name in done or thy_name in ("hoare_test_output",):
                continue
            try:
                impl.load(thy_name)
            except Exception as e:  # noqa
                ctx.count("library:theory-does-not-load")
                continue
            sig = G.Sig(ctx.repo, thy_name, impl.api_parse_type)
            oracle = Oracle(ctx, impl, sig, keywords)
            stream_library(ctx, impl, sig, oracle, thy_name, 100000, tables=(ops, binders))


def correspondence(ctx, impl, sig, oracle, ops, binders, levels, n):
    try:
        from harness.props.c07_lean import correspondence as corr
    except ImportError:
        return
    corr(ctx, impl, sig, oracle, ops, binders, levels, n)
    from harness.props.c07_lean import type_correspondence
    type_correspondence(ctx, impl, sig, oracle, n)


def replay_corpus(ctx, impl, keywords):
    from harness.props import c07_gen as G
    p = os.path.join(ctx.verif, "corpus", "c07.json")
    if not os.path.exists(p):
        return
    with open(p, encoding="utf-8") as f:
        corpus = json.load(f)
    for entry in corpus:
        impl.load(entry["theory"])
        sig = G.Sig(ctx.repo, entry["theory"], impl.api_parse_type)
        oracle = Oracle(ctx, impl, sig, keywords)
        t = G.term_from_json(entry["term"])
        try:
            G.check_welltyped(sig, t)
        except ValueError:
            continue
        oracle.check(t, SETTINGS, "corpus", nontrivial=True, extra={"why": entry.get("why")})
        ctx.count("corpus")


def replay(ctx, rp):
    """Re-run one recorded failing input on the implementation; True if it still fails."""
    from harness.props import c07_gen as G
    ctx.findings = []      # a replay reports everything, known or not
    r = rp["replay"]
    impl = Impl(ctx)
    levels, terminals, _ = read_ladder(ctx.repo)
    keywords = identifier_keywords(terminals)
    impl.load(r["theory"])
    sig = G.Sig(ctx.repo, r["theory"], impl.api_parse_type)
    oracle = Oracle(ctx, impl, sig, keywords)
    kind = r.get("kind")
    if kind == "term":
        t = G.term_from_json(r["term"])
        res = oracle.roundtrip(t, tuple(r["setting"]))
        print("term:", G.dump_term(t))
        print("printed:", repr(res[1]))
        print("result:", res[0] or "round trip ok", res[2] or "")
        return res[0] is not None
    if kind == "memo":
        t = G.term_from_json(r["term"])
        variants = [G.term_from_json(v) for v in r["variants"]]
        setting = tuple(r["setting"])
        vars, svars = free_names(t)
        impl.set_context(vars, svars)
        texts = memo_texts(impl, t, variants, setting)
        for k, v in texts.items():
            print("%s: %r" % (k, v))
        return len(set(texts.values())) != 1 or "error" in texts or oracle.roundtrip(t, setting)[0] is not None
    if kind == "extend":
        from kernel import extension
        t = G.term_from_json(r["term"])
        setting = tuple(r["setting"])
        vars, svars = free_names(t)
        impl.clear_memo()
        impl.set_context(vars, svars)
        before = impl.print_term(t, setting)
        impl.theory.thy.unchecked_extend([extension.Constant(r["new_const"], G.type_from_json(r["new_type"]))])
        after = impl.print_term(t, setting)
        try:
            ok = G.term_eq(t, impl.quiet(impl.api_parse_term, after))
        except Exception as e:  # noqa
            ok = False
        impl.clear_memo()
        fresh = impl.print_term(t, setting)
        print("before: %r\nafter extending the theory by %s: %r (parses back: %s)\nfresh memo: %r" % (before, r["new_const"], after, ok, fresh))
        return after != fresh or not ok
    if kind == "cross":
        t = G.term_from_json(r["term"])
        setting = tuple(r["setting"])
        vars, svars = free_names(t)
        impl.clear_memo()
        impl.set_context(vars, svars)
        in_a = impl.print_term(t, setting)
        impl.load(r["theory_b"])
        impl.set_context(vars, svars)
        in_b = impl.print_term(t, setting)
        try:
            ok_b = G.term_eq(t, impl.quiet(impl.api_parse_term, in_b))
        except Exception as e:  # noqa
            ok_b = False
        impl.clear_memo()
        fresh_b = impl.print_term(t, setting)
        print("in %s: %r\nthen in %s: %r (parses back: %s)\nfresh memo in %s: %r" % (r["theory"], in_a, r["theory_b"], in_b, ok_b, r["theory_b"], fresh_b))
        return in_b != fresh_b or not ok_b
    if kind == "type":
        T = G.type_from_json(r["type"])
        text = impl.print_type(T, tuple(r["setting"]))
        try:
            ok = G.ty_eq(T, impl.api_parse_type(text))
        except Exception as e:  # noqa
            print("parse_type raises", repr(e)[:200])
            ok = False
        print("type:", G.dump_type(T), "printed:", repr(text), "ok:", ok)
        return not ok
    if kind == "thm":
        hyps = [G.term_from_json(h) for h in r["hyps"]]
        prop = G.term_from_json(r["prop"])
        th = impl.thm.Thm(prop, tuple(hyps))
        vars, svars = {}, {}
        for h in hyps + [prop]:
            free_names(h, vars, svars)
        impl.set_context(vars, svars)
        text = impl.print_thm(th, tuple(r["setting"]))
        print("printed:", repr(text))
        try:
            th2 = impl.quiet(impl.api_parse_thm, text)
            ok = len(th2.hyps) == len(th.hyps) and all(G.term_eq(a, b) for a, b in zip(th2.hyps, th.hyps)) and G.term_eq(th2.prop, prop)
        except Exception as e:  # noqa
            print("parse_thm raises", repr(e)[:200])
            ok = False
        return not ok
    if kind == "item":
        # proof items are regenerated from the recorded stream and index
        ctx.seed = rp.get("seed", ctx.seed)
        stream_insts_items(ctx, impl, sig, oracle, int(r["index"]) + 1)
        return bool(ctx.violations)
    print("unknown replay kind", kind)
    return False


KEYWORD_NAMES = ["DIV", "INT", "Int", "MOD", "Mem", "O", "SOME", "Sub", "THE", "UN", "Un", "_", "else", "if", "then"]

MANIFEST = {
    "text": "Lean theorems over regenerated tables (operator/binder table of syntax/operator.py, lambda spelling of pprint.py, rule ladder and ALL literal "
            "terminals of the grammar in syntax/parser.py). TERMS (precedence core: operators in all positions, prefix operators, application, binders "
            "-- printed one by one, the printer does not collapse `!a. !b.` --, if-then-else, atoms incl. numerals; negative numerals and fractions are "
            "prefix minus and `/`; let is an application; TYPE ANNOTATIONS `(t::T)` around any subterm and `%x::T. t` on any binder -- whichever the printer chooses, the theorems hold for every choice, parse_print_annotated; the LITERALS `{m..n}` (interval, any terms as bounds, written without blanks or brackets) and `{x. P}` / `{x::T. P}` (set comprehension, body never bracketed), themselves bracketed as an argument, parse_print_literals): parse_print (tokens), lex_print (TEXT without line limit -> tokens, model of Lark's standard "
            "lexer, names NameOK), parse_print_text (composition), broken_same_tokens / parse_print_broken (every layout that keeps each separating "
            "blank, adds arbitrary whitespace after it and writes a whitespace run before `else` -- what print_ast does for every line width -- lexes to "
            "the same tokens). TYPES: type_parse_print (tokens), type_lex_print (text of print_type -> tokens), type_parse_print_text. SEQUENTS: "
            "thm_parse_print, thm_lex_print (`A1, A2 |- C`, `|- C`, both turnstiles), thm_parse_print_text. INSTANTIATIONS: inst_parse_print (tokens of "
            "`{}` / `{'a: T, x: t}` as export_proof_item writes them; rule `inst`). LIST AND SET LITERALS standing alone: literal_parse_print_partial / literal_parse_print_abstract (tokens of `[a, b]` / `[]`, `{a, b}` / `{}` / `∅` with ANY modelled terms as entries, never bracketed, read back by the rules literal_list / literal_set exactly up to the closing bracket; condition LitOK, lit_ok; tied on every run: tokens of the real printed literal == model printLit, model lexer + parseLit on the real text == entries of the real parse). All for abstract tables under decidable conditions (TableConsistent, "
            "TextOK, TypeTextOK, SeqOK, SeqTextOK, InstOK) that are discharged by `decide` for the regenerated tables on every run. Every model is tied "
            "to the real code on every run: model text == real text (terms, types, sequents), real line-broken texts matched against printTextW by the "
            "driver, model lexer == Lark's real token stream, model parsers == parse_term / parse_type / parse_thm / parse_inst, NameOK checked by the "
            "driver; every library statement whose term is inside the modelled core (3754 of the 3920 that parse; 3460 before intervals and comprehension were modelled, 3625 with intervals alone) has model text == real text and model lexer+parser on the real text == projection of the term (quick tier: the statements of the loaded files plus iterate and sums; thorough: all files). The property itself (12 settings, memo histories within one theory, across theory changes and across IN-PLACE extensions of the current theory object by a constant named like a bound name / its printed variant / a free variable / nothing, proof items) is checked by round trip on type-directed "
            "generated terms and all library statements.",
    "note": "Trusted: Lean kernel, propext/Classical.choice/Quot.sound; the harness generator, its own alpha-equality and type checker; the regex/ast reader "
            "of grammar, operator.py and pprint.py; Lark's LALR tables. NOT covered by a theorem (run-time round trip / correspondence only): WHICH subterms "
            "infer_printed_type annotates and that this suffices for type inference (the annotation SYNTAX is inside the theorems; real annotated prints "
            "are fed to the model parser on every run: skeleton with annotations erased == projection of the term, annotation types == the printer's); "
            "the literal syntaxes other than intervals and set comprehension, by frequency in the library statements (of 3997): set literals `{a, b}` / `{}` (132), "
            "function update (21), list literals (8), char/string (0) -- list and set literals have a token-level theorem only when they stand alone (literal_parse_print_partial: the literal is not a constructor of the term skeleton, so a literal nested inside a term, its bracketing as an operand, and its TEXT level are not proved, and the library figure does not rise); char/string literals need Lark's contextual lexer (`'a'` is "'" LETTER "'" only because CNAME is not acceptable there) -- the model's rule for `{` reads one term and then `..` term `}`, or, if that term is "
            "an identifier, `. ` term `}` / `::` type `. ` term `}`; it rejects set literals (counted as outside the core); it is laxer than the grammar on "
            "texts the printer never writes (`{(x). P}`), and stricter on an interval or comprehension directly as an argument, `f {m..n}`, which Lark "
            "accepts (the printer always brackets it; parse_print_literals is about printed texts); the text level of instantiations and "
            "proof items (inst_parse_print is about tokens; the argument signatures of export_proof_item / parse_proof_rule are oracle only); the "
            "CONTEXTUAL restriction of Lark's lexer (the model is the standard lexer; they differ only on texts that NameOK / the printer's spacing "
            "exclude); the link term <-> skeleton (projection in the harness: names that are constants of the theory, binder renaming, over-applied "
            "operator heads); minimal type annotations; highlight colours.",
    "design_ref": "DESIGN.md 4/C07",
}
FINDINGS = [
    {"status": "known", "key": "reserved-word-identifier:" + k,
     "what": "a variable or bound name spelled like the grammar keyword %r is printed unquoted and the text does not parse back "
             "(the concrete syntax has no quoting for identifiers; no small fix)" % k} for k in KEYWORD_NAMES
] + [
    {"status": "known", "key": "internal-type-variable-name",
     "what": "a schematic type variable spelled like the internal variables of type inference (?'_t0) makes infer_printed_type loop "
             "(AssertionError) or is unified away when parsing: print_term(Abs('x', STVar('_t0'), Bound 0)) raises"},
    {"status": "known", "key": "inst-component-not-exported:var_inst",
     "what": "Inst.var_inst (used internally by the veriT reconstruction) has no concrete syntax: export_proof_item drops it"},
    {"status": "known", "key": "inst-component-not-exported:abs_name_inst",
     "what": "Inst.abs_name_inst (bound-name suggestions recorded by the matcher) has no concrete syntax: export_proof_item drops it"},
    {"status": "known", "key": "identifier-shadowed-by-constant",
     "what": "a free variable whose name is a constant of the current theory prints as that name and parses back as the constant "
             "(one namespace in the concrete syntax; no small fix)"},
    {"status": "fixed", "key": "roundtrip:operand-priority", "commit": "5db1677",
     "what": "printer priorities in syntax/operator.py disagreed with the grammar ladder: `ys @ (x # xs)` printed `ys @ x # xs`, `(~A) Mem S` printed "
             "`~A Mem S`, `(A > B) Mem S` printed `A > B Mem S`, `INT (UN S)` printed `INT UN S`"},
    {"status": "fixed", "key": "roundtrip:numeral-atom", "commit": "30fcdf5",
     "what": "`f (of_nat 1)` printed `f of_nat 1`, `x * (1 / 0)` printed `x * 1 / 0` (terms that merely evaluate to a natural number were treated as atoms)"},
    {"status": "fixed", "key": "roundtrip:extra-arguments", "commit": "d4abfe2",
     "what": "a prefix operator or binder constant applied to more than one argument lost arguments: `uminus f x` printed `-x`, `The P (%k. t)` printed `THE k. t`"},
    {"status": "fixed", "key": "roundtrip:annotation-on-operator", "commit": "4679e71",
     "what": "infer_printed_type chose the head constant of an operator application for the type annotation, which the printer cannot show: "
             "`-(netlimit (The trivial_limit))` printed without any annotation and did not parse"},
    {"status": "fixed", "key": "roundtrip:bound-name-is-constant", "commit": "d556ae7",
     "what": "the variant name chosen for a bound variable could be a constant of the theory (theory hoare: `P (%P. q P)` printed `P (%P1. q P1)` where P1 is a constant)"},
    {"status": "fixed", "key": "memo-history:nested-binder-names", "commit": "0e669fb",
     "what": "the printer memo key contained only the names of outermost binders: after printing `!x. ?y. R x y`, the alpha-variant `!x. ?z. R x z` printed as the former"},
    {"status": "fixed", "key": "memo-theory-history", "commit": "6ff5f42",
     "what": "the printer memo survived a change of theory: after load_theory('set') f (%P1. P1) printed 'f (%P1. P1)'; after set_context('hoare') "
             "(P1 is a constant there) the cached text was returned and did not parse; a fresh table prints 'f (%P11. P11)'"},
    {"status": "fixed", "key": "roundtrip:non-canonical-binary", "commit": "2b17665",
     "what": "of_nat (bit0 (bit1 zero)) :: real printed as (2::real), which parses to of_nat (bit0 one): binary numerals with leading zero bits "
             "(also inside Char) were printed as literals"},
    {"status": "fixed", "key": "print-raises:many-annotations", "commit": "e7ee29e",
     "what": "infer_printed_type gave up after 99 annotations: a conjunction of 101 copies of ([]::'a list) = [] raised AssertionError"},
    {"status": "fixed", "key": "roundtrip:char-underscore", "commit": "a3a8eb2",
     "what": "Char 95 prints as '_' and parse_term(\"'_'\") raised TypeError (the anonymous token \"_\" is filtered out of the parse tree)"},
    {"status": "fixed", "key": "item-roundtrip:inst-tyinst", "commit": "0164f1f",
     "what": "export_proof_item dropped the type part (Inst.tyinst) of an instantiation; it is now written {'a: T, x: t} and read back by parse_inst"},
    {"status": "fixed", "key": "roundtrip:char-string-literal", "commit": "61daea9",
     "what": "characters/strings outside the grammar's literal syntax (`Char 32`, the empty string, \"a b\") were printed as quoted literals that do not parse"},
]
