"""C15 — SAT solving and CNF encoding give correct verdicts with valid certificates.

Stages: (1) Lean obligations (Holpy.C15.Props) + driver; (2) correspondence: the real
`prover.sat.solve_cnf` against the Lean model on generated CNFs (the set orders the real run used
are recorded and handed to the model); (3) property oracle on the implementation: brute force
verdict, independent replay of the resolution trace, the verified Lean trace checker; (4) Tseitin:
regenerated `encode_*` truth tables (Gen.lean), and `tseitin.encode` checked + equisatisfiable.
"""
import itertools
import json
import os

from harness.common import sexp
from harness.common.ctx import Timeout, time_limit

EXE = "c15_model"
FUEL = 4000
MAX_TIMEOUTS = 6      # per batch: after that many 5 s timeouts the remaining cases are skipped
MAX_VIOLATIONS = 40   # per batch: further failing inputs are only counted
MAX_CONFIRM = 2       # timeouts re-run with a 60 s limit before being reported


# ------------------------------------------------------------------ generators
def lit_pool(nv):
    return [(v, b) for v in range(nv) for b in (True, False)]


def gen_ksat(rng, nv, nc, widths, dup=0.0):
    """Random clauses without unit/empty clauses: the solver has to decide, learn and backjump."""
    cnf = []
    for _ in range(nc):
        k = min(rng.choice(widths), nv)
        vs = rng.sample(range(nv), k)
        cl = [(v, rng.random() < 0.5) for v in vs]
        if dup and rng.random() < dup:                       # repeated / complementary literal
            v, b = rng.choice(cl)
            cl.insert(rng.randint(0, len(cl)), (v, b if rng.random() < 0.5 else not b))
        cnf.append(cl)
    return cnf


def gen_structured(rng):
    """Small hard families, clause and literal order shuffled, variables renamed."""
    kind = rng.randint(0, 3)
    if kind == 0:                                            # all 2^n sign patterns over n variables (minus a few)
        n = rng.randint(2, 4)
        cnf = [[(v, bool(bits >> v & 1)) for v in range(n)] for bits in range(2 ** n)]
        for _ in range(rng.choice([0, 0, 1, 2])):
            cnf.pop(rng.randrange(len(cnf)))
    elif kind == 1:                                          # pigeonhole: p pigeons, h holes
        h = rng.randint(2, 3)
        p = h + rng.choice([0, 1, 1])
        var = lambda i, j: i * h + j                         # noqa
        cnf = [[(var(i, j), True) for j in range(h)] for i in range(p)]
        cnf += [[(var(i, j), False), (var(k, j), False)] for j in range(h) for i in range(p) for k in range(i + 1, p)]
    elif kind == 2:                                          # parity chain x0^x1, x1^x2, ... with a contradictory or consistent end
        n = rng.randint(3, 6)
        cnf = []
        for v in range(n - 1):
            cnf += [[(v, True), (v + 1, True)], [(v, False), (v + 1, False)]]
        a, b = (True, True) if (n % 2 == 1) == (rng.random() < 0.5) else (True, False)
        cnf += [[(0, a), (n - 1, b)], [(0, not a), (n - 1, not b)]]
    else:                                                    # implication ladder ending in a conflict deep below the decisions
        n = rng.randint(3, 6)
        cnf = [[(v, False), (v + 1, True)] for v in range(n - 1)]
        cnf += [[(n - 1, False), (n, True), (n + 1, True)], [(n - 1, False), (n, False), (n + 1, True)],
                [(n - 1, False), (n, True), (n + 1, False)], [(n - 1, False), (n, False), (n + 1, False)]]
        if rng.random() < 0.5:
            cnf.append([(0, True), (n, True)])
    cnf = [rng.sample(cl, len(cl)) for cl in cnf]
    rng.shuffle(cnf)
    names = list({v for cl in cnf for v, _ in cl})
    perm = dict(zip(names, rng.sample(names, len(names))))
    flip = {v: rng.random() < 0.3 for v in names}
    return [[(perm[v], b != flip[v]) for v, b in cl] for cl in cnf]


def gen_messy(rng):
    """Anything goes: unit and empty clauses, repeated and complementary literals, repeated clauses."""
    r = rng.random()
    if r < 0.5:
        nv, nc, w = rng.randint(1, 4), rng.randint(0, 8), 3
    else:
        nv, nc, w = rng.randint(3, 8), rng.randint(4, 30), 4
    pool = lit_pool(nv)
    cnf = []
    for _ in range(nc):
        k = rng.choice([1, 2, 2, 2, 3, 3, 3, w]) if rng.random() < 0.97 else 0
        cl = [rng.choice(pool) for _ in range(k)]            # duplicates and tautologies on purpose
        if rng.random() < 0.6:
            cl = list(dict.fromkeys(cl))
        cnf.append(cl)
    if rng.random() < 0.3 and cnf:                           # duplicate clauses
        cnf.append(list(rng.choice(cnf)))
    return cnf


def gen_random(rng, n):
    out = []
    for _ in range(n):
        r = rng.random()
        if r < 0.20:
            out.append(gen_messy(rng))
        elif r < 0.35:
            out.append(gen_structured(rng))
        elif r < 0.60:                                       # 3-SAT around the threshold
            nv = rng.randint(3, 9)
            out.append(gen_ksat(rng, nv, int(nv * rng.uniform(3.5, 6.5)), [3], dup=0.05))
        elif r < 0.85:                                       # mixed 2/3-SAT: long propagation chains
            nv = rng.randint(3, 10)
            out.append(gen_ksat(rng, nv, int(nv * rng.uniform(1.8, 4.0)), [2, 2, 3, 3, 4], dup=0.05))
        else:                                                # larger
            nv = rng.randint(8, 12)
            out.append(gen_ksat(rng, nv, rng.randint(25, 60), [2, 3, 3, 3, 4], dup=0.02))
    return out


def gen_history(rng, k):
    """Histories for one process: the same clause set presented again in another clause order, with the literals of every
    clause reversed, with a clause repeated, with a literal repeated, and once more unchanged.  Every answer is judged
    against ITS OWN input (a result remembered from an earlier call names the wrong clauses)."""
    out = []
    bases = [[[(0, True)], [(0, False), (1, True)], [(1, False), (2, True)], [(0, False), (2, False)]],
             [[(0, True), (1, True)], [(0, False), (1, True)], [(0, True), (1, False)], [(0, False), (1, False)]]]
    while len(bases) < k:
        nv = rng.randint(3, 6)
        bases.append(gen_ksat(rng, nv, int(nv * rng.uniform(4.0, 6.0)), [2, 3, 3]))
    for base in bases[:k]:
        perm = rng.sample(base, len(base))
        rev = [list(reversed(cl)) for cl in base]
        dupc = base[:1] + base if base else base
        dupl = [cl + cl[:1] for cl in base]
        rot = base[1:] + base[:1]
        out += [base, perm, rev, dupc, dupl, rot, list(reversed(base)), base]
    return out


def gen_exhaustive(max_clauses):
    """All clause *lists* (as combinations, in pool order) over 3 variables: clauses are the
    multisets of width <= 3 over 6 literals written in a fixed order (84 of them)."""
    pool = lit_pool(3)
    clauses = [list(c) for w in range(0, 4) for c in itertools.combinations_with_replacement(pool, w)]
    for k in range(0, max_clauses + 1):
        for combo in itertools.combinations(clauses, k):
            yield [list(c) for c in combo]


def gen_exhaustive_sets(k):
    """All k-clause combinations of the 42 clause *sets* of width <= 3 over 3 variables."""
    pool = lit_pool(3)
    clauses = [list(c) for w in range(0, 4) for c in itertools.combinations(pool, w)]
    for combo in itertools.combinations(clauses, k):
        yield [list(c) for c in combo]


# ------------------------------------------------------------------ implementation side
def name_of(i):
    return "v%d" % i


def run_impl(sat, cnf, limit):
    """Returns (canonical result, decision order, recorded resolution results).  cnf uses int names; converted to
    strings.  The set orders are recorded by wrapping `sat.resolution` when the module still has such a function."""
    pcnf = [[(name_of(n), b) for (n, b) in cl] for cl in cnf]
    variables = set()
    for clause in pcnf:
        for name, _ in clause:
            variables.add(name)
    var_order = [int(v[1:]) for v in variables]
    rec = []
    orig = getattr(sat, "resolution", None)

    def wrapped(c1, c2, name):
        r = orig(c1, c2, name)
        rec.append([(int(n[1:]), b) for (n, b) in r])
        return r
    if callable(orig):
        sat.resolution = wrapped
    snapshot = json.dumps(pcnf)
    try:
        with time_limit(limit):
            res = sat.solve_cnf(pcnf)
    except Timeout:
        return ("timeout",), var_order, rec
    except Exception as e:  # noqa
        return ("raise", type(e).__name__), var_order, rec
    finally:
        if callable(orig):
            sat.resolution = orig
    if json.dumps(pcnf) != snapshot:
        INPUT_MODIFIED.append(cnf)                           # not required by the property: counted, not reported
    try:
        if res[0] == "satisfiable":
            return ("sat", sorted((int(n[1:]), bool(b)) for n, b in res[1].items())), var_order, rec
        elif res[0] == "unsatisfiable":
            return ("unsat", sorted((int(k), [int(x) for x in v]) for k, v in res[1].items())), var_order, rec
    except Exception:  # noqa
        pass
    return ("other", repr(res)), var_order, rec


INPUT_MODIFIED = []
UNSAT_TRACES = []


# ------------------------------------------------------------------ independent oracles
def brute_sat(cnf):
    vs = sorted({n for cl in cnf for n, _ in cl})
    if len(vs) > 16:
        return None
    for bits in itertools.product((False, True), repeat=len(vs)):
        a = dict(zip(vs, bits))
        if all(any(a[n] == b for n, b in cl) for cl in cnf):
            return True
    return False


def satisfies(cnf, asg):
    a = dict(asg)
    return all(any(n in a and a[n] == b for n, b in cl) for cl in cnf)


def replay_trace(cnf, proofs):
    """Independent check of an 'unsatisfiable' answer: returns (ok, why, final clause list)."""
    clauses = [list(dict.fromkeys(cl)) for cl in cnf]
    n0 = len(clauses)
    for k, (cid, proof) in enumerate(proofs):
        if cid != n0 + k:
            return False, "learned ids not consecutive", clauses
        if not proof or any(not (0 <= i < n0 + k) for i in proof):
            return False, "proof cites a clause that does not exist yet", clauses
        cur = list(clauses[proof[0]])
        for j in proof[1:]:
            d = clauses[j]
            piv = [l for l in cur if (l[0], not l[1]) in d]
            if not piv:
                return False, "no clashing literal between consecutive clauses", clauses
            n, b = piv[0]
            if any(x[0] == n and x[1] != b for x in cur) or any(x[0] == n and x[1] == b for x in d):
                return False, "pivot occurs with both signs", clauses
            cur = list(dict.fromkeys([l for l in cur if l[0] != n] + [l for l in d if l[0] != n]))
        clauses.append(cur)
    if not proofs or clauses[-1] != []:
        return False, "last learned clause is not empty", clauses
    return True, "", clauses


# ------------------------------------------------------------------ wire
def s_clause(cl):
    return [[n, bool(b)] for n, b in cl]


def s_cnf(cnf):
    return [s_clause(cl) for cl in cnf]


def parse_model(line):
    x = sexp.loads(line)
    if x == "bad-op":
        return ("bad-op",)
    if x[0] == "sat":
        return ("sat", sorted((int(n), b == "T") for n, b in x[1]))
    if x[0] == "unsat":
        return ("unsat", sorted((int(i), [int(j) for j in p]) for i, p in x[2]))
    if x[0] == "error":
        return ("error", x[1])
    return ("?", line)


# ------------------------------------------------------------------ tseitin
def is_connective(t):
    """The connectives `tseitin.encode` is meant to decompose: an equality only between booleans."""
    from kernel.type import BoolType
    if t.is_equals():
        return t.arg.get_type() == BoolType
    return t.is_not() or t.is_conj() or t.is_disj() or t.is_implies()


def is_const_tf(t):
    from kernel import term as T
    return t == T.true or t == T.false


def eval_form(t, env):
    """env: str(atom) -> bool."""
    from kernel import term as T
    if t == T.true:
        return True
    if t == T.false:
        return False
    if is_connective(t):
        if t.is_not():
            return not eval_form(t.arg, env)
        if t.is_conj():
            return eval_form(t.arg1, env) and eval_form(t.arg, env)
        if t.is_disj():
            return eval_form(t.arg1, env) or eval_form(t.arg, env)
        if t.is_implies():
            return (not eval_form(t.arg1, env)) or eval_form(t.arg, env)
        return eval_form(t.arg1, env) == eval_form(t.arg, env)
    return env[str(t)]


def atoms_of(t, acc):
    """atoms (as strings) of a formula; a non-boolean equality such as m = n is one atom"""
    if is_const_tf(t):
        return acc
    if is_connective(t):
        if not t.is_not():
            atoms_of(t.arg1, acc)
        atoms_of(t.arg, acc)
    else:
        acc.add(str(t))
    return acc


class Names:
    """Name space shared with the model: the name x<k> is 2k, any other name or non-variable atom an odd number."""
    def __init__(self):
        self.other = {}

    def code(self, name):
        if len(name) >= 2 and name[0] == "x" and name[1:].isdigit() and str(int(name[1:])) == name[1:]:
            return 2 * int(name[1:])
        return self.other.setdefault(name, 2 * len(self.other) + 1)

    def decode_aux(self, name):
        return self.code(name) if name[:1] == "x" and name[1:].isdigit() else -1


def form_sexp(t, names, extra=None):
    """holpy term -> wire form of the model's `Form`; `extra` collects the names of variables inside atoms that are
    not variables."""
    from kernel import term as T
    if t == T.true:
        return "tt"
    if t == T.false:
        return "ff"
    if is_connective(t):
        if t.is_not():
            return ["not", form_sexp(t.arg, names, extra)]
        tag = "and" if t.is_conj() else "or" if t.is_disj() else "imp" if t.is_implies() else "iff"
        return [tag, form_sexp(t.arg1, names, extra), form_sexp(t.arg, names, extra)]
    if t.is_var():
        return ["atom", names.code(t.name)]
    if extra is not None:
        extra.extend(names.code(v.name) for v in t.get_vars())
    return ["atom", names.code("@" + str(t))]


def canon_clauses(cnf):
    """A CNF as a set of clauses, each clause a sorted tuple of distinct literals."""
    return sorted({tuple(sorted(set((int(n), bool(b)) for n, b in cl))) for cl in cnf})


def make_atoms(T):
    from kernel.type import BoolType, NatType
    B = lambda n: T.Var(n, BoolType)                         # noqa
    N = lambda n: T.Var(n, NatType)                          # noqa
    plain = [B(n) for n in "abcd"]
    clash = [B("x%d" % i) for i in range(1, 7)]              # names of the shape encode generates
    near = [B("x"), B("x0"), B("x01"), B("y1"), B("x10")]
    opaque = [T.Eq(N("m"), N("n")), T.Eq(N("x2"), N("n")), T.Eq(N("x3"), N("x4")), T.Eq(N("m"), N("m"))]
    return plain, clash, near, opaque


def gen_formula(rng, depth, atoms, T, consts=0.0):
    if depth == 0 or rng.random() < 0.25:
        if rng.random() < consts:
            return rng.choice([T.true, T.false])
        return rng.choice(atoms)
    k = rng.randint(0, 4)
    if k == 0:
        return T.Not(gen_formula(rng, depth - 1, atoms, T, consts))
    a, b = gen_formula(rng, depth - 1, atoms, T, consts), gen_formula(rng, depth - 1, atoms, T, consts)
    return [None, T.And, T.Or, T.Implies, T.Eq][k](a, b)


def gen_unsat_formula(rng, atoms, T, consts=0.0):
    """Negated instance of a tautology scheme (or a direct contradiction): unsatisfiable, and for a reason that goes
    through every connective's defining clauses."""
    g = gen_formula(rng, rng.randint(0, 1), atoms, T, consts)
    h = gen_formula(rng, rng.randint(0, 1), atoms, T, consts)
    k = gen_formula(rng, 0, atoms, T, consts)
    N, A, O, I, E = T.Not, T.And, T.Or, T.Implies, T.Eq
    schemes = [
        lambda: A(g, N(g)), lambda: N(O(g, N(g))), lambda: N(I(g, g)), lambda: E(g, N(g)), lambda: N(E(g, g)),
        lambda: N(I(A(g, h), g)), lambda: N(I(A(g, h), h)), lambda: N(I(g, O(g, h))), lambda: N(I(h, O(g, h))),
        lambda: N(I(A(I(g, h), g), h)), lambda: N(I(E(g, h), E(h, g))), lambda: N(E(N(A(g, h)), O(N(g), N(h)))),
        lambda: N(E(N(O(g, h)), A(N(g), N(h)))), lambda: N(E(I(g, h), O(N(g), h))), lambda: A(O(g, h), A(N(g), N(h))),
        lambda: N(I(A(E(g, h), E(h, k)), E(g, k))), lambda: A(E(g, h), A(g, N(h))), lambda: A(I(g, h), A(g, N(h))),
        lambda: N(E(N(N(g)), g)), lambda: A(E(g, h), A(N(g), h)),
        lambda: A(g, T.false), lambda: N(O(g, T.true)), lambda: E(T.true, T.false), lambda: N(I(T.false, g)),
        lambda: A(E(g, T.true), N(g)), lambda: A(E(g, T.false), g),
    ]
    return rng.choice(schemes)()


def classify_formula(f):
    """Class of a formula for violation keys: which of the once-broken constructs it contains."""
    import re
    names = {v.name for v in f.get_vars()}
    tags = []
    if any(re.fullmatch(r"x[1-9][0-9]*", n) for n in names):
        tags.append("atom-named-like-auxiliary")
    if any(is_const_tf(t) for t in subterms_all(f)):
        tags.append("true-false-constant")
    if any(t.is_equals() and not is_connective(t) for t in subterms_all(f)):
        tags.append("non-boolean-equality-atom")
    return "+".join(tags) if tags else str(f)


def has_twin_args(f):
    """a binary connective applied to two identical arguments: its Tseitin clauses repeat a literal"""
    return any(is_connective(t) and not t.is_not() and t.arg1 == t.arg for t in subterms_all(f))


def subterms_all(t):
    out = [t]
    if is_connective(t):
        if not t.is_not():
            out += subterms_all(t.arg1)
        out += subterms_all(t.arg)
    return out


def proofterm_instances(pt, names, ctx):
    """The instantiated library theorems in the exported proof term of tseitin.encode: [(theorem, variable codes)], or None
    when the export no longer has the theorem/substitution shape (then nothing is compared)."""
    try:
        prf = pt.export()
        items = {str(it.id): it for it in prf.items}
        out = []
        for it in prf.items:
            ctx.count("tseitin:proofterm-rule:%s" % it.rule)
            if it.rule == "substitution" and len(it.prevs) == 1:
                prev = items.get(str(it.prevs[0]))
                if prev is not None and prev.rule == "theorem":
                    out.append((str(prev.args), tuple(names.code(it.args[k].name) for k in sorted(it.args.keys()))))
        return sorted(set(out))
    except Exception:  # noqa
        ctx.count("tseitin:proofterm-shape-unreadable")
        return None


def proofterm_spine(pt, names):
    """The spine of tseitin.encode's ProofTerm, first line first: [(rule, sorted hypothesis wire forms, conclusion wire form)].
    rule: assume | rewr-hyp-sym (equal_elim whose equation cites an assumed equation) | conjI (apply_theorem) |
    encode_* / eq_true / eq_false (equal_elim whose equation cites that library theorem) | conj_norm (equal_elim built from
    imp_conj).  None when the term no longer has that shape."""
    out = []
    for _ in range(10000):
        seq = (sorted(set(sexp.dumps(form_sexp(h, names)) for h in pt.hyps)), sexp.dumps(form_sexp(pt.prop, names)))
        if pt.rule == "equal_elim" and len(pt.prevs) == 2:
            eq, src = pt.prevs
            cited, stack, seen = set(), [eq], set()
            while stack:
                q = stack.pop()
                if id(q) in seen:
                    continue
                seen.add(id(q))
                if q.rule == "theorem":
                    cited.add(str(q.args))
                elif q.rule == "assume":
                    cited.add("rewr-hyp-sym")
                elif q.rule == "imp_conj":
                    cited.add("conj_norm")
                stack.extend(q.prevs)
            out.append(("+".join(sorted(cited)),) + seq)
            pt = src
        elif pt.rule == "apply_theorem" and len(pt.prevs) == 2:
            out.append((str(pt.args),) + seq)
            pt = pt.prevs[1]
        elif pt.rule == "assume":
            out.append(("assume",) + seq)
            return list(reversed(out))
        else:
            return None
    return None


def model_spine(line):
    """The model's script lines in the same shape; lines that change nothing are dropped (ProofTerm.equal_elim returns the
    theorem itself for a reflexive equation)."""
    out = []
    for item in sexp.loads(line):
        rule = item[0]
        if item[1] == "none":
            out.append((rule, None, None))
            continue
        seq = (sorted(set(sexp.dumps(h) for h in item[1])), sexp.dumps(item[2]))
        if out and rule not in ("assume", "conjI") and out[-1][1:] == seq:
            continue
        out.append((rule,) + seq)
    return out


def expected_instances(hyps):
    """From the model's equations: x <--> y & z is encode_conj[l=x, r1=y, r2=z] and so on; x <--> true is eq_true[A=x]."""
    out = []
    rule = {"and": "encode_conj", "or": "encode_disj", "imp": "encode_imp", "iff": "encode_eq", "not": "encode_not"}
    for h in hyps:
        if isinstance(h, list) and h[0] == "iff" and isinstance(h[1], list) and h[1][0] == "atom":
            x, rhs = int(h[1][1]), h[2]
            if rhs == "tt":
                out.append(("eq_true", (x,)))
            elif rhs == "ff":
                out.append(("eq_false", (x,)))
            elif isinstance(rhs, list) and rhs[0] in rule and all(isinstance(t, list) and t[0] == "atom" for t in rhs[1:]):
                out.append((rule[rhs[0]], (x,) + tuple(int(t[1]) for t in rhs[1:])))
    return set(out)


def tseitin_stage(ctx, only=None):
    from kernel import term as T, theory, report
    from kernel.type import BoolType
    from logic import basic
    from prover import tseitin
    basic.load_theory('sat')
    rng = ctx.rng("tseitin")
    plain, clash, near, opaque = make_atoms(T)
    a, b = plain[0], plain[1]
    x1, x2 = clash[0], clash[1]
    n = ctx.scale(70, 400)
    lines, impl_cnfs = [], []
    fixed = [a, T.And(a, a), T.Eq(a, b), T.Not(T.Not(a)),
             T.Or(T.And(a, T.Not(a)), b), T.Implies(T.And(a, b), T.And(a, b)),
             T.And(a, T.Not(x1)), T.And(x1, T.Not(a)), T.Or(x2, T.And(x1, a)), T.Eq(x1, T.Not(x2)), x1,
             T.true, T.false, T.Not(T.true), T.And(a, T.false), T.Or(a, T.true), T.Eq(a, T.true), T.Implies(T.false, a),
             opaque[0], T.And(a, opaque[0]), T.Not(opaque[1]), T.Eq(opaque[2], a), T.And(opaque[3], T.Not(opaque[0]))]
    x3, x4 = clash[2], clash[3]
    fixed += [T.And(x1, x2), T.Or(x1, T.And(x2, x3)), T.Implies(T.And(x1, x2), T.Or(x3, x4)), T.And(T.Not(x2), T.Or(x3, a)),
              T.Eq(T.And(x1, x2), T.And(x2, x1)), T.Not(T.Implies(T.And(x1, T.And(x2, x3)), x2))]
    # atoms taken from an earlier encoding's output: the clauses of encode(a & b --> a | b) as a formula
    try:
        prev = tseitin.convert_cnf(tseitin.encode(T.Implies(T.And(a, b), T.Or(a, b))).prop)
        lit = lambda nm, bv: T.Var(nm, BoolType) if bv else T.Not(T.Var(nm, BoolType))  # noqa
        cls = [T.Or(*[lit(nm, bv) for nm, bv in cl]) for cl in prev]
        fixed += [T.And(*cls[:3]), T.And(*cls), T.Not(T.And(*cls[:4]))]
    except Exception:  # noqa
        pass
    if only is not None:
        fixed, n = [t for t in only], 0
    for i in range(n + len(fixed)):
        if i < len(fixed):
            f = fixed[i]
        else:
            r = rng.random()
            pool = plain if r < 0.3 else plain[:2] + clash if r < 0.65 else plain[:2] + clash[:3] + near if r < 0.8 else plain[:2] + clash[:2] + opaque
            consts = 0.15 if rng.random() < 0.4 else 0.0
            if rng.random() < 0.45:
                f = gen_unsat_formula(rng, pool, T, consts)
            else:
                f = gen_formula(rng, rng.randint(1, 3), pool, T, consts)
        names = Names()
        ctx.case(("tseitin", str(f)), nontrivial=is_connective(f))
        ctx.count("tseitin")
        cls = classify_formula(f)
        if cls != str(f):
            ctx.count("tseitin:" + cls)
        if any(not t.is_var() and not is_connective(t) and not is_const_tf(t) for t in subterms_all(f)):
            ctx.count("tseitin:non-variable-atom")
        rp = {"formula": str(f), "term": repr_term(f)}
        try:
            with time_limit(120):
                pt = tseitin.encode(f)
                rpt = report.ProofReport()
                th = theory.check_proof(pt.export(), rpt, check_level=1)
        except Timeout:
            raise
        except Exception as e:  # noqa
            ctx.violation("tseitin:raise:%s:%s" % (type(e).__name__, cls), "tseitin.encode / check_proof raised %s on %s" % (type(e).__name__, f),
                          dict(rp, error=repr(e)))
            continue
        if th != pt.th or len(rpt.gaps) > 0:
            ctx.violation("tseitin:not-checked:%s" % cls, "Tseitin theorem for %s not accepted by the checker" % f, rp)
            continue
        # Semantic oracle: hyps are As (x_i <-> ...) and F; conclusion is the CNF.
        try:
            cnf = tseitin.convert_cnf(pt.prop)
            assert all(isinstance(nm, str) and isinstance(bv, bool) for cl in cnf for nm, bv in cl)
        except Exception as e:  # noqa
            ctx.violation("tseitin:not-cnf:%s" % cls, "conclusion of Tseitin theorem for %s is not a CNF: %s" % (f, pt.prop), dict(rp, prop=str(pt.prop)))
            continue
        # correspondence with the model's clause set: same numbering of the subterms, same name space
        try:
            order = tseitin.logic_subterms(f)
            extra = []
            fx = form_sexp(f, names, extra)
            lines.append(sexp.dumps(["tseitin", fx, sorted(set(extra)), [form_sexp(g, names) for g in order]]))
            lines.append(sexp.dumps(["tseitin-hyps", fx, sorted(set(extra)), [form_sexp(g, names) for g in order]]))
            lines.append(sexp.dumps(["tseitin-script", fx, sorted(set(extra)), [form_sexp(g, names) for g in order], form_sexp(pt.prop, names)]))
            try:
                spine = proofterm_spine(pt, names)
            except Exception:  # noqa
                spine = None
            impl_cnfs.append((str(f), [[(names.decode_aux(nm), bv) for nm, bv in cl] for cl in cnf],
                              sorted(sexp.dumps(form_sexp(h, names)) for h in pt.hyps),
                              proofterm_instances(pt, names, ctx), spine))
        except Exception as e:  # noqa
            ctx.broken("correspondence:c15:tseitin", "cannot read the subterm numbering of %s: %r" % (f, e))
        f_atoms = sorted(atoms_of(f, set()))
        f_sat = any(eval_form(f, dict(zip(f_atoms, bits))) for bits in itertools.product((False, True), repeat=len(f_atoms)))
        cnames = sorted({nm for cl in cnf for nm, _ in cl})
        if len(cnames) <= 18:
            c_sat = False
            for bits in itertools.product((False, True), repeat=len(cnames)):
                asg = dict(zip(cnames, bits))
                if all(any(asg[nm] == bv for nm, bv in cl) for cl in cnf):
                    c_sat = True
                    break
            ctx.count("tseitin:formula-%s" % ("sat" if f_sat else "unsat"))
            if c_sat != f_sat:
                ctx.violation("tseitin:not-equisat:%s" % cls, "Tseitin CNF of %s is %ssatisfiable but the formula is %ssatisfiable" % (f, "" if c_sat else "un", "" if f_sat else "un"),
                              dict(rp, tseitin_cnf=cnf))
        # the sequent itself must be valid: every assignment satisfying all hyps satisfies the CNF
        hyp_atoms = set()
        for h in pt.hyps:
            atoms_of(h, hyp_atoms)
        allv = sorted(set(cnames) | set(f_atoms) | hyp_atoms)
        if len(allv) <= 16:
            for bits in itertools.product((False, True), repeat=len(allv)):
                asg = dict(zip(allv, bits))
                if all(eval_form(h, asg) for h in pt.hyps) and not all(any(asg[nm] == bv for nm, bv in cl) for cl in cnf):
                    ctx.violation("tseitin:invalid-sequent:%s" % cls, "Tseitin theorem for %s is not valid" % f, dict(rp, assignment=asg))
                    break
    ctx.sample({"tseitin_formula": str(f)})
    out = ctx.lean_driver(EXE, lines) if lines else []
    if out is None:
        ctx.broken("correspondence:c15:driver", "model driver unavailable (tseitin)")
        return
    ndis = 0
    for (fs, icnf, ihyps, iinst, ispine), line, hline, sline in zip(impl_cnfs, out[0::3], out[1::3], out[2::3]):
        # the proof term line by line: rule / cited theorem, hypotheses and conclusion of every node on the spine of the real
        # ProofTerm against the model's script (which the model's checker Prf.check must accept up to the last line)
        if ispine is None:
            ctx.count("tseitin:proofterm-spine-unreadable")
        else:
            try:
                mspine = model_spine(sline)
            except Exception:  # noqa
                mspine = sline
            ctx.count("tseitin:proofterm-script-compared")
            if mspine != ispine:
                ndis += 1
                if ndis <= 3:
                    k = next((i for i, (x, y) in enumerate(zip(mspine, ispine)) if x != y), min(len(mspine), len(ispine))) if isinstance(mspine, list) else 0
                    ctx.broken("correspondence:c15:tseitin-script", "formula=%s first difference at line %d: impl=%s model=%s" % (
                        fs, k, ispine[k] if k < len(ispine) else None, mspine[k] if isinstance(mspine, list) and k < len(mspine) else mspine))
        # the proof term, rule by rule where it matters: which encode_* / eq_true / eq_false theorem is instantiated
        # with which variables must be what the model's equations say (one instance per equation x <--> op(y, z))
        if iinst is not None:
            try:
                want = sorted(expected_instances(sexp.loads(hline)[:-1]))   # the last hypothesis is the formula itself
            except Exception:  # noqa
                want = None
            ctx.count("tseitin:proofterm-instances-compared")
            if want != iinst:
                ndis += 1
                if ndis <= 3:
                    ctx.broken("correspondence:c15:tseitin-proofterm", "formula=%s impl=%s model=%s" % (fs, iinst, want))
        ctx.count("tseitin:cnf-compared")
        # the whole statement of the theorem: hypotheses x_i <--> ... and the formula
        try:
            mh = sorted(set(sexp.dumps(h) for h in sexp.loads(hline)))
        except Exception:  # noqa
            mh = hline
        ctx.count("tseitin:hyps-compared")
        if mh != ihyps:
            ndis += 1
            if ndis <= 3:
                ctx.broken("correspondence:c15:tseitin-hyps", "formula=%s impl=%s model=%s" % (fs, ihyps, mh))
                ctx.coverage["disagreements_checked"] += 1
        try:
            m = canon_clauses([[(n_, b_ == "T") for n_, b_ in cl] for cl in sexp.loads(line)])
        except Exception:  # noqa
            m = line
        if m != canon_clauses(icnf):
            ndis += 1
            if ndis <= 3:
                ctx.broken("correspondence:c15:tseitin", "formula=%s impl=%s model=%s" % (fs, canon_clauses(icnf), m))
                ctx.coverage["disagreements_checked"] += 1


def repr_term(t):
    """A formula as nested lists from which `term_of_repr` rebuilds it (replays)."""
    from kernel import term as T
    if t == T.true:
        return "true"
    if t == T.false:
        return "false"
    if is_connective(t):
        if t.is_not():
            return ["not", repr_term(t.arg)]
        tag = "and" if t.is_conj() else "or" if t.is_disj() else "imp" if t.is_implies() else "iff"
        return [tag, repr_term(t.arg1), repr_term(t.arg)]
    if t.is_var():
        return ["var", t.name, str(t.T)]
    if t.is_equals():
        return ["eq", repr_term(t.arg1), repr_term(t.arg)]
    raise ValueError("atom not supported in replays: %s" % t)


def term_of_repr(x):
    from kernel import term as T
    from kernel.type import BoolType, NatType
    if x == "true":
        return T.true
    if x == "false":
        return T.false
    if x[0] == "var":
        return T.Var(x[1], BoolType if x[2] == "bool" else NatType)
    if x[0] == "not":
        return T.Not(term_of_repr(x[1]))
    if x[0] == "eq":
        return T.Eq(term_of_repr(x[1]), term_of_repr(x[2]))
    return {"and": T.And, "or": T.Or, "imp": T.Implies, "iff": T.Eq}[x[0]](term_of_repr(x[1]), term_of_repr(x[2]))


# ------------------------------------------------------------------ replay by logic.resolution (zChaff / proofrec)
def clause_term(T, cl, var):
    lits = [var(n) if b else T.Not(var(n)) for n, b in cl]
    return T.Or(*lits)


def clause_of_prop(T, prop):
    """literal set of the clause a replayed theorem states (`false` = empty clause)"""
    if prop == T.false:
        return []
    out = []
    for lit in prop.strip_disj():
        if lit.is_not():
            out.append((int(lit.arg.name[1:]), False))
        else:
            out.append((int(lit.name[1:]), True))
    return out


def entails(premises, concl):
    vs = sorted({n for cl in premises + [concl] for n, _ in cl})
    for bits in itertools.product((False, True), repeat=len(vs)):
        a = dict(zip(vs, bits))
        if all(any(a[n] == b for n, b in cl) for cl in premises) and not any(a[n] == b for n, b in concl):
            return False
    return True


def replay_stage(ctx, sat, unsat_cases):
    """(c) the replay primitive `logic.resolution`, the replay loop on traces of our solver, and
    `proofrec.solve_cnf` end to end."""
    from kernel import term as T, theory, report
    from kernel.type import BoolType
    from kernel.proofterm import ProofTerm
    from logic import basic, logic
    basic.load_theory('sat')
    rng = ctx.rng("replay")
    var = lambda n: T.Var("v%d" % n, BoolType)               # noqa
    # R1: single steps
    pairs = [([(0, False), (1, True)], [(1, False), (0, True)]), ([(0, False), (1, False)], [(1, True), (0, True)]),
             ([(0, True), (1, True), (0, True)], [(0, False)]), ([(0, True)], [(0, False)]), ([(0, True), (1, True)], [(2, True), (1, True)])]
    for _ in range(ctx.scale(150, 1500)):
        nv = rng.randint(1, 4)
        mk = lambda: [(rng.randrange(nv), rng.random() < 0.5) for _ in range(rng.randint(1, 4))]  # noqa
        pairs.append((mk(), mk()))
    lines, impl = [], []
    for c, d in pairs:
        ctx.case(("resolution", c, d), nontrivial=len(c) + len(d) > 2)
        try:
            with time_limit(20):
                r = logic.resolution(ProofTerm.assume(clause_term(T, c, var)), ProofTerm.assume(clause_term(T, d, var)))
                res = ("clause", clause_of_prop(T, r.prop))
        except AssertionError:
            res = ("none",)
        except Timeout:
            raise
        except BaseException as e:  # noqa  (RecursionError is not an Exception subclass problem, but be safe)
            res = ("raise", type(e).__name__)
        ctx.count("replay:step:%s" % res[0])
        if res[0] == "raise":
            ctx.violation("replay:crash:%s:two-clashing-pairs" % res[1], "logic.resolution raised %s on the clauses %s, %s" % (res[1], c, d), {"clauses": [c, d], "kind": "resolution-step"})
            continue
        if res[0] == "clause" and not entails([c, d], res[1]):
            ctx.violation("replay:unsound-step:%s" % json.dumps([c, d]), "logic.resolution derived %s from %s, %s, which does not follow" % (res[1], c, d), {"clauses": [c, d], "kind": "resolution-step"})
            continue
        lines.append(sexp.dumps(["macro-resolve", s_clause(c), s_clause(d)]))
        impl.append((c, d, res))
    out = ctx.lean_driver(EXE, lines) if lines else []
    ndis = 0
    for (c, d, res), line in zip(impl, out or []):
        m = ("none",) if line == "none" else ("clause", sorted(set((int(n), b == "T") for n, b in sexp.loads(line))))
        r = res if res[0] == "none" else ("clause", sorted(set(res[1])))
        if m != r:
            ndis += 1
            if ndis <= 3:
                ctx.broken("correspondence:c15:resolution-step", "clauses=%s,%s impl=%s model=%s" % (c, d, r, m))
    # R2: the replay loop on the traces of solve_cnf (as proofrec.solve_cnf and zChaff.solve run it)
    lines, impl = [], []
    for cnf, proofs in unsat_cases:
        base = [list(dict.fromkeys(cl)) for cl in cnf]
        if any(len(cl) == 0 for cl in base):
            continue
        ctx.count("replay:trace")
        try:
            with time_limit(60):
                pts = [ProofTerm.assume(clause_term(T, cl, var)) for cl in base]
                for _, steps in proofs:
                    pt = pts[steps[0]]
                    for st in steps[1:]:
                        pt = logic.resolution(pt, pts[st])
                    pts.append(pt)
                derived = [clause_of_prop(T, pt.prop) for pt in pts[len(base):]]
                res = ("ok", derived)
        except Timeout:
            raise
        except BaseException as e:  # noqa
            res = ("raise", type(e).__name__)
        if res[0] == "raise" or res[1][-1] != []:
            ctx.violation("replay:trace-not-replayable:%s" % json.dumps(cnf), "replaying the trace of solve_cnf on %s with logic.resolution gives %s" % (cnf, res),
                          {"cnf": cnf, "kind": "trace-replay", "result": res})
            continue
        lines.append(sexp.dumps(["zreplay", s_cnf(base), [p for _, p in proofs]]))
        impl.append((cnf, derived))
    out = ctx.lean_driver(EXE, lines) if lines else []
    for (cnf, derived), line in zip(impl, out or []):
        n0 = len(cnf)
        m = None if line == "none" else [sorted(set((int(n), b == "T") for n, b in cl)) for cl in sexp.loads(line)][n0:]
        if m != [sorted(set(cl)) for cl in derived]:
            ndis += 1
            if ndis <= 3:
                ctx.broken("correspondence:c15:replay", "cnf=%s impl=%s model=%s" % (cnf, derived, m))
    # R3: proofrec.solve_cnf end to end: encode(~F), solve_cnf, replay, discharge the definitions
    try:
        from prover import proofrec
    except Exception as e:  # noqa
        ctx.count("replay:proofrec-not-importable")
        return
    plain, clash, near, opaque = make_atoms(T)
    for i in range(ctx.scale(18, 120)):
        pool = plain if rng.random() < 0.6 else plain[:2] + clash[:3]
        if rng.random() < 0.6:
            F = T.Not(gen_unsat_formula(rng, pool, T, 0.1 if rng.random() < 0.3 else 0.0))
        else:
            F = gen_formula(rng, rng.randint(1, 2), pool, T)
        atoms = sorted(atoms_of(F, set()))
        taut = all(eval_form(F, dict(zip(atoms, bits))) for bits in itertools.product((False, True), repeat=len(atoms)))
        ctx.case(("proofrec", str(F)), nontrivial=True)
        rp = {"formula": str(F), "term": repr_term(F), "kind": "proofrec"}
        try:
            with time_limit(120):
                pt = proofrec.solve_cnf(F)
                rpt = report.ProofReport()
                th = theory.check_proof(pt.export(), rpt, check_level=1)
            ok = (pt.prop == F and len(pt.hyps) == 0 and th == pt.th and len(rpt.gaps) == 0)
            res = "proved" if ok else "bad-theorem"
        except AssertionError:
            res = "not-provable"
        except Timeout:
            raise
        except BaseException as e:  # noqa
            res = "raise:" + type(e).__name__
        ctx.count("replay:proofrec:%s:%s" % ("tautology" if taut else "non-tautology", res))
        if (taut and res != "proved") or (not taut and res != "not-provable"):
            cls = "repeated-literal-clause" if has_twin_args(F) else classify_formula(F)
            ctx.violation("proofrec:%s:%s" % (res, cls), "proofrec.solve_cnf on the %s %s: %s" % ("tautology" if taut else "non-tautology", F, res), rp)


def nolearn_stage(ctx, sat, cases):
    """(a) tie of `noLearnRun` (hypothesis of solve_terminates_partial): a real run learns no non-empty clause iff its
    debug output shows no conflict analysis, or exactly one that ends the run with 'unsatisfiable'.  Uses the debug
    messages of solve_cnf; when they are gone the stream is skipped."""
    import contextlib
    import io
    lines, impl = [], []
    seen_marker = False
    for cnf in cases:
        pcnf = [[(name_of(n), b) for (n, b) in cl] for cl in cnf]
        variables = set()
        for clause in pcnf:
            for name, _ in clause:
                variables.add(name)
        var_order = [int(v[1:]) for v in variables]
        rec = []
        orig = getattr(sat, "resolution", None)
        if not callable(orig):
            ctx.count("nolearn:stream-unavailable")
            return

        def wrapped(c1, c2, name):
            r = orig(c1, c2, name)
            rec.append([(int(n[1:]), b) for (n, b) in r])
            return r
        sat.resolution = wrapped
        buf = io.StringIO()
        try:
            with time_limit(10), contextlib.redirect_stdout(buf):
                res = sat.solve_cnf(pcnf, debug=True)
        except Timeout:
            continue
        except BaseException:  # noqa
            continue
        finally:
            sat.resolution = orig
        text = buf.getvalue()
        nconf = sum(1 for ln in text.splitlines() if ln.startswith("Analyze conflict"))
        seen_marker = seen_marker or nconf > 0
        real = nconf == 0 or (nconf == 1 and res[0] == "unsatisfiable")
        lines.append(sexp.dumps(["nolearn", FUEL, s_cnf(cnf), var_order, s_cnf(rec)]))
        impl.append((cnf, real, nconf, len({n for cl in cnf for n, _ in cl})))
    out = ctx.lean_driver(EXE, lines) if lines else []
    if out is None:
        return
    model = [o == "T" for o in out]
    if not seen_marker and any(not m for m in model):
        ctx.count("nolearn:stream-unavailable(no debug messages)")
        return
    ndis = 0
    for (cnf, real, nconf, nv), m in zip(impl, model):
        ctx.count("nolearn:%s" % ("no-learning" if real else "learning"))
        if m != real:
            ndis += 1
            if ndis <= 3:
                ctx.broken("correspondence:c15:nolearn", "cnf=%s impl: %d conflict analyses, model noLearnRun=%s" % (cnf, nconf, m))


def make_zchaff_trace(cnf, proofs):
    """A zChaff `resolve_trace` for an unsatisfiable CNF (variables = zChaff indices) from a trace of solve_cnf:
    one CL line per learned clause except the final empty one, then the level-0 implications (VAR lines, in propagation
    order) and the conflicting clause (CONF line).  Returns (text, learned clauses)."""
    clauses = [list(dict.fromkeys(c)) for c in cnf]
    n0 = len(clauses)
    lines = []
    for cid, steps in proofs[:-1]:
        cur = list(clauses[steps[0]])
        for st in steps[1:]:
            d = clauses[st]
            piv = [l for l in cur if (l[0], not l[1]) in d][0][0]
            cur = list(dict.fromkeys([l for l in cur if l[0] != piv] + [l for l in d if l[0] != piv]))
        lines.append("CL: %d <= %s" % (cid, " ".join(str(x) for x in steps)))
        clauses.append(cur)
    code = lambda n, b: str(2 * n + (0 if b else 1))         # noqa
    asg = {}
    while True:
        for cid, cl in enumerate(clauses):
            if any(asg.get(n) == b for n, b in cl):
                continue
            un = [(n, b) for n, b in cl if n not in asg]
            if len(un) == 0:
                lines.append("CONF: %d == %s" % (cid, " ".join(code(n, b) for n, b in cl)))
                return "\n".join(lines) + "\n", clauses[n0:]
            if len(un) == 1:
                n, b = un[0]
                asg[n] = b
                lines.append("VAR: %d L: 0 V: %d A: %d Lits: %s" % (n, 1 if b else 0, cid, " ".join(code(m, bb) for m, bb in cl)))
                break
        else:
            return None, clauses[n0:]


def zchaff_stage(ctx, sat):
    """(c) the real `zChaff.solve` (trace parsing, replay with logic.resolution, VAR/CONF sections, discharge) on traces
    generated from our solver; the zChaff binary is replaced by a stub that reports UNSAT."""
    from kernel import term as T, theory, report
    from logic import basic
    basic.load_theory('sat')
    try:
        import importlib
        zchaff = importlib.import_module("sat.zchaff")
    except Exception:  # noqa
        ctx.count("zchaff:module-not-importable")
        return
    rng = ctx.rng("zchaff")
    plain, clash, near, opaque = make_atoms(T)

    class FakeProcess:
        def __init__(self, *a, **k):
            pass

        def communicate(self):
            return (b"c stub\nRESULT:\tUNSAT\r\n", b"")

    def run_one(F, damage=None):
        z = zchaff.zChaff(T.Not(F))
        zc = [[(abs(l), l > 0) for l in cl] for cl in z.cnf_list]
        res = sat.solve_cnf([[("y%d" % n, b) for n, b in cl] for cl in zc])
        if res[0] != "unsatisfiable":
            return ("not-unsat",), None
        proofs = sorted((int(k), [int(x) for x in v]) for k, v in res[1].items())
        trace, learned = make_zchaff_trace(zc, proofs)
        if trace is None:
            return ("no-level0-conflict",), None
        if damage is not None:
            trace = damage(trace)
            if trace is None:
                return ("not-damaged",), None
        with open(".\\resolve_trace", "w") as fh:
            fh.write(trace)
        n0 = len(zc)
        pt = z.solve()
        rpt = report.ProofReport()
        th = theory.check_proof(pt.export(), rpt, check_level=1)
        good = pt.prop == F and len(pt.hyps) == 0 and th == pt.th and len(rpt.gaps) == 0
        replayed = []
        for k in range(n0, n0 + len(proofs) - 1):
            prop = z.clause_pt[k].prop
            replayed.append(sorted(set((z.var_index[l.arg if l.is_not() else l], not l.is_not()) for l in ([] if prop == T.false else prop.strip_disj()))))
        return ("proved" if good else "bad-theorem",), (zc, proofs, replayed, trace)

    old_cwd, old_popen = os.getcwd(), zchaff.subprocess.Popen
    work = os.path.join(ctx.scratch, "zchaff")
    os.makedirs(os.path.join(work, "sat"), exist_ok=True)
    os.chdir(work)
    zchaff.subprocess.Popen = FakeProcess
    lines, impl, dlines, dimpl = [], [], [], []
    try:
        # is the stub still wired the way solve() expects (paths, attributes)?  if not: nothing to tie, not an alarm
        try:
            with time_limit(120):
                probe, _ = run_one(T.Or(plain[0], T.Not(plain[0])))
        except Timeout:
            raise
        except BaseException as e:  # noqa
            probe = ("raise", type(e).__name__)
        if probe != ("proved",):
            ctx.count("zchaff:stream-unavailable:%s" % "/".join(str(x) for x in probe))
            return
        for i in range(ctx.scale(12, 80)):
            pool = plain if rng.random() < 0.7 else plain[:2] + clash[:2]
            F = T.Not(gen_unsat_formula(rng, pool, T, 0.1 if rng.random() < 0.3 else 0.0))
            ctx.case(("zchaff", str(F)), nontrivial=True)
            try:
                with time_limit(180):
                    res, info = run_one(F)
            except Timeout:
                raise
            except BaseException as e:  # noqa
                res, info = ("raise", type(e).__name__), None
            ctx.count("zchaff:%s" % "/".join(str(x) for x in res))
            if res == ("bad-theorem",):
                ctx.violation("zchaff:bad-theorem:%s" % classify_formula(F), "zChaff.solve returned a theorem that is not |- %s or does not check" % F,
                              {"formula": str(F), "term": repr_term(F), "kind": "zchaff"})
            elif res[0] == "raise":
                ctx.broken("correspondence:c15:zchaff-replay", "zChaff.solve raised %s on the tautology %s with a generated trace" % (res[1], F))
            elif info is not None:
                zc, proofs, replayed, trace = info
                lines.append(sexp.dumps(["zreplay", s_cnf([list(dict.fromkeys(c)) for c in zc]), [p for _, p in proofs[:-1]]]))
                lines.append(sexp.dumps(["zcheck", s_cnf([list(dict.fromkeys(c)) for c in zc]), [ln.split() for ln in trace.splitlines()]]))
                impl.append((str(F), len(zc), replayed))
                # the same trace damaged (a VAR line lost / the conflict line naming another clause): both must refuse
                def damage(tr, k=i):
                    tl = tr.splitlines()
                    vs_ = [n_ for n_, ln in enumerate(tl) if ln.startswith("VAR")]
                    if k % 2 == 0 and len(vs_) >= 2:
                        bad = tl[:vs_[0]] + tl[vs_[0] + 1:]
                    else:
                        bad = [("CONF: 0 == " + ln.split("==")[1].strip()) if ln.startswith("CONF") else ln for ln in tl]
                    return None if bad == tl else "\n".join(bad) + "\n"
                try:
                    with time_limit(180):
                        res2, info2 = run_one(F, damage)
                except Timeout:
                    raise
                except BaseException as e:  # noqa
                    res2, info2 = ("raise", type(e).__name__), None
                if res2 != ("not-damaged",):
                    ctx.count("zchaff:damaged-trace:%s" % res2[0])
                    zc2 = [[(abs(l), l > 0) for l in cl] for cl in zchaff.zChaff(T.Not(F)).cnf_list]
                    dlines.append(sexp.dumps(["zcheck", s_cnf([list(dict.fromkeys(c)) for c in zc2]),
                                              [ln.split() for ln in damage(trace).splitlines()]]))
                    dimpl.append((str(F), res2))
    finally:
        os.chdir(old_cwd)
        zchaff.subprocess.Popen = old_popen
    out = ctx.lean_driver(EXE, lines) if lines else []
    dout = ctx.lean_driver(EXE, dlines) if dlines else []
    ndis = 0
    for (fs, res2), zline in zip(dimpl, dout or []):
        ctx.count("zchaff:damaged-trace-model:%s" % zline)
        if (res2 == ("proved",)) != (zline == "T"):
            ndis += 1
            if ndis <= 3:
                ctx.broken("correspondence:c15:zchaff-check", "formula=%s damaged trace: zChaff.solve %s, model zCheck %s" % (fs, res2, zline))
    for (fs, n0, replayed), line, zline in zip(impl, (out or [])[0::2], (out or [])[1::2]):
        m = None if line == "none" else [sorted(set((int(n), b == "T") for n, b in cl)) for cl in sexp.loads(line)][n0:]
        ctx.count("zchaff:replayed-clauses-compared")
        ctx.count("zchaff:zcheck-model:%s" % zline)
        if zline != "T":                                     # the real solve() went through: the verified checker must accept too
            ndis += 1
            if ndis <= 3:
                ctx.broken("correspondence:c15:zchaff-check", "formula=%s: zChaff.solve proved it but the model's zCheck rejects the trace" % fs)
        if m != replayed:
            ndis += 1
            if ndis <= 3:
                ctx.broken("correspondence:c15:zchaff-replay", "formula=%s impl=%s model=%s" % (fs, replayed, m))


# ------------------------------------------------------------------ Gen.lean (translated encode_* rules)
def translate_encode_rules(ctx):
    """library/sat.json encode_* theorems -> Lean propositional formulas over Bool; each must be a
    tautology (`decide`), which Holpy/C15/Props.lean re-checks on every run."""
    import re
    with open(os.path.join(ctx.repo, "library", "sat.json"), encoding="utf-8") as f:
        data = json.load(f)
    sys_path_has = ctx.repo
    rules = []
    for it in data["content"]:
        if it.get("ty") == "thm" and it.get("name", "").startswith("encode_"):
            prop = it["prop"]
            if isinstance(prop, list):
                prop = "".join(prop)
            rules.append((it["name"], sorted(it["vars"].keys()), prop))
    # tiny precedence parser for  ¬ ∧ ∨ ⟶ ⟷  (priorities from syntax/operator.py: ⟷ 50 left?; see below)
    def tokenize(s):
        return re.findall(r"[A-Za-z_][A-Za-z_0-9]*|[()¬∧∨⟶⟷]", s)

    # holpy: ⟷ (equals on bool) priority 25 right-assoc? -- we read priorities from syntax/operator.py
    prio = read_operator_priorities(ctx)

    def parse(tokens):
        pos = [0]

        def peek():
            return tokens[pos[0]] if pos[0] < len(tokens) else None

        def eat():
            t = tokens[pos[0]]
            pos[0] += 1
            return t

        def atom():
            t = eat()
            if t == "(":
                e = expr(0)
                assert eat() == ")"
                return e
            if t == "¬":
                return ("not", unary())
            return ("var", t)

        def unary():
            return atom()

        def expr(minp):
            lhs = unary()
            while True:
                op = peek()
                if op not in prio:
                    return lhs
                p, assoc = prio[op]
                if p < minp:
                    return lhs
                eat()
                rhs = expr(p + 1 if assoc == "left" else p)
                lhs = ({"∧": "and", "∨": "or", "⟶": "imp", "⟷": "iff"}[op], lhs, rhs)
        e = expr(0)
        assert pos[0] == len(tokens), tokens
        return e

    def lean(e):
        if e[0] == "var":
            return e[1]
        if e[0] == "not":
            return "(!%s)" % lean(e[1])
        a, b = lean(e[1]), lean(e[2])
        return {"and": "(%s && %s)", "or": "(%s || %s)", "imp": "((!%s) || %s)", "iff": "(%s == %s)"}[e[0]] % (a, b)

    def flatten(e, op):
        return flatten(e[1], op) + flatten(e[2], op) if e[0] == op else [e]

    def lean_lit(e):
        if e[0] == "var":
            return "(%s, true)" % e[1]
        if e[0] == "not" and e[1][0] == "var":
            return "(%s, false)" % e[1][1]
        raise ValueError("untranslatable: right-hand side of an encode rule is not a CNF: %r" % (e,))

    lines = ["/- GENERATED by harness/props/c15.py from library/sat.json and syntax/operator.py; do not edit. -/",
             "namespace Holpy.C15.Gen", ""]
    names = []
    for name, vs, prop in rules:
        e = parse(tokenize(prop))
        args = " ".join(vs)
        lines.append("/-- %s : %s -/" % (name, prop))
        lines.append("def %s (%s : Bool) : Bool := %s" % (name, args, lean(e)))
        lines.append("")
        # the right-hand side of the rule as a clause list over variable numbers
        if e[0] != "iff":
            raise ValueError("untranslatable: %s is not an equivalence" % name)
        clauses = [flatten(c, "or") for c in flatten(e[2], "and")]
        lines.append("/-- right-hand side of %s as a list of clauses -/" % name)
        lines.append("def %s_cnf (%s : Nat) : List (List (Nat × Bool)) :=\n  [%s]" % (
            name, args, ", ".join("[" + ", ".join(lean_lit(x) for x in c) + "]" for c in clauses)))
        lines.append("")
        names.append((name, vs))
    lines.append("def ruleNames : List String := [%s]" % ", ".join('"%s"' % n for n, _ in names))
    lines.append("")
    lines.append("end Holpy.C15.Gen")
    return "\n".join(lines) + "\n"


def read_operator_priorities(ctx):
    """Priorities/associativity of the four connectives from syntax/operator.py (AST read, no import)."""
    import ast
    with open(os.path.join(ctx.repo, "syntax", "operator.py"), encoding="utf-8") as f:
        tree = ast.parse(f.read())
    table = None
    for node in ast.walk(tree):
        if isinstance(node, ast.Assign) and any(isinstance(t, ast.Name) and t.id == "op_data_raw" for t in node.targets):
            table = node.value
    assert table is not None, "untranslatable: op_data_raw not found"
    want = {"⟷", "⟶", "∧", "∨"}
    prio = {}
    for elt in table.elts:
        kw = {k.arg: k.value for k in elt.keywords}
        if "unicode_op" in kw and ast.literal_eval(kw["unicode_op"]) in want and "assoc" in kw:
            p = ast.literal_eval(elt.args[1])
            assoc = ast.unparse(kw["assoc"]).split(".")[-1].lower()
            prio[ast.literal_eval(kw["unicode_op"])] = (p, "left" if "left" in assoc else "right")
    assert len(prio) == 4, "untranslatable: connective rows missing in op_data_raw"
    return prio


# ------------------------------------------------------------------ main
def judge(cnf, res):
    """Property oracle on one answer of the implementation: None, or (kind, what, extra)."""
    if res[0] in ("raise", "other"):
        return ("crash:%s" % (res[-1],), "solve_cnf %s" % (res,), {})
    truth = brute_sat(cnf)
    if res[0] == "sat":
        if not satisfies(cnf, res[1]):
            return ("bad-assignment", "solve_cnf returned an assignment that does not satisfy the CNF", {})
        if truth is False:
            return ("wrong-verdict", "satisfiable reported for an unsatisfiable CNF", {})
    elif res[0] == "unsat":
        if truth is True:
            return ("wrong-verdict", "unsatisfiable reported for a satisfiable CNF", {})
        ok, why, _ = replay_trace(cnf, res[1])
        if not ok:
            return ("bad-trace", "resolution trace invalid (%s)" % why, {"why": why})
    return None


def shrink_cnf(sat, cnf, kind, budget=400, seconds=15):
    """Greedy: drop clauses, then literals, while the same kind of failure persists."""
    import time
    deadline = time.time() + seconds

    def fails(c):
        if time.time() > deadline:
            return None
        r = run_impl(sat, c, 1)[0]
        if r[0] == "timeout":
            return None
        v = judge(c, r)
        return r if v is not None and v[0] == kind else None
    cur = [list(cl) for cl in cnf]
    best = fails(cur)
    if best is None:
        return cnf, None
    changed = True
    while changed and budget > 0:
        changed = False
        for i in range(len(cur) - 1, -1, -1):
            budget -= 1
            cand = cur[:i] + cur[i + 1:]
            r = fails(cand)
            if r is not None:
                cur, best, changed = cand, r, True
        for i in range(len(cur)):
            for k in range(len(cur[i]) - 1, -1, -1):
                budget -= 1
                cand = cur[:i] + [cur[i][:k] + cur[i][k + 1:]] + cur[i + 1:]
                r = fails(cand)
                if r is not None:
                    cur, best, changed = cand, r, True
    return cur, best


def check_cases(ctx, sat, cases, label, limit=5):
    lines = []
    impl = []
    ntimeouts = 0
    for cnf in cases:
        if ntimeouts >= MAX_TIMEOUTS:                        # the tree is broken; do not spend the budget on more of the same
            res, var_order, rec = ("skipped",), [], []
        else:
            res, var_order, rec = run_impl(sat, cnf, limit)
            ntimeouts += res[0] == "timeout"
        impl.append((res, var_order, rec))
        lines.append(sexp.dumps(["solve", FUEL, s_cnf(cnf), var_order, s_cnf(rec)]))
    # the verified Lean checker judges every 'unsatisfiable' answer of the implementation
    cert_idx = [i for i, (res, _, _) in enumerate(impl) if res[0] == "unsat"]
    lines += [sexp.dumps(["checkproofs", s_cnf(cases[i]), [[k, p] for k, p in impl[i][0][1]]]) for i in cert_idx]
    nconfirmed = 0
    nviol = 0
    out = ctx.lean_driver(EXE, lines) if lines else []
    cert = dict(zip(cert_idx, out[len(cases):])) if out is not None else {}
    ndis = 0
    # Were the set orders recorded?  Not if sat.resolution is gone, or is never called although the model resolves.
    model_resolves = out is not None and any(
        m[0] == "unsat" and any(len(pf) >= 2 for _, pf in m[1]) for m in (parse_model(o) for o in out[:len(cases)]))
    recording_works = any(r for _, _, r in impl) or not model_resolves
    for idx, cnf in enumerate(cases):
        res, var_order, rec = impl[idx]
        nontriv = len(cnf) >= 2 and any(len(c) >= 2 for c in cnf)
        ctx.case(("cnf", cnf), nontrivial=nontriv)
        ctx.count("%s:%s" % (label, res[0]))
        nres = len(rec)
        ctx.count("resolution-calls:%s" % ("0" if nres == 0 else "1-4" if nres < 5 else "5-19" if nres < 20 else "20+"))
        if res[0] == "unsat":
            ctx.count("learned-clauses:%s" % (len(res[1]) if len(res[1]) < 4 else "4+"))
        # --- property oracle on the implementation
        if res[0] == "skipped":
            continue
        if res[0] == "timeout":
            # confirm with a long limit so that a loaded machine cannot cause an alarm (first few only)
            if nconfirmed >= MAX_CONFIRM:
                ctx.count("timeout-unconfirmed")
                continue
            nconfirmed += 1
            res2, var_order, rec = run_impl(sat, cnf, 60)
            if res2[0] == "timeout":
                ctx.violation("nontermination:" + classify(cnf), "solve_cnf does not terminate (60 s) on %s" % cnf, {"cnf": cnf, "kind": "nontermination"})
                continue
            res = res2
            impl[idx] = (res, var_order, rec)
            redo = ctx.lean_driver(EXE, [sexp.dumps(["solve", FUEL, s_cnf(cnf), var_order, s_cnf(rec)])])
            if out is not None and redo is not None:
                out[idx] = redo[0]
        v = judge(cnf, res)
        if v is None and res[0] == "unsat" and cert.get(idx, "T") != "T":
            v = ("bad-trace", "the verified trace checker (Lean checkProofs) rejects the proofs", {"why": "lean-checker"})
            ctx.count("lean-checker-only-rejection")
        if v is not None:
            nviol += 1
            if nviol > MAX_VIOLATIONS:
                ctx.count("violations-not-listed")
                continue
            kind, what, extra = v
            small, sres = (cnf, None)
            if nviol <= 3 and extra.get("why") != "lean-checker":
                small, sres = shrink_cnf(sat, cnf, kind)
            if sres is None:
                small, sres = cnf, res
            key = ("%s:%s" % (kind, classify(small))) if kind.startswith("crash") else "%s:%s" % (kind, json.dumps(small))
            ctx.violation(key, "%s: %s -> %s" % (what, small, sres), dict({"cnf": small, "result": sres, "kind": kind, "found_on": cnf}, **extra))
            continue
        if res[0] == "unsat":
            ctx.count("unsat-certified-by-lean-checker")
            if len(UNSAT_TRACES) < 4000:
                UNSAT_TRACES.append((cnf, res[1]))
        # --- correspondence with the model
        if out is not None:
            m = parse_model(out[idx])
            if m != res:
                if m[0] == res[0] and not recording_works:
                    # no set order could be recorded (sat.resolution renamed / inlined): the model ran with its canonical
                    # order, so clause order, and with it trail and trace, may differ; the verdict agrees and the real
                    # answer was judged above by brute force and the verified checker
                    ctx.count("order-only-disagreement(no recorded orders)")
                    continue
                ndis += 1
                if ndis <= 3:
                    ctx.broken("correspondence:c15:solve", "cnf=%s impl=%s model=%s" % (cnf, res, m))
                    ctx.coverage["disagreements_checked"] += 1
    if INPUT_MODIFIED:
        ctx.count("input-modified", len(INPUT_MODIFIED))
        del INPUT_MODIFIED[:]
    return out is not None


def classify(cnf):
    if any(len(set(cl)) != len(cl) for cl in cnf):
        return "duplicate-literal-in-clause"
    return json.dumps(cnf)


def run(ctx):
    ctx.coverage["rule"] = ("CNFs over int-named variables, five families: random 3-SAT around the threshold (3-9 variables), mixed 2/3/4-SAT "
                            "(3-12 variables, up to 60 clauses), structured (all sign patterns, pigeonhole, parity chains, implication ladders; shuffled, "
                            "renamed, polarity-flipped), and messy (1-8 variables, unit/empty/duplicate clauses, repeated and complementary literals); in "
                            "the thorough tier also every combination of <=3 clauses out of the 84 clause multisets of width <=3 over 3 variables and every "
                            "combination of 4 out of the 42 clause sets, each in enumeration order, every fourth also in one shuffled order; histories: the same clause set presented again in the same process permuted, with reversed literals, with a repeated clause or literal. "
                            "Non-trivial = at least two clauses and one clause of width >=2; distinct by the literal lists. The histogram records how many "
                            "resolution calls / learned clauses each run needed. Tseitin: fixed corner cases, random formulas of depth <=3 over atom pools that "
                            "include variables named x1..x6 (the names encode generates), x, x0, x01, x10, y1, the constants true/false and "
                            "non-boolean equalities (m = n, x2 = n, x3 = x4 on nat) as atoms; ~45% negated tautology-scheme instances (unsatisfiable).")
    # 1. translated table + Lean obligations
    try:
        gen = translate_encode_rules(ctx)
        if ctx.write_if_changed("Holpy/C15/Gen.lean", gen):
            ctx.log("Gen.lean regenerated (changed)")
    except Exception as e:  # noqa
        ctx.broken("translate:c15:encode_rules", "untranslatable: %r" % e)
    proofs_ok = ctx.lean_props(["Holpy.C15.Props", "Holpy.C15.Props2", "Holpy.C15.Props3"], exes=[EXE])
    if ctx.tier == "thorough" and proofs_ok:
        ctx.lean_check_modules(["Holpy.C15.Props", "Holpy.C15.Props2"])
    ctx.coverage["trusted_base"] += [
        "correspondence harness harness/props/c15.py (generators, recorded set orders)",
        "translator of library/sat.json encode_* statements to Bool formulas",
        "Python set/dict semantics; tseitin.encode's theorem is judged by the real checker + brute force; its CNF is compared with the "
        "model's clause set and its hypotheses with the model's (subterm numbering taken from tseitin.logic_subterms), the proof-term "
        "construction itself is not modelled",
        "zChaff binary replaced by a stub reporting UNSAT; traces in zChaff's format generated by the harness from solve_cnf's own traces",
        "debug messages of solve_cnf ('Analyze conflict ...') as the observation of learning for the noLearnRun stream"]
    ctx.assumptions += ["the model takes Python's set iteration orders as oracle inputs; theorems hold for every order",
                        "termination is proved for the model (solve_terminates); on the implementation non-termination is searched for with time limits"]
    # 2+3. correspondence and oracle
    from prover import sat
    rng = ctx.rng("cnf")
    corpus = load_corpus(ctx)
    check_cases(ctx, sat, corpus, "corpus")
    cases = gen_random(rng, ctx.scale(3000, 18000))
    for c in cases[:3]:
        ctx.sample({"cnf": c})
    have_model = check_cases(ctx, sat, cases, "random")
    check_cases(ctx, sat, gen_history(ctx.rng("history"), ctx.scale(40, 150)), "history")
    if ctx.tier == "thorough":
        batch = []
        prng = ctx.rng("perm")
        nexh = 0
        for cnf in itertools.chain(gen_exhaustive(3), gen_exhaustive_sets(4)):
            batch.append(cnf)
            # the enumeration fixes clause and literal order (pool order): also a shuffled copy of every case with >= 2 literals
            nexh += 1
            if nexh % 4 == 0 and sum(len(cl) for cl in cnf) >= 2:
                sh = [prng.sample(cl, len(cl)) for cl in cnf]
                prng.shuffle(sh)
                if sh != cnf:
                    batch.append(sh)
            if len(batch) >= 20000:
                check_cases(ctx, sat, batch, "exhaustive")
                batch = []
        if batch:
            check_cases(ctx, sat, batch, "exhaustive")
        ctx.coverage["exhaustive"] = False  # exhaustive for the stated sub-space only
        ctx.coverage["exhaustive_subspace"] = ("all <=3-clause combinations of the 84 clause multisets of width <=3 over 3 variables, and all "
                                               "4-clause combinations of the 42 clause sets of width <=3 over 3 variables; each in pool order, every fourth also once with "
                                               "clauses and literals shuffled")
    if not have_model:
        ctx.broken("correspondence:c15:driver", "model driver unavailable")
    # 4. tseitin
    tseitin_stage(ctx)
    # 5. replay of traces by logic.resolution, proofrec.solve_cnf
    k = ctx.scale(120, 800)
    step = max(1, len(UNSAT_TRACES) // k)
    replay_stage(ctx, sat, UNSAT_TRACES[::step][:k])
    del UNSAT_TRACES[:]
    zchaff_stage(ctx, sat)
    nolearn_stage(ctx, sat, cases[:ctx.scale(400, 2000)])


def load_corpus(ctx):
    p = os.path.join(ctx.verif, "corpus", "c15.json")
    if os.path.exists(p):
        with open(p) as f:
            return [[[(int(n), bool(b)) for n, b in cl] for cl in cnf] for cnf in json.load(f)]
    return []


def replay(ctx, rp):
    """Re-run one recorded failing input on the implementation; returns True if it still fails."""
    from prover import sat
    r = rp["replay"]
    if "cnf" in r:
        cnf = [[(int(n), bool(b)) for n, b in cl] for cl in r["cnf"]]
        check_cases(ctx, sat, [cnf], "replay", limit=60)
    if "term" in r:
        tseitin_stage(ctx, only=[term_of_repr(r["term"])])
    for v in ctx.violations:
        print("still fails:", v[1])
    return bool(ctx.violations)


MANIFEST = {
    "text": "Lean theorems about executable models, for every input, fuel and set-iteration order. solve_cnf: sat_sound, unsat_sound, "
            "trace_valid, proofs_valid, verdict_correct, no_crash, unit_propagate_fuel_suffices; a verified certificate checker "
            "(checkTrace_sound, checkProofs_sound) run on every 'unsatisfiable' answer of the real solver. tseitin.encode (atoms and "
            "auxiliary variables in one name space, the rewriting passes, the fresh-name choice): tseitin_equisat, tseitin_succeeds, "
            "tseitin_names_fresh, encode_statement_eq_model (the stated CNF is exactly the rules' clauses plus the top variable), "
            "encode_sequent_valid (hypotheses entail the CNF), tseitin_name_clash_counterexample for the naming before the fix; clause groups "
            "are the encode_* rules regenerated from library/sat.json on each run. Replay of resolution traces by logic.resolution as "
            "zChaff.solve and proofrec.solve_cnf run it: macro_resolve_sound, replay_sound, replay_empty_unsat, solver_trace_replays (the proofs solve_cnf returns replay with the macro "
            "to the empty clause). zChaff traces (CL / VAR / CONF lines, parsed from the tokens of the file): zchaff_replay_sound (if the "
            "reconstruction goes through the CNF is unsatisfiable). Termination: "
            "solve_terminates (termFuel n = n(n+1)^n + 2^n + 1 rounds suffice for n variables, for every CNF and set order), "
            "analyze_terminates (the loop of analyze_conflict), total_correctness (with that fuel: 'satisfiable' with a solution, or "
            "'unsatisfiable' with proofs passing the verified checker and no model), solve_terminates_no_learning (#variables+1 rounds "
            "on runs that learn nothing). Every model is tied to the "
            "real code by differential streams: solve_cnf runs, tseitin.encode's CNF and hypotheses, single logic.resolution steps, traces of "
            "solve_cnf replayed with the real macro, proofrec.solve_cnf end to end, the real zChaff.solve on generated traces and on damaged ones (binary stubbed) against the model's zCheck, the instantiated "
            "encode_* / eq_true / eq_false theorems in the exported proof term of tseitin.encode against the model's equations, "
            "noLearnRun against the solver's debug output. The PROOF TERM of tseitin.encode is modelled as a script (Script.lean: Prf = "
            "assume / top_conv(rewr_conv(assumed equation, sym)) / apply_theorem conjI / top_conv(rewr_conv(encode_*, eq_true, eq_false)) / "
            "conj_norm) over a small proof system with a checker Prf.check: proof_system_sound (every sequent the checker accepts is valid), "
            "encode_rewrite_pass_equiv (each rewriting pass is an equivalence for arbitrary matched terms), encode_proofterm_valid_partial "
            "(IF encode's script checks THEN its sequent is valid); the script is compared LINE BY LINE with the spine of the real ProofTerm "
            "(rule / cited theorem, hypotheses, conclusion of every node; no-op conversions dropped as ProofTerm.equal_elim does) on every "
            "generated formula, and Prf.check is evaluated on it with the real final conjunction as conj_norm's target.",
    "note": "Termination is a theorem about the model (fuel stands in for `while True`); the tie of the model to prover/sat.py is the "
            "differential streams, and non-termination of the real code is still also searched for with time limits. NOT proved: that encode's script is accepted by Prf.check for EVERY formula (encode_proofterm_valid_partial has it as its one hypothesis; it is evaluated "
            "per generated formula) and that its last line is the modelled CNF with exactly the modelled hypotheses for every formula (evaluated, compared with the real run); the steps inside the "
            "conversions (combination/transitive/substitution, the expansion of imp_conj and apply_theorem into kernel rules) are not modelled: the real checker judges them; that the model's own default subterm order passes orderOK (evaluated; "
            "the real order always did). The proof term of tseitin.encode goes through the macros imp_conj / apply_theorem and about 100 primitive "
            "steps per formula; it is modelled at the granularity of its spine only (one line per on_prop / apply_theorem call of encode), not on the kernel model. The discharge steps of zChaff.solve / "
            "proofrec.solve_cnf (conjD, implies_intr/elim, negI) are exercised on the real code only (theorem returned must be |- F and check). "
            "Number lexing of trace tokens is done by the driver, not the model. Trusted: Lean kernel, "
            "propext/Classical.choice/Quot.sound, the harness generators and the recording of Python set orders, the sat.json translator. "
            "Needs the /repo fixes fixes/C15-2..5.patch (without C15-4/5 the check reports the RecursionError of logic.resolution and the "
            "failure of proofrec.solve_cnf on tautologies with a repeated argument).",
    "design_ref": "DESIGN.md 4/C15",
}
FINDINGS = [
    {"status": "fixed", "key": "replay:crash:RecursionError:two-clashing-pairs", "commit": "18ad491",
     "what": "logic.resolution(~a | b, ~b | a) recursed forever: the clauses were swapped and searched again when the positive literal "
             "was in the second clause"},
    {"status": "fixed", "key": "proofrec:not-provable:repeated-literal-clause", "commit": "2aba592",
     "what": "proofrec.solve_cnf failed on tautologies such as (a & a) --> a: logic.resolution removed only one copy of the resolved "
             "literal, so the replay of solve_cnf's trace on Tseitin clauses with a repeated literal did not end in false"},
    {"status": "fixed", "key": "nontermination:duplicate-literal-in-clause", "commit": "5b840a5",
     "what": "solve_cnf([[('x', False), ('x', False)]]) did not terminate: a clause repeating a literal is never unit"},
    {"status": "fixed", "key": "tseitin:not-equisat:atom-named-like-auxiliary", "commit": "4ab1cad",
     "what": "tseitin.encode(a & ~x1) returned an unsatisfiable CNF for a satisfiable formula: the auxiliary variables x1..xn "
             "were not chosen fresh for the formula"},
    {"status": "fixed", "key": "tseitin:not-equisat:true-false-constant", "commit": "2b1f8e8",
     "what": "tseitin.encode(false) (also ~true, a & false) returned a satisfiable CNF: true/false were encoded as free atoms"},
    {"status": "fixed", "key": "tseitin:raise:InvalidDerivationException:non-boolean-equality-atom", "commit": "2b1f8e8",
     "what": "tseitin.encode raised on a formula with an atom m = n between numbers: is_logical took every equality for an equivalence"},
]
