"""C06 -- goals discharged through Z3 / SymPy are valid HOL statements.

Stages: (1) Gen.lean (norm_thms table read with `ast`) + Lean obligations + driver;
(2) property oracle on the real wrappers: every goal `z3wrapper.solve` / `Z3Macro.eval` accepts is
judged by an independent guard-correct Z3 encoding (countermodels decoded and confirmed by direct
evaluation of the HOL goal with exact arithmetic) and by a small-grid brute-force evaluator; every
goal `sympywrapper.solve_goal` / `solve_with_interval` / the sympy macro accepts is judged by a
rational grid search inside the interval; (3) correspondence: `convert` / `solve_core` of the real
wrapper against the Lean model (`c06_model`) on the terms `solve_core` really converts.
"""
import ast as pyast
import itertools
import json
import os
from fractions import Fraction

from harness.common import sexp
from harness.common.ctx import Timeout, time_limit

EXE = "c06_model"
B, N, I, R, A = "bool", "nat", "int", "real", "A"
NUM = (N, I, R)

# ---------------------------------------------------------------------------------------------
# Goal language (python tuples; JSON friendly).  Types: bool nat int real A ('a).
#  ('var',name,ty) ('num',ty,p,q) ('tt',) ('ff',) ('not',a) ('and',a,b) ('or',a,b) ('imp',a,b)
#  ('iff',a,b) ('xor',a,b) ('eq',ty,a,b) ('ite',ty,c,a,b) ('all',name,ty,body) ('ex',name,ty,body)
#  ('add',ty,a,b) ('sub',ty,a,b) ('mul',ty,a,b) ('div',a,b) ('neg',ty,a) ('le'|'lt'|'ge'|'gt',ty,a,b)
#  ('ofnat',a) ('max',ty,a,b) ('min',ty,a,b) ('abs',ty,a) ('app',f,dom,cod,a) ('mem',a,S,dom)
#  ('cint',a,l,u) ('oint',a,l,u)  a Mem real_closed_interval l u / real_open_interval l u
#  ('ofint',a) ('pow',ty,a,n)     constructs z3wrapper.convert does not support
#  ('feq',f,g,dom,cod)            equation between two function variables
#  ('sqrt',a) ('log',a) ('exp',a)  SymPy stream only
#  ('all'|'ex',iname,ty,body,stored)  binder whose holpy term stores the name `stored`; `iname` is
#                                  unique inside the goal and only used for scoping in this AST
# ---------------------------------------------------------------------------------------------


def num(ty, v):
    v = Fraction(v)
    return ("num", ty, v.numerator, v.denominator)


def tolist(x):
    return [tolist(y) for y in x] if isinstance(x, (tuple, list)) else x


def totuple(x):
    return tuple(totuple(y) for y in x) if isinstance(x, (tuple, list)) else x


class Holpy:
    """Lazy access to the implementation (imports happen after the runner set sys.path)."""

    def __init__(self, ctx):
        import warnings
        warnings.filterwarnings("ignore")
        import z3
        self.z3 = z3
        from logic import basic
        basic.load_theory("real")
        basic.load_theory("transcendentals")
        from kernel import term as T
        from kernel import type as Ty
        from kernel.thm import Thm
        from logic import logic
        from data import set as hset
        from prover import z3wrapper, sympywrapper
        self.T, self.Ty, self.Thm, self.logic, self.hset = T, Ty, Thm, logic, hset
        self.zw, self.sw = z3wrapper, sympywrapper
        self.flag_at_import = (z3wrapper.check_z3, z3wrapper.z3_loaded)
        self.tys = {B: Ty.BoolType, N: Ty.NatType, I: Ty.IntType, R: Ty.RealType, A: Ty.TVar("a")}

    def ty(self, t):
        return self.tys[t]

    def term(self, a):
        T, Ty = self.T, self.Ty
        k = a[0]
        tm = self.term
        if k == "var":
            return T.Var(a[1], self.ty(a[2]))
        if k == "num":
            return T.Number(self.ty(a[1]), Fraction(a[2], a[3]))
        if k == "tt":
            return T.true
        if k == "ff":
            return T.false
        if k == "not":
            return T.Not(tm(a[1]))
        if k == "and":
            return T.And(tm(a[1]), tm(a[2]))
        if k == "or":
            return T.Or(tm(a[1]), tm(a[2]))
        if k == "imp":
            return T.Implies(tm(a[1]), tm(a[2]))
        if k == "iff":
            return T.Eq(tm(a[1]), tm(a[2]))
        if k == "xor":
            return self.logic.mk_xor(tm(a[1]), tm(a[2]))
        if k == "eq":
            return T.Eq(tm(a[2]), tm(a[3]))
        if k == "ite":
            return self.logic.mk_if(tm(a[2]), tm(a[3]), tm(a[4]))
        if k in ("all", "ex"):
            ty = self.ty(a[2])
            if len(a) == 5:
                # de Bruijn term built directly: a[1] only scopes inside this AST, the binder of
                # the holpy term stores the name a[4] (equal stored names at nested binders arise by
                # beta-reduction; Forall/Exists could not build them: they abstract by name)
                body = tm(a[3]).abstract_over(T.Var(a[1], ty))
                q = T.forall(ty) if k == "all" else T.exists(ty)
                return q(T.Abs(a[4], ty, body))
            if k == "all":
                return T.Forall(T.Var(a[1], ty), tm(a[3]))
            return T.Exists(T.Var(a[1], ty), tm(a[3]))
        if k in ("add", "sub", "mul"):
            op = {"add": T.plus, "sub": T.minus, "mul": T.times}[k]
            return op(self.ty(a[1]))(tm(a[2]), tm(a[3]))
        if k == "div":
            return T.divides(Ty.RealType)(tm(a[1]), tm(a[2]))
        if k == "neg":
            return T.uminus(self.ty(a[1]))(tm(a[2]))
        if k in ("le", "lt", "ge", "gt"):
            op = {"le": T.less_eq, "lt": T.less, "ge": T.greater_eq, "gt": T.greater}[k]
            return op(self.ty(a[1]))(tm(a[2]), tm(a[3]))
        if k == "ofnat":
            return T.of_nat(Ty.RealType)(tm(a[1]))
        if k == "ofint":
            return T.of_int(Ty.RealType)(tm(a[1]))
        if k == "pow":
            return T.nat_power(self.ty(a[1]))(tm(a[2]), T.Nat(a[3]))
        if k in ("max", "min"):
            ty = self.ty(a[1])
            return T.Const(k, Ty.TFun(ty, ty, ty))(tm(a[2]), tm(a[3]))
        if k == "abs":
            ty = self.ty(a[1])
            return T.Const("abs", Ty.TFun(ty, ty))(tm(a[2]))
        if k == "app":
            return T.Var(a[1], Ty.TFun(self.ty(a[2]), self.ty(a[3])))(tm(a[4]))
        if k == "mem":
            return self.hset.mk_mem(tm(a[1]), T.Var(a[2], self.hset.setT(self.ty(a[3]))))
        if k in ("cint", "oint"):
            c = T.Const("real_closed_interval" if k == "cint" else "real_open_interval",
                        Ty.TFun(Ty.RealType, Ty.RealType, self.hset.setT(Ty.RealType)))
            return self.hset.mk_mem(tm(a[1]), c(tm(a[2]), tm(a[3])))
        if k == "memx":
            return self.hset.mk_mem(tm(a[1]), self.setterm(a[2]))
        if k == "subset":
            return self.hset.mk_subset(self.setterm(a[1]), self.setterm(a[2]))
        if k == "seteq":
            return T.Eq(self.setterm(a[1]), self.setterm(a[2]))
        if k in ("sqrt", "log", "exp"):
            return T.Const(k, Ty.TFun(Ty.RealType, Ty.RealType))(tm(a[1]))
        if k == "feq":
            fT = Ty.TFun(self.ty(a[3]), self.ty(a[4]))
            return T.Eq(T.Var(a[1], fT), T.Var(a[2], fT))
        raise ValueError(a)


def sdom(se):
    """element type of a set expression"""
    k = se[0]
    if k in ("svar",):
        return se[2]
    if k in ("empty", "univ"):
        return se[1]
    if k == "insert":
        return sdom(se[2])
    return sdom(se[1])


def _setterm(self, se):
    T, Ty, hs = self.T, self.Ty, self.hset
    k = se[0]
    if k == "svar":
        return T.Var(se[1], hs.setT(self.ty(se[2])))
    if k == "empty":
        return hs.empty_set(self.ty(se[1]))
    if k == "univ":
        return hs.univ(self.ty(se[1]))
    if k == "insert":
        return hs.mk_insert(self.term(se[1]), _setterm(self, se[2]))
    A, B_ = _setterm(self, se[1]), _setterm(self, se[2])
    if k == "union":
        return hs.mk_union(A, B_)
    if k == "inter":
        return hs.mk_inter(A, B_)
    if k == "sdiff":
        sT = hs.setT(self.ty(sdom(se)))
        return T.Const("diff", Ty.TFun(sT, sT, sT))(A, B_)
    raise ValueError(se)


Holpy.setterm = _setterm


def desugar_mem(x, se):
    k = se[0]
    if k == "svar":
        return ("mem", x, se[1], se[2])
    if k == "empty":
        return ("ff",)
    if k == "univ":
        return ("tt",)
    if k == "insert":
        return ("or", ("eq", sdom(se), x, oracle_view(se[1])), desugar_mem(x, se[2]))
    a, b = desugar_mem(x, se[1]), desugar_mem(x, se[2])
    if k == "union":
        return ("or", a, b)
    if k == "inter":
        return ("and", a, b)
    if k == "sdiff":
        return ("and", a, ("not", b))
    raise ValueError(se)


_fresh = [0]


# ---------------------------------------------------------------------------------------------
# Direct evaluator: HOL's own semantics, exact arithmetic, three-valued for bounded quantifiers.
# ---------------------------------------------------------------------------------------------
class Val:
    """vars: {(name,ty): value}; funs: {name: callable}; sets: {name: callable}; usize: |'a|."""

    def __init__(self, vars=None, funs=None, sets=None, usize=2, qb=3, rgrid=None):
        self.vars = dict(vars or {})
        self.funs = dict(funs or {})
        self.sets = dict(sets or {})
        self.usize = usize
        self.qb = qb
        self.rgrid = rgrid or [Fraction(x) for x in (0, 1, -1, 2, Fraction(1, 2), Fraction(-1, 2), 3, Fraction(1, 3))]

    def dom(self, ty):
        """(values, exact?)"""
        if ty == B:
            return [False, True], True
        if ty == A:
            return list(range(self.usize)), True
        if ty == N:
            return list(range(0, self.qb + 1)), False
        if ty == I:
            return list(range(-self.qb, self.qb + 1)), False
        return self.rgrid, False


def k_not(a):
    return None if a is None else (not a)


def k_and(a, b):
    if a is False or b is False:
        return False
    if a is None or b is None:
        return None
    return True


def k_or(a, b):
    return k_not(k_and(k_not(a), k_not(b)))


class Inexact(Exception):
    """the exact evaluator cannot give the value (irrational)"""


def isqrt_exact(n):
    import math
    r = math.isqrt(n)
    return r if r * r == n else None


def evn(a, v, mp, margin):
    """Numeric evaluation (mpmath, 50 digits) of the real fragment of the SymPy stream; comparisons
    answer True/False only outside `margin`, else None."""
    k = a[0]
    e = lambda t: evn(t, v, mp, margin)
    if k == "var":
        f = Fraction(v.vars[(a[1], a[2])])
        return mp.mpf(f.numerator) / f.denominator
    if k == "num":
        return mp.mpf(a[2]) / a[3]
    if k in ("add", "sub", "mul"):
        x, y = e(a[2]), e(a[3])
        if k == "add":
            return x + y
        if k == "mul":
            return x * y
        return max(x - y, mp.mpf(0)) if a[1] == N else x - y
    if k == "div":
        x, y = e(a[1]), e(a[2])
        if abs(y) < margin:
            if y == 0:
                return mp.mpf(0)
            raise Inexact()
        return x / y
    if k == "neg":
        return -e(a[2])
    if k == "abs":
        return abs(e(a[2]))
    if k == "pow":
        return e(a[2]) ** a[3]
    if k == "sqrt":
        x = e(a[1])
        return mp.sqrt(abs(x)) * (1 if x >= 0 else -1)
    if k == "exp":
        return mp.exp(e(a[1]))
    if k == "log":
        x = e(a[1])
        if abs(x) < margin and x != 0:
            raise Inexact()
        return mp.log(x) if x > 0 else mp.mpf(getattr(v, "log0", 0))
    if k in ("le", "lt", "ge", "gt", "eq"):
        x, y = e(a[2]), e(a[3])
        if abs(x - y) < margin:
            return None
        return {"le": x < y, "lt": x < y, "ge": x > y, "gt": x > y, "eq": False}[k]
    if k == "not":
        return k_not(e(a[1]))
    if k in ("cint", "oint"):
        return None
    raise Inexact()


def hdiv(a, b):
    return Fraction(0) if b == 0 else Fraction(a) / Fraction(b)


def ev(a, v, env=()):
    """env: tuple of ((name,ty), value) innermost first."""
    k = a[0]
    if k == "var":
        key = (a[1], a[2])
        for kk, val in env:
            if kk == key:
                return val
        return v.vars[key]
    if k == "num":
        return Fraction(a[2], a[3]) if a[1] == R else a[2]
    if k == "tt":
        return True
    if k == "ff":
        return False
    if k == "not":
        return k_not(ev(a[1], v, env))
    if k == "and":
        return k_and(ev(a[1], v, env), ev(a[2], v, env))
    if k == "or":
        return k_or(ev(a[1], v, env), ev(a[2], v, env))
    if k == "imp":
        return k_or(k_not(ev(a[1], v, env)), ev(a[2], v, env))
    if k in ("iff", "xor"):
        x, y = ev(a[1], v, env), ev(a[2], v, env)
        if x is None or y is None:
            return None
        return (x == y) if k == "iff" else (x != y)
    if k == "eq":
        x, y = ev(a[2], v, env), ev(a[3], v, env)
        if x is None or y is None:
            return None
        return x == y
    if k == "ite":
        c = ev(a[2], v, env)
        if c is None:
            x, y = ev(a[3], v, env), ev(a[4], v, env)
            return x if x == y else None
        return ev(a[3], v, env) if c else ev(a[4], v, env)
    if k in ("all", "ex"):
        vals, exact = v.dom(a[2])
        key = (a[1], a[2])
        res = []
        for x in vals:
            r = ev(a[3], v, ((key, x),) + env)
            if k == "all" and r is False:
                return False
            if k == "ex" and r is True:
                return True
            res.append(r)
        if exact and all(r is not None for r in res):
            return k == "all"
        if getattr(v, "decide", None) is not None:
            return v.decide(a, v, env)
        return None
    if k in ("add", "sub", "mul", "max", "min", "le", "lt", "ge", "gt"):
        x, y = ev(a[2], v, env), ev(a[3], v, env)
        if x is None or y is None:
            return None
        if k == "add":
            return x + y
        if k == "sub":
            return max(x - y, 0) if a[1] == N else x - y
        if k == "mul":
            return x * y
        if k == "max":
            return x if x >= y else y
        if k == "min":
            return x if x <= y else y
        return {"le": x <= y, "lt": x < y, "ge": x >= y, "gt": x > y}[k]
    if k == "div":
        x, y = ev(a[1], v, env), ev(a[2], v, env)
        return None if x is None or y is None else hdiv(x, y)
    if k == "neg":
        x = ev(a[2], v, env)
        return None if x is None else -x
    if k == "abs":
        x = ev(a[2], v, env)
        return None if x is None else (x if x >= 0 else -x)
    if k in ("ofnat", "ofint"):
        x = ev(a[1], v, env)
        return None if x is None else Fraction(x)
    if k == "pow":
        x = ev(a[2], v, env)
        return None if x is None else x ** a[3]
    if k == "sqrt":
        # total in the HOL library: sqrt x = (SOME y. sgn y = sgn x ∧ y ^ 2 = abs x), i.e. sgn(x) * sqrt |x|
        x = Fraction(ev(a[1], v, env))
        n, d = isqrt_exact(abs(x.numerator)), isqrt_exact(x.denominator)
        if n is None or d is None:
            raise Inexact()
        return Fraction(n, d) * (1 if x >= 0 else -1)
    if k == "exp":
        if a[1][0] == "log":
            t = ev(a[1][1], v, env)
            if t > 0:
                return Fraction(t)
        x = ev(a[1], v, env)
        if x == 0:
            return Fraction(1)
        raise Inexact()
    if k == "log":
        if a[1][0] == "exp":
            return Fraction(ev(a[1][1], v, env))
        x = ev(a[1], v, env)
        if x <= 0:
            return Fraction(getattr(v, "log0", 0))     # unspecified off the domain: any value
        if x == 1:
            return Fraction(0)
        raise Inexact()
    if k == "app":
        x = ev(a[4], v, env)
        return None if x is None else v.funs[(a[1], a[2], a[3])](x)
    if k == "mem":
        x = ev(a[1], v, env)
        return None if x is None else bool(v.sets[(a[2], a[3])](x))
    if k in ("cint", "oint"):
        x, l, u = ev(a[1], v, env), ev(a[2], v, env), ev(a[3], v, env)
        if x is None or l is None or u is None:
            return None
        return (l <= x <= u) if k == "cint" else (l < x < u)
    if k == "feq":
        f, g = v.funs[(a[1], a[3], a[4])], v.funs[(a[2], a[3], a[4])]
        if f is g:
            return True
        if any(f(x) != g(x) for x in GRID[a[3]]):
            return False
        return None
    raise ValueError(a)


def free_syms(a, bound=frozenset(), acc=None):
    """Returns dict: ('v',name,ty) | ('f',name,dom,cod) | ('s',name,dom) -> True, in first-occurrence order."""
    if acc is None:
        acc = {}
    k = a[0]
    if k == "var":
        if (a[1], a[2]) not in bound:
            acc[("v", a[1], a[2])] = True
    elif k in ("all", "ex"):
        free_syms(a[3], bound | {(a[1], a[2])}, acc)
    elif k == "app":
        acc[("f", a[1], a[2], a[3])] = True
        free_syms(a[4], bound, acc)
    elif k == "mem":
        free_syms(a[1], bound, acc)
        acc[("s", a[2], a[3])] = True
    elif k == "feq":
        acc[("f", a[1], a[3], a[4])] = True
        acc[("f", a[2], a[3], a[4])] = True
    else:
        for x in a[1:]:
            if isinstance(x, tuple):
                free_syms(x, bound, acc)
    return acc


def has_kind(a, kinds):
    if a[0] in kinds:
        return True
    return any(isinstance(x, tuple) and has_kind(x, kinds) for x in a[1:])


def size(a):
    return 1 + sum(size(x) for x in a[1:] if isinstance(x, tuple))


# ---------------------------------------------------------------------------------------------
# Independent guard-correct encoding into Z3 (own names; nothing shared with z3wrapper.convert).
# ---------------------------------------------------------------------------------------------
def int_valued_reals(a):
    """True when every real-typed subterm of the goal is integer valued by construction (of_nat /
    of_int of integer terms, integer literals, + - * max min abs if): such a goal can be encoded
    over Int alone, which Z3 decides far more often than the mixed Int/Real encoding."""
    k = a[0]
    if k in ("var", "all", "ex") and a[2] == R:
        return False
    if k in ("div", "cint", "oint"):
        return False
    if k == "num" and a[1] == R and a[3] != 1:
        return False
    if k == "app" and R in (a[2], a[3]):
        return False
    if k in ("mem", "feq") and R in a[1:]:
        return False
    return all(int_valued_reals(x) for x in a[1:] if isinstance(x, tuple))


class Enc:
    def __init__(self, z3, real_as_int=False):
        self.z3 = z3
        self.A = z3.DeclareSort("Aorc")
        self.n = 0
        self.side = []
        self.real_as_int = real_as_int      # only for goals with int_valued_reals

    def sort(self, ty):
        z3 = self.z3
        real = z3.IntSort() if self.real_as_int else z3.RealSort()
        return {B: z3.BoolSort(), N: z3.IntSort(), I: z3.IntSort(), R: real, A: self.A}[ty]

    def const(self, name, ty):
        return self.z3.Const("o_%s_%s" % (name, ty), self.sort(ty))

    def fun(self, name, dom, cod):
        return self.z3.Function("of_%s_%s_%s" % (name, dom, cod), self.sort(dom), self.sort(cod))

    def setf(self, name, dom):
        return self.z3.Function("os_%s_%s" % (name, dom), self.sort(dom), self.z3.BoolSort())

    def lit(self, ty, p, q):
        z3 = self.z3
        if ty == R and self.real_as_int:
            if q != 1:
                raise ValueError("fraction in the integer encoding")
            return z3.IntVal(p)
        return z3.RealVal("%d/%d" % (p, q)) if ty == R else z3.IntVal(p)

    def enc(self, a, env=()):
        z3 = self.z3
        k = a[0]
        e = lambda t: self.enc(t, env)
        if k == "var":
            for kk, c in env:
                if kk == (a[1], a[2]):
                    return c
            return self.const(a[1], a[2])
        if k == "num":
            return self.lit(a[1], a[2], a[3])
        if k == "tt":
            return z3.BoolVal(True)
        if k == "ff":
            return z3.BoolVal(False)
        if k == "not":
            return z3.Not(e(a[1]))
        if k == "and":
            return z3.And(e(a[1]), e(a[2]))
        if k == "or":
            return z3.Or(e(a[1]), e(a[2]))
        if k == "imp":
            return z3.Implies(e(a[1]), e(a[2]))
        if k == "iff":
            return e(a[1]) == e(a[2])
        if k == "xor":
            return z3.Xor(e(a[1]), e(a[2]))
        if k == "eq":
            return e(a[2]) == e(a[3])
        if k == "ite":
            return z3.If(e(a[2]), e(a[3]), e(a[4]))
        if k in ("all", "ex"):
            self.n += 1
            c = z3.Const("ob%d" % self.n, self.sort(a[2]))
            body = self.enc(a[3], (((a[1], a[2]), c),) + env)
            if a[2] == N:
                body = z3.Implies(c >= 0, body) if k == "all" else z3.And(c >= 0, body)
            return z3.ForAll([c], body) if k == "all" else z3.Exists([c], body)
        if k in ("add", "sub", "mul"):
            x, y = e(a[2]), e(a[3])
            if k == "add":
                return x + y
            if k == "mul":
                return x * y
            return z3.If(x - y >= 0, x - y, z3.IntVal(0)) if a[1] == N else x - y
        if k == "div":
            if self.real_as_int:
                raise ValueError("division in the integer encoding")
            x, y = e(a[1]), e(a[2])
            return z3.If(y == 0, z3.RealVal(0), x / y)
        if k == "neg":
            return -e(a[2])
        if k in ("le", "lt", "ge", "gt"):
            x, y = e(a[2]), e(a[3])
            return {"le": x <= y, "lt": x < y, "ge": x >= y, "gt": x > y}[k]
        if k in ("ofnat", "ofint"):
            return e(a[1]) if self.real_as_int else z3.ToReal(e(a[1]))
        if k == "pow":
            x = e(a[2])
            r = self.lit(a[1], 1, 1)
            for _ in range(a[3]):
                r = r * x
            return r
        if k == "max":
            x, y = e(a[2]), e(a[3])
            return z3.If(x >= y, x, y)
        if k == "min":
            x, y = e(a[2]), e(a[3])
            return z3.If(x <= y, x, y)
        if k == "abs":
            x = e(a[2])
            return z3.If(x >= 0, x, -x)
        if k == "app":
            r = self.fun(a[1], a[2], a[3])(e(a[4]))
            return z3.If(r >= 0, r, -r) if a[3] == N else r      # |f| ranges over all nat-valued functions
        if k == "mem":
            return self.setf(a[2], a[3])(e(a[1]))
        if k in ("cint", "oint"):
            x, l, u = e(a[1]), e(a[2]), e(a[3])
            return z3.And(l <= x, x <= u) if k == "cint" else z3.And(l < x, x < u)
        if k == "feq":
            self.n += 1
            c = z3.Const("ob%d" % self.n, self.sort(a[3]))
            env2 = ((("%feq", a[3]), c),)
            body = (self.enc(("app", a[1], a[3], a[4], ("var", "%feq", a[3])), env2) ==
                    self.enc(("app", a[2], a[3], a[4], ("var", "%feq", a[3])), env2))
            if a[3] == N:
                body = z3.Implies(c >= 0, body)
            return z3.ForAll([c], body)
        raise ValueError(a)

    def negated_goal(self, goal):
        """Assertions whose satisfiability means: the HOL goal has a countermodel."""
        z3 = self.z3
        out = [z3.Not(self.enc(goal))]
        for s in free_syms(goal):
            if s[0] == "v" and s[2] == N:
                out.append(self.const(s[1], N) >= 0)
        return out


def z3_num(z3, x):
    """Python value of a Z3 numeral, None when it is not a rational numeral."""
    if z3.is_true(x):
        return True
    if z3.is_false(x):
        return False
    if z3.is_int_value(x):
        return x.as_long()
    if z3.is_rational_value(x):
        return Fraction(x.numerator_as_long(), x.denominator_as_long())
    return None


def decode_model(z3, enc, m, goal):
    """Turn a Z3 model of the negated independent encoding into a `Val`; None if not decodable."""
    syms = free_syms(goal)
    univ = m.get_universe(enc.A) if has_sort_A(goal) else []
    univ = list(univ or [])
    uidx = {str(u): i for i, u in enumerate(univ)}

    def to_py(x, ty):
        if ty == A:
            s = str(x)
            if s not in uidx:
                uidx[s] = len(uidx)
                univ.append(x)
            return uidx[s]
        r = z3_num(z3, x)
        if r is None:
            raise ValueError("non-rational")
        if ty == R:
            return Fraction(r)
        return r

    def to_z3(val, ty):
        if ty == A:
            return univ[val]
        if ty == B:
            return z3.BoolVal(bool(val))
        if ty == R:
            f = Fraction(val)
            return z3.RealVal("%d/%d" % (f.numerator, f.denominator))
        return z3.IntVal(int(val))

    try:
        vars_, funs, sets = {}, {}, {}
        for s in syms:
            if s[0] == "v":
                vars_[(s[1], s[2])] = to_py(m.eval(enc.const(s[1], s[2]), model_completion=True), s[2])
            elif s[0] == "f":
                fd = enc.fun(s[1], s[2], s[3])

                def fn(x, fd=fd, dom=s[2], cod=s[3]):
                    r = to_py(m.eval(fd(to_z3(x, dom)), model_completion=True), cod)
                    return abs(r) if cod == N else r
                funs[(s[1], s[2], s[3])] = fn
            else:
                sd = enc.setf(s[1], s[2])

                def st(x, sd=sd, dom=s[2]):
                    return to_py(m.eval(sd(to_z3(x, dom)), model_completion=True), B)
                sets[(s[1], s[2])] = st
        return Val(vars_, funs, sets, usize=max(1, len(univ)), qb=4)
    except (ValueError, self_z3_exc(z3)):
        return None


def self_z3_exc(z3):
    return z3.Z3Exception


def has_sort_A(a):
    if a[0] in ("var", "all", "ex", "num", "eq", "ite") and A in a[1:4]:
        return True
    if a[0] in ("app", "mem", "feq") and A in a[1:]:
        return True
    return any(isinstance(x, tuple) and has_sort_A(x) for x in a[1:])


# ---------------------------------------------------------------------------------------------
# Brute force over small grids (second oracle; no solver involved)
# ---------------------------------------------------------------------------------------------
GRID = {B: [False, True], N: [0, 1, 2, 3], I: [-2, -1, 0, 1, 2], A: [0, 1],
        R: [Fraction(0), Fraction(1), Fraction(-1), Fraction(1, 2), Fraction(2), Fraction(-1, 2), Fraction(3), Fraction(1, 3)]}


def fun_tables(rng, dom, cod, n):
    """A few total functions dom -> cod as closures (defined everywhere by a formula over a table)."""
    out = []
    for i in range(n):
        tab = [rng.choice(GRID[cod]) for _ in range(7)]
        if i == 0:
            out.append(lambda x, c=cod: x if c != B else False)              # identity-like
        elif i == 1:
            out.append(lambda x, t=tab: t[0])                                # constant
        else:
            out.append(lambda x, t=tab: t[hash(x) % 7])
    if dom != cod or cod == B:
        out[0] = (lambda x, t=[rng.choice(GRID[cod]) for _ in range(7)]: t[(hash(x) + 1) % 7])
    return out


def brute_force(goal, rng, budget):
    """Returns a Val under which the goal is definitely false, or None."""
    syms = list(free_syms(goal))
    vs = [s for s in syms if s[0] == "v"]
    fs = [s for s in syms if s[0] != "v"]
    fchoices = []
    cache = {}
    for s in fs:
        key = (s[2], s[3] if s[0] == "f" else B)
        if key not in cache:
            cache[key] = fun_tables(rng, key[0], key[1], 3)
        fchoices.append(cache[key])
    count = 0
    for fsel in itertools.product(*fchoices) if fchoices else [()]:
        funs = {(s[1], s[2], s[3]): f for s, f in zip(fs, fsel) if s[0] == "f"}
        sets = {(s[1], s[2]): f for s, f in zip(fs, fsel) if s[0] == "s"}
        grids = [GRID[s[2]] for s in vs]
        total = 1
        for g in grids:
            total *= len(g)
        if total <= budget:
            it = itertools.product(*grids)
        else:
            it = (tuple(rng.choice(g) for g in grids) for _ in range(budget))
        for vals in it:
            count += 1
            v = Val({(s[1], s[2]): x for s, x in zip(vs, vals)}, funs, sets, usize=2, qb=3)
            try:
                if ev(goal, v) is False:
                    return v
            except (ZeroDivisionError, OverflowError):
                pass
            if count > 4 * budget:
                return None
    return None


def describe_val(goal, v):
    d = {}
    for s in free_syms(goal):
        if s[0] == "v":
            d["%s::%s" % (s[1], s[2])] = str(v.vars[(s[1], s[2])])
        elif s[0] == "f":
            d["%s::%s=>%s" % (s[1], s[2], s[3])] = {str(x): str(v.funs[(s[1], s[2], s[3])](x)) for x in GRID[s[2]][:5]}
        else:
            d["%s::%s set" % (s[1], s[2])] = {str(x): str(v.sets[(s[1], s[2])](x)) for x in GRID[s[2]][:5]}
    d["|'a|"] = v.usize
    return d


# ---------------------------------------------------------------------------------------------
# Generators
# ---------------------------------------------------------------------------------------------
FREE = {N: ["x", "y", "z"], I: ["i", "j"], R: ["a", "b", "c"], B: ["p", "q"], A: ["u", "v"]}
FUNS = {(N, N): "f", (R, R): "g", (I, I): "h", (A, A): "k", (I, N): "fi", (N, R): "fr"}
SETS = {N: "S", R: "T", A: "U", I: "Si"}
BOUND = {N: ["n", "m", "x", "rx"], I: ["i1", "i", "n"], R: ["r", "a", "rn"], B: ["b0"], A: ["w", "u"]}


class G:
    def __init__(self, rng):
        self.r = rng

    def var(self, ty, scope):
        cands = [("var", n, t) for (n, t) in scope if t == ty]
        if cands and self.r.random() < 0.6:
            return self.r.choice(cands)
        return ("var", self.r.choice(FREE[ty]), ty)

    def lit(self, ty):
        r = self.r
        if ty == N:
            return num(N, r.choice([0, 0, 1, 1, 2, 3, 5]))
        if ty == I:
            return num(I, r.choice([0, 1, -1, 2, -2, 3, -5]))
        return num(R, r.choice([0, 1, -1, 2, Fraction(1, 2), Fraction(-1, 2), Fraction(1, 3), Fraction(3, 2), 3]))

    def tm(self, ty, d, scope=()):
        """random term of numeric type ty / A"""
        r = self.r
        if ty == A:
            if d > 0 and r.random() < 0.3:
                return ("app", FUNS[(A, A)], A, A, self.tm(A, d - 1, scope))
            return self.var(A, scope)
        if d <= 0 or r.random() < 0.25:
            return self.var(ty, scope) if r.random() < 0.7 else self.lit(ty)
        ops = ["add", "add", "sub", "sub", "mul", "ite", "max", "min", "app"]
        if ty != N:
            ops += ["neg", "abs"]
        if ty == R:
            ops += ["div", "div", "ofnat", "ofnat", "litdiv"]
        op = r.choice(ops)
        s = lambda: self.tm(ty, d - 1, scope)
        if op in ("add", "sub", "max", "min"):
            return (op, ty, s(), s())
        if op == "mul":
            return ("mul", ty, s(), s()) if r.random() < 0.35 else ("mul", ty, self.lit(ty), s())
        if op == "ite":
            return ("ite", ty, self.atom(d - 1, scope), s(), s())
        if op in ("neg", "abs"):
            return (op, ty, s())
        if op == "div":
            return ("div", s(), self.lit(R) if r.random() < 0.5 else s())
        if op == "litdiv":                 # quotient of two integer literals (not a normal-form number)
            return ("div", num(R, r.choice([2, 4, 6, 3, 1, 0])), num(R, r.choice([4, 6, 2, 9, 0, 3])))
        if op == "ofnat":
            return ("ofnat", self.tm(N, d - 1, scope))
        if op == "app":
            if ty == N and r.random() < 0.3:
                return ("app", FUNS[(I, N)], I, N, self.tm(I, d - 1, scope))
            if ty == R and r.random() < 0.3:
                return ("app", FUNS[(N, R)], N, R, self.tm(N, d - 1, scope))
            return ("app", FUNS[(ty, ty)], ty, ty, s())
        raise ValueError(op)

    def atom(self, d, scope=()):
        r = self.r
        c = r.random()
        if c < 0.08:
            return self.var(B, scope)
        if c < 0.2:
            ty = r.choice([N, R, A, I])
            return ("mem", self.tm(ty, d, scope), SETS[ty], ty)
        if c < 0.27:
            return ("eq", A, self.tm(A, d, scope), self.tm(A, d, scope))
        ty = r.choice([N, N, I, R, R])
        op = r.choice(["le", "lt", "ge", "gt", "eq"])
        return (op, ty, self.tm(ty, d, scope), self.tm(ty, d, scope))

    def fm(self, d, scope=(), qd=2):
        r = self.r
        if d <= 0 or r.random() < 0.2:
            return self.atom(1, scope)
        c = r.random()
        if c < 0.3 and qd > 0:
            ty = r.choice([N, N, N, I, R, A, B])
            nm = r.choice(BOUND[ty])
            return (r.choice(["all", "ex"]), nm, ty, self.fm(d - 1, ((nm, ty),) + tuple(scope), qd - 1))
        if c < 0.45:
            return ("not", self.fm(d - 1, scope, qd))
        op = r.choice(["and", "or", "imp", "imp", "iff", "xor"])
        return (op, self.fm(d - 1, scope, qd), self.fm(d - 1, scope, qd))

    # ---- families of valid facts and near misses (validity is decided by the oracles, not here)
    def family(self):
        r = self.r
        d = r.choice([0, 0, 1, 1, 2])
        n = lambda: self.tm(N, d)
        i = lambda: self.tm(I, d)
        x = lambda: self.tm(R, d)
        ty = r.choice(NUM)
        t = lambda: self.tm(ty, d)
        s1, s2, s3 = n(), n(), n()
        e1, e2 = x(), x()
        t1, t2 = t(), t()
        bn = r.choice(BOUND[N])
        bv = ("var", bn, N)
        bi = r.choice(BOUND[I])
        biv = ("var", bi, I)
        Z0, Z1 = num(N, 0), num(N, 1)
        sub = lambda a, b: ("sub", N, a, b)
        add = lambda ty_, a, b: ("add", ty_, a, b)
        fams = [
            # --- truncated subtraction
            lambda: ("eq", N, add(N, sub(s1, s2), s2), s1),
            lambda: ("imp", ("le", N, s2, s1), ("eq", N, add(N, sub(s1, s2), s2), s1)),
            lambda: ("ge", N, add(N, sub(s1, s2), s2), s1),
            lambda: ("le", N, sub(s1, s2), s1),
            lambda: ("ge", N, sub(s1, s2), Z0),
            lambda: ("not", ("lt", N, sub(s1, s2), Z0)),
            lambda: ("eq", N, sub(sub(s1, s2), s3), sub(s1, add(N, s2, s3))),
            lambda: ("eq", N, sub(s1, sub(s2, s3)), add(N, sub(s1, s2), s3)),
            lambda: ("eq", N, sub(add(N, s1, s2), s2), s1),
            lambda: ("imp", ("lt", N, s1, s2), ("eq", N, sub(s1, s2), Z0)),
            lambda: ("imp", ("eq", N, sub(s1, s2), Z0), ("le", N, s1, s2)),
            lambda: ("imp", ("eq", N, sub(s1, s2), Z0), ("eq", N, s1, s2)),
            lambda: ("lt", N, sub(s1, Z1), s1),
            lambda: ("imp", ("gt", N, s1, Z0), ("lt", N, sub(s1, Z1), s1)),
            lambda: ("eq", N, sub(num(N, 2), num(N, 3)), Z0),
            lambda: ("not", ("eq", N, sub(num(N, 2), num(N, 3)), Z0)),
            lambda: ("ge", N, ("app", "f", N, N, sub(s1, s2)), Z0),
            # --- set operations (norm_term rewrites them away before convert) and bool-domain functions
            lambda: (lambda d, x_, A_, B_: r.choice([
                ("iff", ("memx", x_, ("union", A_, B_)), ("or", ("memx", x_, A_), ("memx", x_, B_))),
                ("imp", ("memx", x_, ("inter", A_, B_)), ("memx", x_, A_)),
                ("imp", ("memx", x_, A_), ("memx", x_, ("inter", A_, B_))),
                ("imp", ("subset", A_, B_), ("imp", ("memx", x_, A_), ("memx", x_, B_))),
                ("subset", A_, ("union", A_, B_)),
                ("subset", ("union", A_, B_), A_),
                ("imp", ("memx", x_, ("sdiff", A_, B_)), ("and", ("memx", x_, A_), ("not", ("memx", x_, B_)))),
                ("imp", ("memx", x_, A_), ("memx", x_, ("sdiff", A_, B_))),
                ("seteq", ("inter", A_, B_), ("inter", B_, A_)),
                ("seteq", ("union", A_, B_), A_),
                ("imp", ("memx", x_, ("empty", d)), ("ff",)),
                ("memx", x_, ("univ", d)),
                ("not", ("memx", x_, ("univ", d))),
                ("iff", ("memx", x_, ("insert", self.tm(d, 0), A_)), ("or", ("eq", d, x_, self.tm(d, 0)), ("memx", x_, A_))),
                ("memx", x_, ("insert", x_, A_)),
                ("memx", x_, ("insert", self.tm(d, 1), ("empty", d))),
                ("imp", ("seteq", A_, ("empty", d)), ("not", ("memx", x_, A_))),
                ("imp", ("all", bn, N, ("memx", bv, ("svar", "S", N))), ("seteq", ("svar", "S", N), ("univ", N))),
                ("imp", ("seteq", ("svar", "S", N), ("univ", N)), ("memx", sub(s1, s2), ("svar", "S", N))),
                ("imp", ("subset", ("univ", N), ("svar", "S", N)), ("memx", sub(s1, s2), ("svar", "S", N))),
                ("seteq", ("sdiff", A_, A_), ("empty", d)),
                ("subset", ("insert", self.tm(d, 0), A_), A_),
            ]))(*(lambda d: (d, self.tm(d, 1), ("svar", SETS[d], d), ("svar", SETS[d] + "2", d)))(r.choice([N, N, R, A, I]))),
            lambda: ("imp", ("eq", N, ("app", "fb", B, N, self.atom(1)), Z1), ("ge", N, ("app", "fb", B, N, self.atom(1)), Z0)),
            lambda: (lambda c_: ("eq", N, ("app", "fb", B, N, c_), ("app", "fb", B, N, ("not", ("not", c_)))))(self.atom(1)),
            lambda: ("eq", N, ("app", "fb", B, N, ("lt", N, num(N, 1), num(N, 2))), ("app", "fb", B, N, ("tt",))),
            lambda: ("eq", N, ("app", "fb", B, N, ("lt", N, num(N, 1), num(N, 2))), ("app", "fb", B, N, ("ff",))),
            lambda: ("ge", N, ("app", "fb", B, N, self.atom(1)), Z0),
            # --- unary minus on nat (declared, unspecified): nothing about it may be proved
            lambda: ("imp", ("gt", N, s1, Z0), ("lt", N, ("neg", N, s1), Z0)),
            lambda: ("ge", N, ("neg", N, s1), Z0),
            lambda: ("eq", N, ("add", N, ("neg", N, s1), s1), Z0),
            lambda: ("eq", N, ("neg", N, s1), Z0),
            lambda: ("le", N, ("neg", N, s1), s1),
            lambda: ("eq", N, ("neg", N, ("neg", N, s1)), s1),
            lambda: ("imp", ("eq", N, s1, s2), ("eq", N, ("neg", N, s1), ("neg", N, s2))),
            lambda: ("all", bn, N, ("le", N, ("neg", N, bv), Z0)),
            lambda: ("ex", bn, N, ("lt", N, ("neg", N, bv), Z0)),
            lambda: ("eq", R, ("ofnat", ("neg", N, s1)), ("neg", R, ("ofnat", s1))),
            # --- nat variables and terms are non-negative
            lambda: ("ge", N, s1, Z0),
            lambda: ("ge", N, ("mul", N, s1, s2), Z0),
            lambda: ("imp", ("lt", N, s1, Z1), ("eq", N, s1, Z0)),
            lambda: ("imp", ("not", ("eq", N, s1, Z0)), ("ge", N, s1, Z1)),
            lambda: ("lt", N, s1, Z0),
            lambda: ("imp", ("lt", N, s1, Z0), ("ff",)),
            lambda: ("ge", I, i(), num(I, 0)),
            # --- nat binders at both polarities
            lambda: ("all", bn, N, ("ge", N, bv, Z0)),
            lambda: ("not", ("all", bn, N, ("ge", N, bv, Z0))),
            lambda: ("ex", bn, N, ("lt", N, bv, Z0)),
            lambda: ("not", ("ex", bn, N, ("lt", N, bv, Z0))),
            lambda: ("imp", ("all", bn, N, ("ge", N, bv, Z0)), ("ff",)),
            lambda: ("imp", ("ex", bn, N, ("lt", N, bv, s1)), ("gt", N, s1, Z0)),
            lambda: ("imp", ("gt", N, s1, Z0), ("ex", bn, N, ("lt", N, bv, s1))),
            lambda: ("ex", bn, N, ("eq", N, add(N, bv, Z1), Z0)),
            lambda: ("all", bn, N, ("not", ("eq", N, add(N, bv, Z1), Z0))),
            lambda: ("iff", ("ex", bn, N, ("eq", N, add(N, bv, s1), s2)), ("le", N, s1, s2)),
            lambda: ("all", bn, N, ("ex", "m", N, ("gt", N, ("var", "m", N), bv))),
            lambda: ("ex", "m", N, ("all", bn, N, ("le", N, ("var", "m", N), bv))),
            lambda: ("ex", "m", I, ("all", bi, I, ("le", I, ("var", "m", I), biv))),
            lambda: ("all", bn, N, ("lt", N, sub(bv, Z1), bv)),
            lambda: ("all", bn, N, ("imp", ("gt", N, bv, Z0), ("lt", N, sub(bv, Z1), bv))),
            lambda: ("imp", ("all", bn, N, ("ge", N, ("app", "f", N, N, bv), Z1)), ("ge", N, ("app", "f", N, N, s1), Z1)),
            lambda: ("imp", ("all", bn, N, ("gt", N, ("app", "f", N, N, bv), bv)), ("gt", N, ("app", "f", N, N, sub(s1, s2)), Z0)),
            lambda: ("imp", ("all", bn, N, ("ge", I, ("app", "h", I, I, ("var", "i", I)), num(I, 0))), ("ge", I, ("app", "h", I, I, ("var", "i", I)), num(I, 0))),
            lambda: ("imp", ("all", bn, N, ("mem", bv, "S", N)), ("mem", sub(s1, s2), "S", N)),
            lambda: ("imp", ("all", bn, N, ("mem", bv, "S", N)), ("all", bi, I, ("mem", biv, "Si", I))),
            lambda: ("iff", ("not", ("all", bn, N, self.fm(1, ((bn, N),), 1))), ("ex", bn, N, ("not", self.fm(1, ((bn, N),), 1)))),
            lambda: ("all", bn, N, ("ex", bi, I, ("eq", I, add(I, biv, biv), num(I, 0)))),
            lambda: ("all", bi, I, ("ex", bn, N, ("ge", N, bv, Z0))),
            lambda: ("all", bi, I, ("ge", I, biv, num(I, 0))),
            lambda: ("ex", bi, I, ("lt", I, biv, num(I, 0))),
            lambda: ("imp", ("all", bn, N, ("imp", ("mem", bv, "S", N), ("ge", N, bv, Z1))), ("not", ("mem", Z0, "S", N))),
            lambda: ("imp", ("mem", s1, "S", N), ("ex", bn, N, ("mem", bv, "S", N))),
            lambda: ("imp", ("mem", i(), "Si", I), ("ex", bn, N, ("mem", ("var", bn, I), "Si", I))) if False else ("imp", ("mem", num(I, -1), "Si", I), ("ex", bi, I, ("mem", biv, "Si", I))),
            # --- of_nat
            lambda: ("ge", R, ("ofnat", s1), num(R, 0)),
            lambda: ("eq", R, ("ofnat", add(N, s1, s2)), add(R, ("ofnat", s1), ("ofnat", s2))),
            lambda: ("eq", R, ("ofnat", sub(s1, s2)), ("sub", R, ("ofnat", s1), ("ofnat", s2))),
            lambda: ("imp", ("ge", N, s1, s2), ("eq", R, ("ofnat", sub(s1, s2)), ("sub", R, ("ofnat", s1), ("ofnat", s2)))),
            lambda: ("imp", ("eq", R, ("ofnat", s1), ("ofnat", s2)), ("eq", N, s1, s2)),
            lambda: ("imp", ("eq", N, s1, s2), ("eq", R, ("ofnat", s1), ("ofnat", s2))),
            lambda: ("ex", bn, N, ("eq", R, ("ofnat", bv), num(R, Fraction(1, 2)))),
            lambda: ("all", bn, N, ("not", ("eq", R, ("ofnat", bv), num(R, Fraction(1, 2))))),
            lambda: ("all", bn, N, ("ge", R, ("ofnat", bv), num(R, 0))),
            lambda: ("ex", bn, N, ("lt", R, ("ofnat", bv), num(R, 0))),
            lambda: ("ex", bn, N, ("not", ("eq", R, ("ofnat", bv), ("ofnat", ("ite", N, ("eq", N, bv, bv), bv, Z0))))),
            lambda: ("all", bn, N, ("eq", R, ("ofnat", bv), ("ofnat", ("max", N, bv, bv)))),
            lambda: ("all", bn, N, ("ge", R, ("mul", R, ("ofnat", bv), ("ofnat", bv)), ("ofnat", bv))),
            lambda: ("imp", ("eq", R, ("ofnat", ("var", "x", N)), e1), ("ge", R, e1, num(R, 0))),
            lambda: ("lt", R, ("ofnat", s1), add(R, ("ofnat", s1), num(R, Fraction(1, 2)))),
            lambda: ("imp", ("lt", R, ("ofnat", s1), ("ofnat", s2)), ("le", R, add(R, ("ofnat", s1), num(R, 1)), ("ofnat", s2))),
            # --- division
            lambda: ("eq", R, ("mul", R, ("div", e1, e2), e2), e1),
            lambda: ("imp", ("not", ("eq", R, e2, num(R, 0))), ("eq", R, ("mul", R, ("div", e1, e2), e2), e1)),
            lambda: ("eq", R, ("div", e1, num(R, 0)), num(R, 0)),
            lambda: ("not", ("eq", R, ("div", e1, num(R, 0)), num(R, 1))),
            lambda: ("eq", R, ("mul", R, ("div", e1, e2), num(R, 0)), num(R, 0)),
            lambda: ("eq", R, add(R, ("div", e1, num(R, 2)), ("div", e1, num(R, 2))), e1),
            lambda: ("imp", ("gt", R, ("div", num(R, 1), e1), num(R, 0)), ("gt", R, e1, num(R, 0))),
            lambda: ("imp", ("gt", R, e1, num(R, 0)), ("gt", R, ("div", num(R, 1), e1), num(R, 0))),
            lambda: ("eq", R, ("div", num(R, 2), num(R, 6)), num(R, Fraction(1, 3))),
            lambda: ("not", ("eq", R, ("div", num(R, 2), num(R, 6)), num(R, Fraction(1, 3)))),
            lambda: ("not", ("eq", R, ("div", add(R, num(R, 1), num(R, 1)), num(R, 3)), num(R, Fraction(2, 3)))),
            lambda: ("imp", ("eq", R, e1, ("div", num(R, 2), num(R, 6))), ("eq", R, ("mul", R, num(R, 3), e1), num(R, 1))),
            lambda: ("lt", R, ("div", num(R, 4), num(R, 6)), ("div", num(R, 2), num(R, 3))),
            lambda: ("eq", R, ("div", e1, e1), num(R, 1)),
            lambda: ("eq", R, ("div", num(R, 3), num(R, 0)), num(R, 0)),
            lambda: ("gt", R, ("div", num(R, 3), ("sub", R, e1, e1)), num(R, 0)),
            # --- integer literals of type real under if/max/min/abs, then divided (sort Int vs Real)
            lambda: ("eq", R, ("div", ("ite", R, ("var", "p", B), num(R, 1), num(R, 3)), num(R, 2)), ("ite", R, ("var", "p", B), num(R, 0), num(R, 1))),
            lambda: ("eq", R, ("div", ("ite", R, ("var", "p", B), num(R, 1), num(R, 3)), num(R, 2)), ("ite", R, ("var", "p", B), num(R, Fraction(1, 2)), num(R, Fraction(3, 2)))),
            lambda: (lambda k1, k2, k3: ("eq", R, ("div", ("max", R, num(R, k1), num(R, k2)), num(R, k3)), num(R, r.choice([max(k1, k2) // k3, Fraction(max(k1, k2), k3)]))))(r.randint(0, 7), r.randint(0, 7), r.randint(2, 4)),
            lambda: (lambda k1, k3: ("lt", R, ("div", ("abs", R, num(R, k1)), num(R, k3)), num(R, r.choice([abs(k1) // k3 + 1, Fraction(abs(k1), k3)]))))(r.randint(-7, 7), r.randint(2, 4)),
            lambda: ("eq", R, ("mul", R, ("div", ("min", R, num(R, 3), e1), num(R, 2)), num(R, 2)), ("min", R, num(R, 3), e1)),
            # --- min / max / abs
            lambda: ("ge", ty, ("max", ty, t1, t2), t1),
            lambda: ("ge", ty, ("max", ty, t1, t2), t2),
            lambda: ("le", ty, ("min", ty, t1, t2), t1),
            lambda: ("le", ty, ("min", ty, t1, t2), t2),
            lambda: ("ge", ty, ("min", ty, t1, t2), t1),
            lambda: ("le", ty, ("max", ty, t1, t2), t2),
            lambda: ("or", ("eq", ty, ("max", ty, t1, t2), t1), ("eq", ty, ("max", ty, t1, t2), t2)),
            lambda: ("eq", ty, add(ty, ("max", ty, t1, t2), ("min", ty, t1, t2)), add(ty, t1, t2)),
            lambda: ("imp", ("le", ty, t1, t2), ("eq", ty, ("min", ty, t1, t2), t1)),
            lambda: ("imp", ("le", ty, t1, t2), ("eq", ty, ("max", ty, t1, t2), t1)),
            lambda: ("ge", R, ("abs", R, e1), num(R, 0)),
            lambda: ("ge", I, ("abs", I, i()), num(I, 0)),
            lambda: ("ge", R, ("abs", R, e1), e1),
            lambda: ("eq", R, ("abs", R, e1), e1),
            lambda: ("lt", R, ("abs", R, e1), num(R, 0)),
            lambda: ("eq", R, ("abs", R, ("neg", R, e1)), ("abs", R, e1)),
            lambda: ("eq", R, ("max", R, e1, e2), ("mul", R, num(R, Fraction(1, 2)), add(R, add(R, e1, e2), ("abs", R, ("sub", R, e1, e2))))),
            # --- if-then-else
            lambda: ("le", ty, ("ite", ty, self.atom(1), t1, t2), ("max", ty, t1, t2)),
            lambda: ("ge", ty, ("ite", ty, self.atom(1), t1, t2), ("max", ty, t1, t2)),
            lambda: ("eq", N, ("ite", N, ("le", N, s1, s2), sub(s2, s1), sub(s1, s2)), add(N, sub(s1, s2), sub(s2, s1))),
            # --- intervals
            lambda: ("imp", ("cint", e1, num(R, 0), num(R, 1)), ("ge", R, e1, num(R, 0))),
            lambda: ("imp", ("oint", e1, num(R, 0), e2), ("and", ("lt", R, e1, e2), ("gt", R, e2, num(R, 0)))),
            lambda: ("imp", ("cint", e1, num(R, 0), num(R, 1)), ("oint", e1, num(R, 0), num(R, 1))),
            lambda: ("imp", ("oint", e1, num(R, 0), num(R, 1)), ("cint", e1, num(R, 0), num(R, 1))),
            lambda: ("imp", ("cint", e1, num(R, -1), num(R, 1)), ("le", R, ("mul", R, e1, e1), num(R, 1))),
            lambda: ("imp", ("cint", e1, num(R, 1), num(R, 0)), ("ff",)),
            # --- uninterpreted sort
            lambda: ("imp", ("all", "w", A, ("eq", A, ("app", "k", A, A, ("var", "w", A)), ("var", "w", A))), ("eq", A, ("app", "k", A, A, ("app", "k", A, A, ("var", "v", A))), ("var", "v", A))),
            lambda: ("ex", "w", A, ("eq", A, ("var", "w", A), ("var", "v", A))),
            lambda: ("all", "w", A, ("all", "u", A, ("eq", A, ("var", "w", A), ("var", "u", A)))),
            lambda: ("ex", "w", A, ("tt",)),
            lambda: ("imp", ("mem", ("var", "u", A), "U", A), ("ex", "w", A, ("mem", ("var", "w", A), "U", A))),
            # --- untranslatable pieces
            lambda: ("ge", R, ("ofint", i()), num(R, 1)),
            lambda: ("imp", ("ge", R, ("ofint", i()), num(R, 1)), ("ge", N, s1, Z0)),
            lambda: ("imp", ("ge", R, ("ofint", i()), num(R, 1)), ("lt", N, s1, Z0)),
            lambda: ("imp", ("lt", N, s1, Z0), ("lt", I, ("pow", I, i(), 2), num(I, 0))),
            lambda: ("imp", ("ge", N, s1, Z0), ("lt", I, ("pow", I, i(), 2), num(I, 0))),
            lambda: ("lt", N, ("pow", N, s1, 2), Z0),
            lambda: ("ge", N, ("pow", N, s1, 2), Z0),
            lambda: ("and", ("ge", N, s1, Z0), ("lt", I, ("pow", I, i(), 2), num(I, 0))),
            lambda: ("or", ("ge", N, s1, Z0), ("lt", I, ("pow", I, i(), 2), num(I, 0))),
            # --- function equations, same name at two types
            lambda: ("imp", ("feq", "f", "f2", N, N), ("ff",)),
            lambda: ("not", ("feq", "f", "f2", N, N)),
            lambda: ("imp", ("feq", "f", "f2", N, N), ("eq", N, ("app", "f", N, N, s1), ("app", "f2", N, N, s1))),
            lambda: ("imp", ("eq", N, ("var", "x", N), Z0), ("eq", I, ("var", "x", I), num(I, 0))),
            lambda: ("or", ("ge", I, ("var", "x", I), num(I, 0)), ("lt", N, ("var", "x", N), Z0)),
            lambda: ("imp", ("eq", N, ("app", "f", N, N, Z0), Z1), ("eq", I, ("app", "f", I, I, num(I, 0)), num(I, 1))),
        ]
        return r.choice(fams)()

    # ---- directed families: nested binders with EQUAL stored names (de Bruijn terms as they
    #      arise by beta-reduction), and of_nat / of_int of variables bound by ! and ? under
    #      quantifier alternation.  Closed or nearly closed goals; validity decided by the oracles.
    def pol(self, g):
        return self.r.choice([g, g, ("not", g), ("imp", g, ("ff",)), ("imp", ("not", g), ("ff",)), ("not", ("not", g)),
                              ("or", g, ("ff",)), ("imp", ("tt",), g)])

    def relat(self, ty, a, b):
        op = self.r.choice(["le", "lt", "ge", "gt", "eq", "ne", "le", "ge"])
        return ("not", ("eq", ty, a, b)) if op == "ne" else (op, ty, a, b)

    def same_name_binders(self):
        r = self.r
        ty = r.choice([N, N, I, R])
        stored = r.choice(["x", "n", "a", "i", "y"])          # some are also free variables of other goals
        o, i, j = ("var", "o#", ty), ("var", "i#", ty), ("var", "j#", ty)
        q = lambda: r.choice(["all", "ex"])
        lit = self.lit(ty)
        shape = r.randint(0, 5)
        if shape == 0:
            g = (q(), "o#", ty, (q(), "i#", ty, self.relat(ty, i, o), stored), stored)
        elif shape == 1:
            inner = (q(), "i#", ty, self.relat(ty, i, o), stored)
            g = (q(), "o#", ty, (r.choice(["and", "imp", "or"]), self.relat(ty, o, lit), inner), stored)
        elif shape == 2:
            g = (q(), "o#", ty, (q(), "i#", ty, (q(), "j#", ty,
                 (r.choice(["and", "or", "imp"]), self.relat(ty, i, o), self.relat(ty, j, i)), stored), stored), stored)
        elif shape == 3:
            fv = ("var", stored, ty)
            g = (q(), "o#", ty, (q(), "i#", ty, (r.choice(["and", "or"]), self.relat(ty, i, o), self.relat(ty, o, fv)), stored), stored)
        elif shape == 4:
            # the classic: ?x. !x. B0 <= B1  /  !x. ?x. B1 < B0
            g = r.choice([("ex", "o#", ty, ("all", "i#", ty, ("le", ty, i, o), stored), stored),
                          ("all", "o#", ty, ("ex", "i#", ty, ("lt", ty, o, i), stored), stored),
                          ("ex", "o#", ty, ("ex", "i#", ty, ("lt", ty, i, o), stored), stored),
                          ("ex", "o#", ty, ("all", "i#", ty, ("eq", ty, i, o), stored), stored),
                          ("all", "o#", ty, ("all", "i#", ty, ("le", ty, i, o), stored), stored)])
        else:
            inner = (q(), "i#", ty, self.relat(ty, ("add", ty, i, lit), o), stored)
            g = (q(), "o#", ty, ("not", inner), stored)
        return self.pol(g)

    def ofnat_bound(self):
        r = self.r
        m, n, a = ("var", "m", N), ("var", "n", N), ("var", "a", R)
        on = lambda t: ("ofnat", t)
        k = num(R, r.choice([1, 2, 3]))
        half = num(R, Fraction(1, 2))
        fams = [
            lambda: ("all", "m", N, ("ex", "n", N, ("gt", R, on(n), on(m)))),
            lambda: ("ex", "n", N, ("all", "m", N, ("le", R, on(m), on(n)))),
            lambda: ("all", "m", N, ("ex", "n", N, ("eq", R, on(n), ("add", R, on(m), num(R, 1))))),
            lambda: ("all", "m", N, ("ex", "n", N, ("lt", R, on(n), on(m)))),
            lambda: ("all", "a", R, ("ex", "n", N, ("lt", R, a, on(n)))),
            lambda: ("ex", "a", R, ("all", "n", N, ("ge", R, a, on(n)))),
            lambda: ("all", "a", R, ("imp", ("and", ("le", R, num(R, 0), a), ("lt", R, a, k)),
                                      ("ex", "n", N, ("and", ("lt", R, a, on(n)), ("le", R, on(n), ("add", R, a, num(R, 1))))))),
            lambda: ("all", "a", R, ("imp", ("lt", R, a, k), ("ex", "n", N, ("lt", R, a, on(n))))),
            lambda: ("ex", "n", N, ("or", ("and", ("lt", R, on(n), num(R, 1)), ("eq", N, n, num(N, 1))),
                                          ("and", ("ge", R, on(n), num(R, 1)), ("eq", N, n, num(N, 0))))),
            lambda: ("all", "n", N, ("or", ("and", ("lt", R, on(n), num(R, 1)), ("eq", N, n, num(N, 0))),
                                           ("and", ("ge", R, on(n), num(R, 1)), ("ge", N, n, num(N, 1))))),
            lambda: ("all", "m", N, ("ex", "n", N, ("and", ("eq", N, n, m), ("not", ("eq", R, on(n), on(("max", N, n, m))))))),
            lambda: ("all", "m", N, ("ex", "n", N, ("and", ("eq", N, n, m), ("eq", R, on(n), on(("max", N, n, m)))))),
            lambda: ("ex", "n", N, ("eq", R, on(n), on(("var", "x", N)))),
            lambda: ("ex", "n", N, ("and", ("eq", R, on(n), on(("var", "x", N))), ("not", ("eq", N, n, ("var", "x", N))))),
            lambda: ("all", "n", N, ("ge", R, on(n), num(R, 0))),
            lambda: ("ex", "n", N, ("lt", R, on(n), num(R, 0))),
            lambda: ("ex", "n", N, ("eq", R, on(n), half)),
            lambda: ("all", "m", N, ("ex", "n", N, ("and", ("lt", R, on(m), ("add", R, on(n), half)), ("lt", R, on(n), ("add", R, on(m), half))))),
            lambda: ("ex", "n", N, ("all", "m", N, ("imp", ("lt", R, on(m), on(n)), ("eq", N, m, num(N, 0))))),
            lambda: ("all", "m", N, ("ex", "n", N, ("eq", R, ("mul", R, num(R, 2), on(n)), ("add", R, on(m), on(m))))),
            lambda: ("all", "a", R, ("ex", "n", N, ("ex", "m", N, ("lt", R, ("sub", R, on(m), on(n)), a)))),
            # of_int: untranslatable, the step must fail unless the rest is contradictory
            lambda: ("ex", "i", I, ("lt", R, ("ofint", ("var", "i", I)), num(R, 0))),
            lambda: ("all", "i", I, ("ge", R, ("ofint", ("var", "i", I)), num(R, 0))),
            lambda: ("imp", ("ex", "i", I, ("eq", R, ("ofint", ("var", "i", I)), half)), ("ff",)),
            lambda: ("all", "i", I, ("ex", "n", N, ("le", R, ("ofint", ("var", "i", I)), on(n)))),
            lambda: ("ex", "n", N, ("all", "i", I, ("le", R, ("ofint", ("var", "i", I)), on(n)))),
        ]
        if r.random() < 0.3:
            # random prefix / random body over of_nat of the bound variables
            vs = [("m", N), ("n", N)] if r.random() < 0.7 else [("a", R), ("n", N)]
            tm = lambda v: ("var", v[0], v[1]) if v[1] == R else on(("var", v[0], N))
            t1 = r.choice([tm(vs[0]), ("add", R, tm(vs[0]), self.lit(R)), ("mul", R, num(R, 2), tm(vs[0]))])
            t2 = r.choice([tm(vs[1]), ("add", R, tm(vs[1]), self.lit(R))])
            body = self.relat(R, t2, t1)
            if r.random() < 0.4:
                body = (r.choice(["and", "or", "imp"]), body, self.relat(R, tm(vs[1]), self.lit(R)))
            g = body
            for v in reversed(vs if r.random() < 0.5 else vs[::-1]):
                g = (r.choice(["all", "ex"]), v[0], v[1], g)
            return self.pol(g)
        return self.pol(r.choice(fams)())

    def directed(self):
        return self.same_name_binders() if self.r.random() < 0.5 else self.ofnat_bound()

    def wrap(self, g):
        """Place a goal at varying polarity / under propositional structure."""
        r = self.r
        c = r.random()
        if c < 0.55:
            return g
        if c < 0.65:
            return ("not", ("not", g))
        if c < 0.72:
            return ("imp", self.fm(1), g)
        if c < 0.79:
            return ("imp", ("not", g), ("ff",))
        if c < 0.86:
            return ("or", g, ("ff",))
        if c < 0.92:
            return ("and", g, self.family())
        return ("imp", ("imp", g, ("ff",)), ("ff",))

    def goal(self):
        r = self.r
        c = r.random()
        if c < 0.75:
            return self.wrap(self.family())
        if c < 0.85:
            f = self.fm(2)
            return r.choice([("imp", f, f), ("or", f, ("not", f)), ("iff", ("not", ("not", f)), f), ("imp", ("and", f, self.fm(1)), f)])
        return self.fm(r.choice([1, 2, 3]))


# ---------------------------------------------------------------------------------------------
# Z3 stage: the real wrapper + oracles
# ---------------------------------------------------------------------------------------------
def canon(goal):
    return json.dumps(tolist(goal), separators=(",", ":"))


def split_prems(goal):
    prems = []
    while goal[0] == "imp":
        prems.append(goal[1])
        goal = goal[2]
    return prems, goal


def call_z3(H, goal, via_macro, limit=60):
    """('accept'|'reject'|'raise:<Type>', flag_ok)"""
    zw = H.zw
    try:
        with time_limit(limit):
            if via_macro:
                prems, concl = split_prems(goal)
                try:
                    th = zw.Z3Macro().eval(H.term(concl), [H.Thm(H.term(p)) for p in prems])
                    res = "accept" if th.prop == H.term(concl) and not th.hyps else "raise:bad-thm"
                except AssertionError:
                    res = "reject"
            else:
                res = "accept" if zw.solve(H.term(goal)) is True else "reject"
    except Timeout:
        res = "raise:Timeout"
    except Exception as e:  # noqa
        res = "raise:" + type(e).__name__
    flag_ok = zw.check_z3 is True and zw.z3_loaded is True
    return res, flag_ok


def oracle_view(a):
    """uminus :: 'a => 'a is declared at every type but specified on int and real only: on nat it
    is an arbitrary function nat => nat.  For the oracles -t (t :: nat) is %uminus t with %uminus an
    uninterpreted function variable."""
    if not isinstance(a, tuple):
        return a
    if a[0] == "neg" and a[1] == N:
        return ("app", "%uminus", N, N, oracle_view(a[2]))
    if a[0] == "memx":
        return desugar_mem(oracle_view(a[1]), a[2])
    if a[0] in ("subset", "seteq"):
        _fresh[0] += 1
        nm = "e#%d" % _fresh[0]
        dom = sdom(a[1])
        x = ("var", nm, dom)
        l, r = desugar_mem(x, a[1]), desugar_mem(x, a[2])
        return ("all", nm, dom, ("imp", l, r) if a[0] == "subset" else ("iff", l, r))
    return tuple(oracle_view(x) for x in a)


def judge(H, goal, rng, budget):
    """Independent verdict on a goal the wrapper accepted.
    Returns ('violation', how, Val) | ('valid-by-oracle',) | ('no-countermodel-found', why)"""
    z3 = H.z3
    goal = oracle_view(goal)
    v = brute_force(goal, rng, budget)
    if v is not None:
        return ("violation", "brute-force", v)
    if has_kind(goal, ("pow",)) and False:
        return ("no-countermodel-found", "pow")
    try:
        enc = Enc(z3)
        s = z3.Solver()
        for c in enc.negated_goal(goal):
            s.add(c)
        r = str(s.check())
        if r not in ("sat", "unsat") and int_valued_reals(goal):
            enc = Enc(z3, real_as_int=True)
            s = z3.Solver()
            for c in enc.negated_goal(goal):
                s.add(c)
            r = str(s.check())
    except (z3.Z3Exception, ValueError) as e:  # noqa
        return ("no-countermodel-found", "oracle-encoding-error")
    if r == "unsat":
        return ("valid-by-oracle",)
    if r != "sat":
        return ("no-countermodel-found", "oracle-unknown")
    v = decode_model(z3, enc, s.model(), goal)
    if v is None:
        return ("no-countermodel-found", "model-not-rational")
    try:
        val = ev(goal, v)
        how = "z3-countermodel-confirmed-by-evaluation"
        if val is None:
            v.decide = lambda node, vv, env: decide_closed(z3, node, vv, env)
            val = ev(goal, v)
            how = "z3-countermodel-confirmed-by-evaluation+closed-quantified-subformulas-decided-by-the-independent-encoding"
    except Exception:  # noqa
        return ("no-countermodel-found", "model-eval-error")
    if val is False:
        return ("violation", how, v)
    return ("no-countermodel-found", "model-unconfirmed:%s" % val)


def subst_vals(a, v, env, bound=frozenset()):
    """Replace free variables of a by literals (their values under v/env); None if not possible."""
    k = a[0]
    if k == "var":
        key = (a[1], a[2])
        if key in bound:
            return a
        val = None
        for kk, x in env:
            if kk == key:
                val = x
                break
        else:
            val = v.vars.get(key)
        if val is None or a[2] == A:
            return None
        if a[2] == B:
            return ("tt",) if val else ("ff",)
        return num(a[2], val)
    if k in ("app", "mem", "feq"):
        return None
    if k in ("all", "ex"):
        b = subst_vals(a[3], v, env, bound | {(a[1], a[2])})
        return None if b is None else (k, a[1], a[2], b)
    out = [k]
    for x in a[1:]:
        if isinstance(x, tuple):
            x = subst_vals(x, v, env, bound)
            if x is None:
                return None
        out.append(x)
    return tuple(out)


def decide_closed(z3, node, v, env):
    """Truth value of a quantified subformula under a concrete valuation, decided by the
    independent encoding on the closed formula (no uninterpreted symbols)."""
    closed = subst_vals(node, v, env)
    if closed is None:
        return None
    modes = [False, True] if int_valued_reals(closed) else [False]
    try:
        for mode in modes:
            for want, f in ((True, ("not", closed)), (False, closed)):
                s = z3.Solver()
                s.add(Enc(z3, real_as_int=mode).enc(f))
                if str(s.check()) == "unsat":
                    return want
    except (z3.Z3Exception, ValueError):
        return None
    return None


def z3_check_goals(ctx, H, goals, rng, label):
    nacc = 0
    for idx, goal in enumerate(goals):
        via_macro = (idx % 5 == 4)
        res, flag_ok = call_z3(H, goal, via_macro)
        nontriv = size(goal) >= 5
        ctx.case(("z3", canon(goal)), nontrivial=nontriv)
        ctx.count("z3:%s:%s" % (label, res if not res.startswith("raise") else "fails-with-exception"))
        if res.startswith("raise"):
            ctx.count("z3:exc:" + res[6:])
        if not flag_ok:
            ctx.violation("z3:check_z3-flag-off", "z3wrapper.check_z3 / z3_loaded is not True after a call: the macro would assert goals without calling Z3",
                          {"kind": "flag", "goal": tolist(goal)})
        if res != "accept":
            continue
        nacc += 1
        verdict = judge(H, goal, rng, ctx.scale(600, 3000))
        if verdict[0] == "no-countermodel-found" and verdict[1].startswith("model-unconf"):
            ctx.log("UNCONFIRMED", H.term(goal))
        ctx.count("z3:oracle:" + verdict[0] + (":" + verdict[1] if len(verdict) > 1 and verdict[0] != "violation" else ""))
        if verdict[0] == "violation":
            val = describe_val(oracle_view(goal), verdict[2])
            ctx.violation("z3:accepts-invalid:" + canon(goal),
                          "z3wrapper %s accepts %s, which is false in HOL under %s (%s)" % ("Z3Macro.eval" if via_macro else "solve", H.term(goal), val, verdict[1]),
                          {"kind": "z3", "goal": tolist(goal), "via_macro": via_macro, "countermodel": val, "how": verdict[1]})
    return nacc


def flag_checks(ctx, H):
    """check_z3 gates the solver call in Z3Macro.eval / Z3Method.apply: it must be on."""
    if H.flag_at_import != (True, True):
        ctx.violation("z3:check_z3-flag-off", "z3wrapper.check_z3 / z3_loaded is %s at import: the macro asserts goals without calling Z3" % (H.flag_at_import,),
                      {"kind": "flag", "at": "import"})
    # the macro really consults the solver: an invalid goal must be refused
    try:
        H.zw.Z3Macro().eval(H.term(("eq", N, ("var", "x", N), ("var", "y", N))), [])
        ctx.violation("z3:macro-asserts-without-solver", "Z3Macro.eval returned a theorem for x = y", {"kind": "flag", "at": "macro"})
    except AssertionError:
        ctx.count("z3:macro-refuses-invalid")
    except Exception as e:  # noqa
        ctx.count("z3:macro-refuses-invalid:" + type(e).__name__)



# ---------------------------------------------------------------------------------------------
# SymPy stage
# ---------------------------------------------------------------------------------------------
class GS:
    def __init__(self, rng):
        self.r = rng
        self.X = ("var", "x", R)

    def q(self, pool=None):
        return num(R, self.r.choice(pool or [0, 1, -1, 2, -2, 3, Fraction(1, 2), Fraction(-1, 2), Fraction(1, 3), Fraction(3, 2), Fraction(2, 3)]))

    def ex(self, d, var=True):
        r = self.r
        if d <= 0 or r.random() < 0.25:
            return self.X if (var and r.random() < 0.6) else self.q()
        op = r.choice(["add", "sub", "mul", "mul", "div", "div", "neg", "abs", "pow", "litdiv"])
        s = lambda: self.ex(d - 1, var)
        if op in ("add", "sub", "mul"):
            return (op, R, s(), s())
        if op == "div":
            return ("div", s(), s())
        if op == "litdiv":
            return ("div", num(R, r.choice([1, 2, 3, 0])), num(R, r.choice([0, 2, 4, 6])))
        if op == "pow":
            return ("pow", R, s(), r.choice([2, 2, 3]))
        return (op, R, s())

    def inner_quot(self):
        """a quotient to be placed inside a divisor or a numerator"""
        r, X = self.r, self.X
        one = num(R, 1)
        c = self.q([1, -1, 2, Fraction(1, 2), 0])
        xc = ("sub", R, X, c)
        return r.choice([
            ("div", X, X), ("div", ("mul", R, num(R, 2), X), X), ("div", X, ("mul", R, X, X)), ("div", one, ("div", one, X)),
            ("div", xc, xc), ("div", X, xc), ("div", ("mul", R, X, X), X), ("div", ("div", one, X), ("div", one, X)),
            ("div", one, X), ("div", xc, X), ("div", ("abs", R, X), X), ("div", ("add", R, X, one), ("add", R, X, one)),
            ("div", X, ("abs", R, X)), ("div", ("mul", R, X, xc), ("mul", R, X, xc)), ("div", num(R, 2), ("div", X, num(R, 3))),
        ])

    def nested_quot(self):
        """a term with a quotient nested in a divisor and/or a numerator"""
        r = self.r
        one = num(R, 1)
        q1, q2 = self.inner_quot(), self.inner_quot()
        e = self.ex(1)
        return r.choice([("div", one, q1), ("div", e, q1), ("div", q1, e), ("div", q1, q2), ("div", q1, q1),
                         ("div", ("add", R, q1, e), q1), ("div", one, ("add", R, q1, one)), ("div", one, ("div", one, q1)),
                         ("mul", R, q1, ("div", one, q1)), ("div", ("div", q1, q2), q1), ("add", R, ("div", one, q1), e)])

    def nested_plain(self):
        r = self.r
        t = self.nested_quot()
        one, zero = num(R, 1), num(R, 0)
        return r.choice([
            lambda: ("eq", R, t, one), lambda: ("eq", R, t, self.X), lambda: ("eq", R, t, t), lambda: ("eq", R, t, self.ex(1)),
            lambda: ("not", ("eq", R, t, zero)), lambda: ("not", ("eq", R, t, self.q())), lambda: ("gt", R, t, zero),
            lambda: ("ge", R, t, one), lambda: ("ge", R, ("abs", R, t), zero), lambda: ("le", R, t, t),
            lambda: ("eq", R, ("sub", R, t, t), zero), lambda: ("eq", R, ("mul", R, t, zero), zero),
        ])()

    def nested_interval(self):
        r, X = self.r, self.X
        pool = [0, 1, -1, 2, -2, Fraction(1, 2), Fraction(-1, 2), 3]
        l, u = sorted([Fraction(r.choice(pool)), Fraction(r.choice(pool))])
        cond = (r.choice(["cint", "cint", "oint"]), X, num(R, l), num(R, u))
        t = self.nested_quot()
        one, zero = num(R, 1), num(R, 0)
        goal = r.choice([
            lambda: ("gt", R, t, zero), lambda: ("ge", R, t, zero), lambda: ("ge", R, t, one), lambda: ("le", R, t, one),
            lambda: ("not", ("eq", R, t, zero)), lambda: ("not", ("eq", R, t, self.q())), lambda: ("ge", R, ("abs", R, t), zero),
            lambda: ("gt", R, ("abs", R, t), zero), lambda: ("not", ("eq", R, ("sub", R, t, one), zero)), lambda: ("le", R, t, t),
        ])()
        return goal, cond

    def second_var(self):
        """(goal, cond): interval condition on x, goal mentions another variable y"""
        r, X = self.r, self.X
        Y = ("var", "y", R)
        one, zero = num(R, 1), num(R, 0)
        pool = [0, 1, -1, 2, Fraction(1, 2)]
        l, u = sorted([Fraction(r.choice(pool)), Fraction(r.choice(pool))])
        cond = (r.choice(["cint", "oint"]), X, num(R, l), num(R, u))
        goal = r.choice([
            lambda: ("ge", R, ("mul", R, ("div", one, Y), Y), one),
            lambda: ("gt", R, ("div", Y, Y), zero),
            lambda: ("not", ("eq", R, ("div", Y, Y), zero)),
            lambda: ("not", ("eq", R, ("div", one, Y), zero)),
            lambda: ("ge", R, ("mul", R, Y, Y), zero),
            lambda: ("ge", R, ("add", R, X, ("div", Y, Y)), X),
            lambda: ("gt", R, ("add", R, X, ("div", Y, Y)), X),
            lambda: ("not", ("eq", R, ("mul", R, X, ("div", one, Y)), one)),
            lambda: ("ge", R, ("div", X, ("add", R, ("mul", R, Y, Y), one)), zero),
            lambda: ("le", R, Y, Y),
            lambda: ("not", ("eq", R, Y, ("add", R, Y, one))),
            lambda: ("ge", R, ("abs", R, Y), zero),
            lambda: ("not", ("eq", R, ("sub", R, X, Y), zero)),
            lambda: ("gt", R, ("div", one, ("sub", R, X, Y)), zero),
            lambda: self.rel(R, ("add", R, self.ex(1), Y), self.ex(1)),
        ])()
        return goal, cond

    def trans_plain(self):
        r, X = self.r, self.X
        one, zero = num(R, 1), num(R, 0)
        c = num(R, r.choice([-1, -4, 4, 2, 0, 1, Fraction(1, 4), -9]))
        e = r.choice([X, c, ("mul", R, X, X), ("sub", R, X, one), ("abs", R, X)])
        return r.choice([
            lambda: ("eq", R, ("mul", R, ("sqrt", c), ("sqrt", c)), c),
            lambda: ("eq", R, ("mul", R, ("sqrt", e), ("sqrt", e)), e),
            lambda: ("eq", R, ("pow", R, ("sqrt", e), 2), e),
            lambda: ("eq", R, ("sqrt", ("mul", R, e, e)), e),
            lambda: ("eq", R, ("sqrt", ("mul", R, e, e)), ("abs", R, e)),
            lambda: ("eq", R, ("exp", ("log", e)), e),
            lambda: ("eq", R, ("log", ("exp", e)), e),
            lambda: ("eq", R, ("sqrt", num(R, 4)), num(R, 2)),
            lambda: ("eq", R, ("sqrt", num(R, -4)), num(R, -2)),
            lambda: ("ge", R, ("sqrt", c), zero),
            lambda: ("ge", R, ("sqrt", num(R, 2)), one),
            lambda: ("not", ("eq", R, ("sqrt", c), zero)),
            lambda: ("not", ("eq", R, ("mul", R, ("sqrt", c), ("sqrt", c)), ("abs", R, c))),
            lambda: ("gt", R, ("exp", ("log", c)), zero),
            lambda: ("eq", R, ("exp", ("log", c)), c),
            lambda: ("not", ("eq", R, ("log", one), one)),
            lambda: ("eq", R, ("exp", zero), one),
            lambda: ("ge", R, ("exp", e), zero),
            lambda: ("eq", R, ("div", ("sqrt", e), ("sqrt", e)), one),
        ])()

    def trans_interval(self):
        r, X = self.r, self.X
        one, zero = num(R, 1), num(R, 0)
        pool = [0, 1, -1, 2, 4, -4, Fraction(1, 4)]
        l, u = sorted([Fraction(r.choice(pool)), Fraction(r.choice(pool))])
        cond = (r.choice(["cint", "oint"]), X, num(R, l), num(R, u))
        goal = r.choice([
            lambda: ("ge", R, ("mul", R, ("sqrt", X), ("sqrt", X)), X),
            lambda: ("le", R, ("mul", R, ("sqrt", X), ("sqrt", X)), X),
            lambda: ("ge", R, ("sqrt", X), zero),
            lambda: ("le", R, ("sqrt", X), X),
            lambda: ("not", ("eq", R, ("sqrt", X), num(R, -1))),
            lambda: ("not", ("eq", R, ("sub", R, ("mul", R, ("sqrt", X), ("sqrt", X)), X), one)),
            lambda: ("gt", R, ("exp", ("log", X)), zero),
            lambda: ("ge", R, ("exp", ("log", X)), X),
            lambda: ("le", R, ("exp", ("log", X)), X),
            lambda: ("not", ("eq", R, ("exp", ("log", X)), zero)),
            lambda: ("ge", R, ("log", X), zero),
            lambda: ("ge", R, ("exp", X), one),
            lambda: ("gt", R, ("div", one, ("sqrt", X)), zero),
            lambda: ("not", ("eq", R, ("div", one, ("sqrt", X)), zero)),
        ])()
        return goal, cond

    def natc(self, d):
        r = self.r
        if d <= 0 or r.random() < 0.3:
            return num(N, r.choice([0, 1, 2, 3, 4, 5]))
        return (r.choice(["add", "sub", "sub", "mul"]), N, self.natc(d - 1), self.natc(d - 1))

    def rel(self, ty, a, b):
        return (self.r.choice(["le", "lt", "ge", "gt"]), ty, a, b)

    def plain(self):
        """goal without interval condition"""
        r, X = self.r, self.X
        e, e2 = self.ex(2), self.ex(1)
        one, zero = num(R, 1), num(R, 0)
        fams = [
            lambda: ("eq", R, e, e),
            lambda: ("eq", R, ("add", R, e, zero), e),
            lambda: ("eq", R, ("sub", R, e, e), zero),
            lambda: ("eq", R, ("mul", R, num(R, 2), e), ("add", R, e, e)),
            lambda: ("eq", R, ("add", R, e, e2), ("add", R, e2, e)),
            lambda: ("eq", R, ("div", e, e), one),
            lambda: ("eq", R, ("mul", R, e, ("div", one, e)), one),
            lambda: ("eq", R, ("div", ("mul", R, e, e), e), e),
            lambda: ("eq", R, ("mul", R, ("div", e, num(R, 2)), num(R, 2)), e),
            lambda: ("eq", R, ("div", zero, e), zero),
            lambda: ("eq", R, ("sub", R, ("div", e, e), one), zero),
            lambda: ("eq", R, ("pow", R, e, 2), ("mul", R, e, e)),
            lambda: ("eq", R, ("mul", R, ("add", R, X, one), ("add", R, X, one)), ("add", R, ("add", R, ("mul", R, X, X), ("mul", R, num(R, 2), X)), one)),
            lambda: ("eq", R, ("div", e, zero), zero),
            lambda: ("eq", R, ("div", one, ("sub", R, e, e)), zero),
            lambda: ("eq", R, ("abs", R, ("div", one, zero)), zero),
            lambda: ("eq", R, e, e2),
            lambda: ("not", ("eq", R, e, ("add", R, e, one))),
            lambda: ("not", ("eq", R, e, e2)),
            lambda: ("not", ("eq", R, ("mul", R, ("add", R, X, one), ("add", R, X, one)), ("add", R, ("add", R, ("mul", R, X, X), ("mul", R, num(R, 2), X)), one))),
            lambda: ("not", ("eq", R, ("mul", R, X, X), X)),
            lambda: ("not", ("eq", R, ("div", one, zero), zero)),
            lambda: ("not", ("eq", R, ("div", e, e), one)),
            lambda: ("not", ("eq", R, ("div", e, e), zero)),
            lambda: ("not", ("eq", R, ("add", R, e, zero), e)),
            lambda: ("not", ("eq", R, self.ex(2, var=False), self.ex(2, var=False))),
            lambda: ("not", ("eq", N, self.natc(2), self.natc(1))),
            lambda: ("not", ("eq", N, ("sub", N, num(N, 2), num(N, 3)), num(N, 0))),
            lambda: ("eq", N, self.natc(2), self.natc(1)),
            lambda: ("eq", N, ("sub", N, num(N, 2), num(N, 3)), num(N, 0)),
            lambda: self.rel(N, self.natc(2), self.natc(1)),
            lambda: ("lt", N, ("sub", N, num(N, 3), num(N, 5)), num(N, 0)),
            lambda: self.rel(R, self.ex(2, var=False), self.ex(1, var=False)),
            lambda: self.rel(R, e, e2),
            lambda: ("ge", R, ("abs", R, e), zero),
            lambda: ("ge", R, ("pow", R, e, 2), zero),
            lambda: ("le", R, e, e),
            lambda: ("lt", R, e, ("add", R, e, one)),
            lambda: ("ge", R, ("div", e, e), one),
            lambda: ("gt", R, ("div", one, zero), num(R, -1)),
            lambda: ("ge", R, ("div", one, ("abs", R, e)), zero),
        ]
        return r.choice(fams)()

    def interval(self):
        """(goal, cond)"""
        r, X = self.r, self.X
        pool = [0, 1, -1, 2, -2, Fraction(1, 2), Fraction(-1, 2), 3, Fraction(3, 2)]
        l, u = sorted([Fraction(r.choice(pool)), Fraction(r.choice(pool))])
        if r.random() < 0.08:
            l, u = u, l
        L, U = num(R, l), num(R, u)
        if r.random() < 0.15:
            U = ("div", num(R, u.numerator * 2), num(R, u.denominator * 2)) if u != 0 else U
        kind = r.choice(["cint", "cint", "oint"])
        cond = (kind, X, L, U)
        one, zero = num(R, 1), num(R, 0)
        c = self.q()
        e = self.ex(2)
        fams = [
            lambda: (("ge" if kind == "cint" else "gt"), R, ("mul", R, ("sub", R, X, L), ("sub", R, U, X)), zero),
            lambda: ("gt", R, ("mul", R, ("sub", R, X, L), ("sub", R, U, X)), zero),
            lambda: ("ge", R, X, L),
            lambda: ("gt", R, X, L),
            lambda: ("le", R, X, U),
            lambda: ("ge", R, ("mul", R, X, X), zero),
            lambda: ("gt", R, ("mul", R, X, X), zero),
            lambda: ("gt", R, ("div", one, X), zero),
            lambda: ("ge", R, ("div", one, X), zero),
            lambda: ("ge", R, ("div", X, X), one),
            lambda: ("le", R, ("div", X, X), one),
            lambda: ("ge", R, ("div", one, ("sub", R, X, c)), zero),
            lambda: ("le", R, ("abs", R, X), num(R, max(abs(l), abs(u)))),
            lambda: ("lt", R, ("abs", R, X), num(R, max(abs(l), abs(u)))),
            lambda: ("ge", R, ("sub", R, one, ("pow", R, X, 2)), zero),
            lambda: ("not", ("eq", R, X, c)),
            lambda: ("not", ("eq", R, ("mul", R, X, X), c)),
            lambda: ("not", ("eq", R, ("div", one, X), zero)),
            lambda: ("not", ("eq", R, ("div", one, ("sub", R, X, c)), zero)),
            lambda: ("not", ("eq", R, ("div", X, X), one)),
            lambda: ("not", ("eq", R, ("div", X, X), zero)),
            lambda: ("not", ("eq", R, ("mul", R, X, ("sub", R, X, one)), zero)),
            lambda: ("not", ("eq", R, ("add", R, ("mul", R, X, X), one), zero)),
            lambda: ("not", ("eq", R, e, self.ex(1))),
            lambda: self.rel(R, e, self.ex(1)),
            lambda: self.rel(R, self.ex(1, var=False), self.ex(1, var=False)),
            lambda: self.rel(R, ("mul", R, ("sub", R, X, c), ("sub", R, X, self.q())), zero),
        ]
        return r.choice(fams)(), cond


def grid_points(cond, small=False):
    pts = set()
    for p in range(-48, 49) if not small else range(-8, 9):
        for q in ((1, 2, 3, 4, 6, 12) if not small else (1, 2)):
            pts.add(Fraction(p, q))
    pts |= {Fraction(x) for x in (4, -4, 9, -9, Fraction(1, 4), Fraction(-1, 4), Fraction(9, 4), Fraction(4, 9), Fraction(1, 9), 16)}
    if cond is not None:
        v0 = Val({})
        l, u = ev(cond[2], v0), ev(cond[3], v0)
        for k in range(0, 25):
            pts.add(l + (u - l) * Fraction(k, 24))
        eps = Fraction(1, 1000)
        pts |= {l + eps, u - eps, l, u}
    return sorted(pts)


YGRID = [Fraction(x) for x in (0, 1, -1, 2, Fraction(1, 2), Fraction(-1, 2), -2, 4, Fraction(1, 4))]


def sympy_counterexample(goal, cond):
    """A point (within the interval condition, any value of the other variable) at which the
    goal is false under the HOL semantics (x / 0 = 0, truncated nat subtraction, total sqrt, log
    arbitrary off its domain): exact arithmetic where possible, else mpmath with a safety margin."""
    import mpmath
    mp = mpmath.mp.clone()
    mp.dps = 50
    margin = mp.mpf(10) ** -30
    has_y = ("v", "y", R) in free_syms(goal)
    has_log = has_kind(goal, ("log",))
    for pt in grid_points(cond, small=has_y):
        for y in (YGRID if has_y else [None]):
            for log0 in ((0, 1) if has_log else (0,)):
                vars_ = {("x", R): pt}
                if has_y:
                    vars_[("y", R)] = y
                v = Val(vars_)
                v.log0 = log0
                try:
                    if cond is not None and ev(cond, v) is not True:
                        continue
                    try:
                        val = ev(goal, v)
                    except Inexact:
                        val = evn(goal, v, mp, margin)
                    if val is False:
                        return "x = %s" % pt + (", y = %s" % y if has_y else "") + (", log t = %s for t <= 0" % log0 if has_log else "")
                except (ZeroDivisionError, OverflowError, Inexact, ValueError):
                    continue
    return None


def call_sympy(H, goal, cond, mode, limit=60):
    sw = H.sw
    try:
        with time_limit(limit):
            g = H.term(goal)
            if mode == "macro":
                prevs = [] if cond is None else [H.Thm(H.term(cond))]
                try:
                    th = sw.SymPyMacro().eval(g, prevs)
                    return "accept" if th.prop == g and not th.hyps else "raise:bad-thm"
                except AssertionError:
                    return "reject"
            if cond is None:
                r = sw.solve_goal(g)
            else:
                r = sw.solve_with_interval(g, H.term(cond))
            # sympy relationals may be returned instead of bool: only a real True is an acceptance,
            # but the macro uses truthiness -- mirror what `assert can_eval` would do
            return "accept" if bool(r) else "reject"
    except Timeout:
        return "raise:Timeout"
    except Exception as e:  # noqa
        return "raise:" + type(e).__name__


def sympy_stage(ctx, H):
    rng = ctx.rng("sympy")
    g = GS(rng)
    n = ctx.scale(650, 5000)
    nacc = 0
    asked = []
    for idx in range(n):
        c = rng.random()
        if c < 0.35:
            goal, cond = g.plain(), None
        elif c < 0.7:
            goal, cond = g.interval()
        elif c < 0.78:
            goal, cond = g.nested_plain(), None
        elif c < 0.86:
            goal, cond = g.nested_interval()
        elif c < 0.91:
            goal, cond = g.second_var()
        elif c < 0.96:
            goal, cond = g.trans_plain(), None
        else:
            goal, cond = g.trans_interval()
        mode = "macro" if idx % 4 == 3 else "direct"
        res = call_sympy(H, goal, cond, mode)
        if res in ("accept", "reject") and idx % 2 == 0:
            # the tie to the model is about the decision logic on one query: ask again with an empty cache
            saved = dict(H.sw.solveset_cache) if hasattr(H.sw, "solveset_cache") else None
            if saved is not None:
                H.sw.solveset_cache.clear()
            res0 = call_sympy(H, goal, cond, mode)
            if saved is not None:
                H.sw.solveset_cache.update(saved)
            if res0 in ("accept", "reject"):
                asked.append((goal, cond, res0))
        ctx.case(("sympy", canon(goal), canon(cond) if cond else None), nontrivial=size(goal) >= 4)
        ctx.count("sympy:%s:%s" % ("interval" if cond else "plain", res if not res.startswith("raise") else "fails-with-exception"))
        if res.startswith("raise"):
            ctx.count("sympy:exc:" + res[6:])
        if idx < 2:
            ctx.sample({"sympy_goal": str(H.term(goal)), "cond": str(H.term(cond)) if cond else None})
        if res != "accept":
            continue
        nacc += 1
        pt = sympy_counterexample(goal, cond)
        if pt is not None:
            ctx.violation("sympy:accepts-invalid:%s|%s" % (canon(goal), canon(cond) if cond else ""),
                          "sympywrapper (%s) accepts %s%s, which is false in HOL at %s" % (
                              mode, H.term(goal), " under " + str(H.term(cond)) if cond else "", pt),
                          {"kind": "sympy", "goal": tolist(goal), "cond": tolist(cond) if cond else None, "mode": mode, "x": str(pt)})
        else:
            ctx.count("sympy:oracle:no-counterexample-on-grid")
    ctx.log("sympy stage: %d goals, %d accepted" % (n, nacc))
    return asked



# ---------------------------------------------------------------------------------------------
# Correspondence: real convert / solve_core  vs  Lean model
# ---------------------------------------------------------------------------------------------
class OutsideModel(Exception):
    pass


def ty_sexp(H, T):
    Ty = H.Ty
    if T == Ty.BoolType:
        return "bool"
    if T == Ty.NatType:
        return "nat"
    if T == Ty.IntType:
        return "int"
    if T == Ty.RealType:
        return "real"
    if T.is_tvar():
        return ["tv", sexp.enc(T.name)]
    raise OutsideModel("type %s" % T)


def is_funlike(T):
    return T.is_fun() or (T.is_tconst() and T.name == "set")


def term_to_h(H, t, depth=0):
    """Reads a real holpy term the way z3wrapper.convert dispatches on it -> wire term of the model.
    Bound variables: the binder body is opened with a marker variable (as convert does with a
    fresh Var) so that get_type works; markers become de Bruijn indices again."""
    T, Ty = H.T, H.Ty
    rec = lambda x: term_to_h(H, x, depth)
    if t.is_var():
        if t.name.startswith("%b%"):
            return ["bv", depth - 1 - int(t.name[3:])]
        return ["var", sexp.enc(t.name), ty_sexp(H, t.T)]
    if t.is_forall() or t.is_exists():
        if not t.arg.is_abs():
            raise OutsideModel("quantifier over non-abstraction")
        v = T.Var("%%b%%%d" % depth, t.arg.var_T)
        body = term_to_h(H, t.arg.subst_bound(v), depth + 1)
        return ["all" if t.is_forall() else "ex", sexp.enc(t.arg.var_name), ty_sexp(H, t.arg.var_T), body]
    if t.is_number():
        v = Fraction(t.dest_number())
        return ["num", ty_sexp(H, t.get_type()), v.numerator, v.denominator]
    if t.is_implies():
        return ["imp", rec(t.arg1), rec(t.arg)]
    if t.is_equals():
        if is_funlike(t.arg.get_type()):
            return ["eqfun", 0]
        return ["eq", rec(t.arg1), rec(t.arg)]
    if t.is_conj():
        return ["and", rec(t.arg1), rec(t.arg)]
    if t.is_disj():
        return ["or", rec(t.arg1), rec(t.arg)]
    if H.logic.is_if(t):
        b, t1, t2 = t.args
        return ["ite", rec(b), rec(t1), rec(t2)]
    if H.logic.is_xor(t):
        return ["xor", rec(t.args[0]), rec(t.args[1])]
    if t.is_not():
        return ["not", rec(t.arg)]
    if t.is_plus():
        return ["add", rec(t.arg1), rec(t.arg)]
    if t.is_minus():
        return ["sub", t.arg1.get_type() == Ty.NatType, rec(t.arg1), rec(t.arg)]
    if t.is_uminus():
        return ["neg", t.arg.get_type() == Ty.NatType, rec(t.arg)]
    if t.is_times():
        return ["mul", rec(t.arg1), rec(t.arg)]
    if t.is_less_eq():
        return ["le", rec(t.arg1), rec(t.arg)]
    if t.is_less():
        return ["lt", rec(t.arg1), rec(t.arg)]
    if t.is_greater_eq():
        return ["ge", rec(t.arg1), rec(t.arg)]
    if t.is_greater():
        return ["gt", rec(t.arg1), rec(t.arg)]
    if t.is_divides():
        return ["div", rec(t.arg1), rec(t.arg)]
    if t.is_comb("of_nat", 1):
        if t.get_type() == Ty.RealType:
            if t.arg.is_var() and not t.arg.name.startswith("%b%"):
                return ["ofnatvar", sexp.enc(t.arg.name)]
            return ["ofnat", rec(t.arg)]
        return ["unsup", 0]
    if t.is_comb("max", 2):
        return ["max", rec(t.arg1), rec(t.arg)]
    if t.is_comb("min", 2):
        return ["min", rec(t.arg1), rec(t.arg)]
    if t.is_comb("abs", 1):
        return ["abs", t.get_type() == Ty.RealType, rec(t.arg)]
    if t.is_comb("member", 2):
        S = t.arg
        if S.is_var() and S.T.is_tconst() and S.T.name == "set":
            return ["mem", rec(t.arg1), sexp.enc(S.name), ty_sexp(H, S.T.args[0])]
        raise OutsideModel("membership in a non-variable")
    if t.is_comb():
        f = t.fun
        if f.is_var() and f.T.is_fun() and not f.name.startswith("%b%"):
            return ["app", sexp.enc(f.name), ty_sexp(H, f.T.domain_type()), ty_sexp(H, f.T.range_type()), rec(t.arg)]
        h = t.head
        if h.is_const():
            return ["unsup", 0]
        raise OutsideModel("application")
    if t.is_const():
        if t == T.true:
            return "tt"
        if t == T.false:
            return "ff"
        return ["unsup", 0]
    return ["unsup", 0]


def sort_sexp(z3, s):
    k = s.kind()
    if k == z3.Z3_BOOL_SORT:
        return "Bool"
    if k == z3.Z3_INT_SORT:
        return "Int"
    if k == z3.Z3_REAL_SORT:
        return "Real"
    return ["U", sexp.enc(s.name())]


def z3_to_sexp(z3, e):
    """Canonical form of a z3py AST (bound variables are de Bruijn indices in Z3 already)."""
    if isinstance(e, bool):
        return ["b", e]
    if z3.is_quantifier(e):
        if e.num_vars() != 1:
            return ["?multi-quantifier"]
        return ["forall" if e.is_forall() else "exists", sort_sexp(z3, e.var_sort(0)), z3_to_sexp(z3, e.body())]
    if z3.is_var(e):
        return ["bv", z3.get_var_index(e)]
    if z3.is_int_value(e):
        return ["i", e.as_long()]
    if z3.is_rational_value(e):
        return ["r", e.numerator_as_long(), e.denominator_as_long()]
    if z3.is_true(e):
        return ["b", True]
    if z3.is_false(e):
        return ["b", False]
    k = e.decl().kind()
    ch = [z3_to_sexp(z3, c) for c in e.children()]
    ops = {z3.Z3_OP_NOT: "not", z3.Z3_OP_AND: "and", z3.Z3_OP_OR: "or", z3.Z3_OP_IMPLIES: "imp", z3.Z3_OP_EQ: "eq",
           z3.Z3_OP_ITE: "ite", z3.Z3_OP_ADD: "add", z3.Z3_OP_SUB: "sub", z3.Z3_OP_MUL: "mul", z3.Z3_OP_DIV: "div",
           z3.Z3_OP_UMINUS: "neg", z3.Z3_OP_LE: "le", z3.Z3_OP_LT: "lt", z3.Z3_OP_GE: "ge", z3.Z3_OP_GT: "gt",
           z3.Z3_OP_TO_REAL: "to_real", z3.Z3_OP_IDIV: "idiv", z3.Z3_OP_IFF: "eq"}
    if k in ops:
        return [ops[k]] + ch
    if k == z3.Z3_OP_UNINTERPRETED:
        d = e.decl()
        if d.arity() == 0:
            return ["const", sexp.enc(d.name()), sort_sexp(z3, e.sort())]
        if d.arity() == 1:
            return ["app", sexp.enc(d.name()), sort_sexp(z3, d.domain(0)), sort_sexp(z3, d.range()), ch[0]]
    return ["?" + sexp.enc(str(e.decl()))] + ch


def z3_capture(z3, e, outer=()):
    """A quantifier whose bound name equals the name of an enclosing quantifier or of a constant in
    its body: z3py's abstraction of the named constant would have captured that occurrence."""
    if isinstance(e, bool):
        return None
    if z3.is_quantifier(e):
        names = [e.var_name(i) for i in range(e.num_vars())]
        body = e.body()
        for nm in names:
            if nm in outer or nm in z3_const_names(z3, body):
                return nm
        return z3_capture(z3, body, tuple(names) + tuple(outer))
    if z3.is_app(e):
        for c in e.children():
            r = z3_capture(z3, c, outer)
            if r is not None:
                return r
    return None


def z3_const_names(z3, e, acc=None):
    if acc is None:
        acc = set()
    if z3.is_quantifier(e):
        z3_const_names(z3, e.body(), acc)
    elif z3.is_app(e):
        if e.decl().kind() == z3.Z3_OP_UNINTERPRETED and e.decl().arity() == 0:
            acc.add(e.decl().name())
        for c in e.children():
            z3_const_names(z3, c, acc)
    return acc


class FakeSolver:
    """solve_core only uses `.ctx` and `.add`; recording the additions keeps Z3 out of the tie."""

    def __init__(self):
        self.ctx = None
        self.items = []

    def add(self, *args):
        for a in args:
            if isinstance(a, (list, tuple)):
                self.items.extend(a)
            else:
                self.items.append(a)

    append = insert = assert_exprs = add

    def __getattr__(self, name):
        # anything else solve_core may start to use (push, set, ...): the tie is then unavailable,
        # which is reported as such, never as a property failure
        raise InterceptionUnavailable("solver method %s" % name)


class InterceptionUnavailable(Exception):
    pass


def impl_solve_core(H, t, limit=60):
    """Runs the real solve_core; returns (inputs seen by convert, vars, canonical result)."""
    zw = H.zw
    seen = []
    first_names = []
    if not callable(getattr(zw, "convert", None)) or not callable(getattr(zw, "solve_core", None)):
        raise InterceptionUnavailable("z3wrapper.convert / solve_core not found")
    orig = zw.convert

    def wrapped(tm, *args, **kw):
        seen.append(tm)
        return orig(tm, *args, **kw)
    zw.convert = wrapped
    s = FakeSolver()
    try:
        with time_limit(limit):
            zw.solve_core(s, t)
        res = ["ok"] + [z3_to_sexp(H.z3, a) for a in s.items]
        for a in s.items:
            nm = z3_capture(H.z3, a)
            if nm is not None:
                res = ["capture", sexp.enc(nm)]
    except InterceptionUnavailable:
        raise
    except zw.Z3Exception:
        res = ["error", "z3exc"]
    except Timeout:
        res = ["error", "timeout"]
    except Exception as e:  # noqa
        res = ["error", "crash"]
    finally:
        zw.convert = orig
    return seen, res


def correspondence(ctx, H, goals, label):
    """Each goal: real solve_core (recorded) vs model solveCore on the very terms convert received."""
    lines, impl, idxs = [], [], []
    for gi, goal in enumerate(goals):
        t = H.term(goal)
        try:
            seen, res = impl_solve_core(H, t)
        except InterceptionUnavailable as e:
            # a refactoring of solve_core's internals: the tie to the model cannot be observed any
            # more; the oracle streams still judge every acceptance.  Not a property failure.
            ctx.count("corr:%s:interception-unavailable" % label)
            ctx.coverage["correspondence_unavailable"] = str(e)
            if "correspondence stream unavailable (solve_core internals changed): model tie not checked this run" not in ctx.assumptions:
                ctx.assumptions.append("correspondence stream unavailable (solve_core internals changed): model tie not checked this run")
            return 0
        except Exception as e:  # noqa   (norm_term itself failed)
            ctx.count("corr:%s:solve_core-raises-before-convert" % label)
            continue
        try:
            if seen:
                As, C = seen[:-1], seen[-1]
            else:
                # solve_core raised before the first convert (duplicate names): rebuild its inputs
                t2 = H.zw.norm_term(t)
                names = H.logic.get_forall_names(t2, svar=False)
                _, As, C = H.logic.strip_all_implies(t2, names, svar=False)
            vs = H.T.get_vars(list(As) + [C])
            vars_s = [[sexp.enc(v.name), ("fun" if is_funlike(v.T) else ty_sexp(H, v.T))] for v in vs]
            line = ["solve", vars_s, [term_to_h(H, a) for a in As], term_to_h(H, C)]
        except OutsideModel as e:
            ctx.count("corr:%s:outside-model-language" % label)
            continue
        # a conclusion that failed to translate after some premises did: `seen` is still complete
        lines.append(sexp.dumps(line))
        impl.append(sexp.dumps(res))
        idxs.append(gi)
    out = ctx.lean_driver(EXE, lines) if lines else []
    if out is None:
        ctx.broken("correspondence:c06:driver", "model driver unavailable")
        return
    # the proved property of the model, observed: every assertion list is capture-free
    nc = ctx.lean_driver(EXE, [l.replace("(solve ", "(nocapture ", 1) for l in lines]) or []
    for k, o in enumerate(nc):
        if o == "F":
            ctx.broken("model:c06:capture", "the model's assertions are not capture-free on %s" % lines[k])
        ctx.count("corr:%s:model-nocapture:%s" % (label, "T" if o == "T" else ("F" if o == "F" else "error")))
    ndis = 0
    for k, (a, b) in enumerate(zip(impl, out)):
        if "(xor " in lines[k] and a != b and a.startswith("(ok"):
            # z3.Or(..., ctx=None) currently raises on xor (the model mirrors that crash); an
            # implementation that translates xor instead is not compared here (its acceptances are
            # judged by the oracles)
            ctx.count("corr:%s:xor-translated-not-compared" % label)
            continue
        ctx.count("corr:%s:%s" % (label, "agree" if a == b else "DISAGREE"))
        ctx.count("corr:kind:" + (a.split(" ")[0].strip("(") + (":" + a.split(" ")[1].strip(")") if a.startswith("(error") else "")))
        if a != b:
            ndis += 1
            if ndis <= 3:
                ctx.broken("correspondence:c06:solve_core", "goal=%s\n line=%s\n impl =%s\n model=%s" % (H.term(goals[idxs[k]]), lines[k], a, b))
                ctx.coverage["disagreements_checked"] += 1
    return ndis



# ---------------------------------------------------------------------------------------------
# Gen.lean: tables of prover/z3wrapper.py read with `ast` (never imported for this)
# ---------------------------------------------------------------------------------------------
def gen_lean(ctx):
    with open(os.path.join(ctx.repo, "prover", "z3wrapper.py"), encoding="utf-8") as f:
        tree = pyast.parse(f.read())
    thms, flag = None, None
    for node in tree.body:
        if isinstance(node, pyast.Assign) and len(node.targets) == 1 and isinstance(node.targets[0], pyast.Name):
            if node.targets[0].id == "norm_thms":
                thms = []
                for e in node.value.elts:
                    v = pyast.literal_eval(e)
                    if isinstance(v, str):
                        thms.append((v, False))
                    else:
                        assert isinstance(v, tuple) and len(v) == 2 and v[1] is True, "untranslatable: norm_thms entry %r" % (v,)
                        thms.append((v[0], True))
            elif node.targets[0].id == "check_z3":
                flag = pyast.literal_eval(node.value)
    assert thms is not None, "untranslatable: norm_thms not found"
    assert isinstance(flag, bool), "untranslatable: check_z3 is not a literal bool"
    items = ", ".join('("%s", %s)' % (n, "true" if b else "false") for n, b in thms)
    # the statements of these library theorems (first definition found in library/*.json, as stored)
    import glob
    props = {}
    for fn in sorted(glob.glob(os.path.join(ctx.repo, "library", "*.json"))):
        try:
            with open(fn, encoding="utf-8") as f:
                data = json.load(f)
        except Exception:  # noqa
            continue
        for it in data.get("content", []):
            nm = it.get("name")
            if it.get("ty") in ("thm", "thm.ax") and nm in dict(thms) and nm not in props:
                pr = it.get("prop")
                props[nm] = "".join(pr) if isinstance(pr, list) else str(pr)
            elif str(it.get("ty", "")).startswith("def") and nm is not None and it.get("prop"):
                # a definition `c` gives the theorem `c_def`; for an overloaded constant at type T: `T_c_def`
                for cand in (nm + "_def", "%s_%s_def" % (str(it.get("type", "")).split(" ")[0], nm)):
                    if cand in dict(thms) and cand not in props:
                        pr = it.get("prop")
                        props[cand] = "".join(pr) if isinstance(pr, list) else str(pr)
    missing = [n for n, _ in thms if n not in props]
    assert not missing, "untranslatable: statements of %s not found in library/*.json" % missing
    esc = lambda x: x.replace("\\", "\\\\").replace('"', '\\"')
    pitems = ",\n  ".join('("%s", "%s")' % (n, esc(props[n])) for n, _ in thms)
    return ("/- GENERATED by harness/props/c06.py from prover/z3wrapper.py (`norm_thms`) and library/*.json; do not edit. -/\n"
            "namespace Holpy.C06.Gen\n\n"
            "/-- (theorem name, used right-to-left) in the order `norm_term` applies them -/\n"
            "def normThms : List (String × Bool) := [%s]\n\n"
            "/-- the statements of these theorems in the library -/\n"
            "def normThmProps : List (String × String) := [\n  %s]\n\n"
            "/-- `check_z3 = True` at module level -/\n"
            "def checkZ3Default : Bool := %s\n\n"
            "end Holpy.C06.Gen\n" % (items, pitems, "true" if flag else "false"))


def load_corpus(ctx):
    p = os.path.join(ctx.verif, "corpus", "c06.json")
    if not os.path.exists(p):
        return [], []
    with open(p) as f:
        d = json.load(f)
    return [totuple(g) for g in d.get("z3", [])], [(totuple(g), totuple(c) if c else None) for g, c in d.get("sympy", [])]


def sympy_check_one(ctx, H, goal, cond, mode, label):
    res = call_sympy(H, goal, cond, mode)
    ctx.case(("sympy", canon(goal), canon(cond) if cond else None), nontrivial=size(goal) >= 4)
    ctx.count("sympy:%s:%s" % (label, res if not res.startswith("raise") else "fails-with-exception"))
    if res.startswith("raise"):
        ctx.count("sympy:exc:" + res[6:])
    if res != "accept":
        return False
    pt = sympy_counterexample(goal, cond)
    if pt is not None:
        ctx.violation("sympy:accepts-invalid:%s|%s" % (canon(goal), canon(cond) if cond else ""),
                      "sympywrapper (%s) accepts %s%s, which is false in HOL at %s" % (
                          mode, H.term(goal), " under " + str(H.term(cond)) if cond else "", pt),
                      {"kind": "sympy", "goal": tolist(goal), "cond": tolist(cond) if cond else None, "mode": mode, "x": str(pt)})
    else:
        ctx.count("sympy:oracle:no-counterexample-on-grid")
    return True


# ---------------------------------------------------------------------------------------------
# SymPy decision logic: real wrapper vs model (solveGoal / solveWithInterval).  The abstract inputs
# of the model (which side checks hold, equality of normal forms, what solveset answers) are
# computed here with SymPy directly, from the goal's syntax tree, without the wrapper.
# ---------------------------------------------------------------------------------------------
def ast_to_sympy(a):
    import sympy
    k = a[0]
    e = ast_to_sympy
    if k == "var":
        return sympy.Symbol(a[1])
    if k == "num":
        return sympy.Rational(a[2], a[3])
    if k == "add":
        return e(a[2]) + e(a[3])
    if k == "sub":
        return sympy.Max(e(a[2]) - e(a[3]), 0) if a[1] == N else e(a[2]) - e(a[3])
    if k == "mul":
        return e(a[2]) * e(a[3])
    if k == "div":
        if a[1][0] == "num" and a[2][0] == "num" and a[2][2] == 0 and a[1][3] == 1 and a[2][3] == 1 and a[1][2] >= 0:
            return sympy.Integer(0)           # the literal n / 0 is the number 0 (dest_number)
        return e(a[1]) / e(a[2])
    if k == "neg":
        return -e(a[2])
    if k == "abs":
        return sympy.Abs(e(a[2]))
    if k == "pow":
        return e(a[2]) ** a[3]
    if k == "sqrt":
        return sympy.sqrt(e(a[1]))
    if k == "log":
        return sympy.log(e(a[1]))
    if k == "exp":
        return sympy.exp(e(a[1]))
    if k in ("le", "lt", "ge", "gt"):
        x, y = e(a[2]), e(a[3])
        return {"le": x <= y, "lt": x < y, "ge": x >= y, "gt": x > y}[k]
    raise ValueError(k)


def is_hol_number(a):
    """mirror of Term.is_number on the generated fragment: literals, and p / q in lowest terms"""
    if a[0] == "num":
        return True
    if a[0] == "div" and a[1][0] == "num" and a[2][0] == "num" and a[1][3] == 1 and a[2][3] == 1 and a[1][2] >= 0 and a[2][2] >= 0:
        import math
        return a[2][2] != 1 and math.gcd(a[1][2], a[2][2]) == 1
    return False


def side_terms(a, divs, conds):
    if is_hol_number(a):
        return
    if a[0] == "div":
        divs.append(a[2])
    if a[0] == "sqrt":
        conds.append(("nonneg", a[1]))
    if a[0] == "log":
        conds.append(("pos", a[1]))
    for x in a[1:]:
        if isinstance(x, tuple):
            side_terms(x, divs, conds)


def sympy_model_line(goal, cond):
    """wire line for the model, or None when the abstract inputs cannot be computed"""
    import sympy
    divs, conds = [], []
    side_terms(goal, divs, conds)
    kind = "neq" if goal[0] == "not" and goal[1][0] == "eq" else ("eq" if goal[0] == "eq" else "rel")
    if cond is None:
        ok = True
        for d in divs:
            d = ast_to_sympy(d)
            ok = ok and bool(d.is_number and d.is_zero is False)
        for kd, d in conds:
            d = ast_to_sympy(d)
            ok = ok and bool(d.is_number) and ((d.is_nonnegative is True) if kd == "nonneg" else (d.is_positive is True))
        if kind == "neq":
            diff = sympy.simplify(ast_to_sympy(goal[1][2]) - ast_to_sympy(goal[1][3]))
            return ["sgoal", "neq", ok, bool(diff.is_number and diff.is_real is True and diff.is_zero is False)]
        if kind == "eq":
            l, r = ast_to_sympy(goal[2]), ast_to_sympy(goal[3])
            return ["sgoal", "eq", ok, 0, 0 if l == r else 1]
        return ["sgoal", "rel", ok, bool(ast_to_sympy(goal) == True)]  # noqa: E712
    var = sympy.Symbol("x")
    interval = (sympy.Interval if cond[0] == "cint" else sympy.Interval.open)(ast_to_sympy(cond[2]), ast_to_sympy(cond[3]))
    foreign = any(sy[0] == "v" and sy[1] != "x" for sy in free_syms(goal))
    flags = [not foreign]
    for d in divs:
        flags.append(sympy.solveset(ast_to_sympy(d), var, interval) == sympy.EmptySet)
    for kd, d in conds:
        d = ast_to_sympy(d)
        flags.append(sympy.solveset(d >= 0 if kd == "nonneg" else d > 0, var, interval) == interval)
    if kind == "eq":
        return ["sinterval", "eq", flags, True]
    if not all(flags):
        return ["sinterval", kind, flags, True]        # the main query is not reached
    if kind == "neq":
        main = sympy.solveset(ast_to_sympy(goal[1][2]) - ast_to_sympy(goal[1][3]), var, interval) == sympy.EmptySet
    else:
        main = sympy.solveset(ast_to_sympy(goal), var, interval) == interval
    return ["sinterval", kind, flags, bool(main)]


def sympy_correspondence(ctx, H, asked):
    """asked: [(goal, cond, 'accept'|'reject')] answered by the real wrapper in a FRESH cache state"""
    lines, want, keep = [], [], []
    for goal, cond, res in asked:
        try:
            with time_limit(20):
                ln = sympy_model_line(goal, cond)
        except Timeout:
            raise
        except Exception as e:  # noqa   (SymPy raises on some relations: the wrapper then fails too)
            ctx.count("corr:sympy:inputs-not-computable:" + type(e).__name__)
            continue
        lines.append(sexp.dumps(ln))
        want.append("T" if res == "accept" else "F")
        keep.append((goal, cond))
    out = ctx.lean_driver(EXE, lines) if lines else []
    if out is None:
        ctx.broken("correspondence:c06:driver", "model driver unavailable")
        return
    nd = 0
    for k, (w, o) in enumerate(zip(want, out)):
        ctx.count("corr:sympy:%s" % ("agree" if w == o else "DISAGREE"))
        if w != o:
            nd += 1
            if nd <= 3:
                g, c = keep[k]
                ctx.broken("correspondence:c06:sympy", "goal=%s cond=%s line=%s wrapper=%s model=%s" % (
                    H.term(g), H.term(c) if c else None, lines[k], w, o))


def hol_to_se(H, t):
    """reads a real holpy term the way sympywrapper's get_divisors / get_domain_conds / get_pole_divisors do"""
    rec = lambda x: hol_to_se(H, x)
    if t.is_number():
        v = Fraction(t.dest_number())
        return ["num", v.numerator, v.denominator]
    if t.is_var():
        return ["var", sexp.enc(t.name)]
    if t.is_plus():
        return ["add", rec(t.arg1), rec(t.arg)]
    if t.is_minus():
        return ["sub", rec(t.arg1), rec(t.arg)]
    if t.is_times():
        return ["mul", rec(t.arg1), rec(t.arg)]
    if t.is_divides():
        return ["div", rec(t.arg1), rec(t.arg)]
    if t.is_uminus():
        return ["neg", rec(t.arg)]
    if t.is_nat_power() and t.arg.is_number():
        return ["npow", rec(t.arg1), int(t.arg.dest_number())]
    if t.is_real_power():
        return ["rpow", rec(t.arg1), rec(t.arg)]
    for nm in ("abs", "sqrt", "log", "exp", "sin", "cos", "tan", "cot", "sec", "csc"):
        if t.is_comb(nm, 1):
            return [nm, rec(t.arg)]
    if t.is_less_eq():
        return ["rel", "le", rec(t.arg1), rec(t.arg)]
    if t.is_less():
        return ["rel", "lt", rec(t.arg1), rec(t.arg)]
    if t.is_greater_eq():
        return ["rel", "ge", rec(t.arg1), rec(t.arg)]
    if t.is_greater():
        return ["rel", "gt", rec(t.arg1), rec(t.arg)]
    if t.is_not():
        return ["not", rec(t.arg)]
    if t.is_equals():
        return ["eqn", rec(t.arg1), rec(t.arg)]
    raise OutsideModel("sympy fragment: %s" % t)


def sympy_guards_correspondence(ctx, H, goals):
    """the side conditions the real wrapper collects (get_divisors + get_pole_divisors + get_domain_conds)
    against the model's `sympyGuards`, as multisets"""
    sw = H.sw
    fns = [getattr(sw, n, None) for n in ("get_divisors", "get_pole_divisors", "get_domain_conds")]
    if not all(callable(f) for f in fns):
        ctx.count("corr:sguards:interception-unavailable")
        return
    lines, impl, terms = [], [], []
    for t in goals:
        try:
            gs = [["nonzero", hol_to_se(H, d)] for d in sw.get_divisors(t) + sw.get_pole_divisors(t)]
            gs += [[kind, hol_to_se(H, d)] for kind, d in sw.get_domain_conds(t)]
            line = ["sguards", hol_to_se(H, t)]
        except OutsideModel:
            ctx.count("corr:sguards:outside-model-language")
            continue
        except Exception as e:  # noqa
            ctx.count("corr:sguards:impl-raises:" + type(e).__name__)
            continue
        lines.append(sexp.dumps(line))
        impl.append(sorted(sexp.dumps(g) for g in gs))
        terms.append(t)
    out = ctx.lean_driver(EXE, lines) if lines else []
    if out is None:
        ctx.broken("correspondence:c06:driver", "model driver unavailable")
        return
    nd = 0
    for k, o in enumerate(out):
        try:
            got = sorted(sexp.dumps(g) for g in sexp.loads(o)) if o != "()" else []
        except Exception:  # noqa
            got = [o]
        ok = got == impl[k]
        ctx.count("corr:sguards:%s" % ("agree" if ok else "DISAGREE"))
        if not ok:
            nd += 1
            if nd <= 3:
                ctx.broken("correspondence:c06:sguards", "goal=%s wrapper=%s model=%s" % (terms[k], impl[k], got))


def sympy_history_stage(ctx, H):
    """The wrapper keeps module-level state (solveset cache): the same goal is asked under the
    open and the closed interval over the SAME end points, in varied orders within this one
    process, mixed with related goals over these end points; every acceptance is judged on its own.
    A violation's replay carries the queries asked before it in its group."""
    rng = ctx.rng("sympy-history")
    X = ("var", "x", R)
    one, zero = num(R, 1), num(R, 0)
    pool = [0, 1, -1, 2, -2, Fraction(1, 2), Fraction(-1, 2), 3, Fraction(3, 2)]
    ngroups = ctx.scale(70, 500)
    nacc = 0
    for gi in range(ngroups):
        l, u = sorted(rng.sample(pool, 2))
        L, U = num(R, l), num(R, u)
        e = rng.choice([L, U])
        xe = ("sub", R, X, e)
        templates = [
            ("not", ("eq", R, X, e)), ("not", ("eq", R, xe, zero)),
            ("not", ("eq", R, ("mul", R, ("sub", R, X, L), ("sub", R, X, U)), zero)),
            ("not", ("eq", R, ("sub", R, ("mul", R, X, X), ("mul", R, e, e)), zero)),
            ("not", ("eq", R, ("div", one, xe), zero)), ("not", ("eq", R, ("div", xe, xe), zero)),
            ("not", ("eq", R, ("div", one, ("div", xe, xe)), zero)),
            ("gt", R, X, L), ("lt", R, X, U), ("ge", R, X, L),
            ("gt", R, ("mul", R, ("sub", R, X, L), ("sub", R, U, X)), zero),
            ("ge", R, ("mul", R, ("sub", R, X, L), ("sub", R, U, X)), zero),
            ("gt", R, ("div", one, ("sub", R, X, L)), zero), ("gt", R, ("abs", R, xe), zero),
            ("not", ("eq", R, ("abs", R, xe), zero)),
        ]
        goal = rng.choice(templates)
        other = rng.choice(templates)
        kinds = rng.choice([["oint", "cint"], ["cint", "oint"], ["oint", "cint", "oint", "cint"], ["cint", "oint", "cint"],
                            ["oint", "oint", "cint"], ["oint", "cint", "cint"]])
        queries = [(goal, (k, X, L, U)) for k in kinds]
        if rng.random() < 0.5:
            queries.insert(rng.randint(0, len(queries)), (other, (rng.choice(["oint", "cint"]), X, L, U)))
        if rng.random() < 0.3:
            queries.append((other, (rng.choice(["oint", "cint"]), X, L, U)))
        history = []
        for qi, (gl, cond) in enumerate(queries):
            mode = "macro" if (gi + qi) % 3 == 0 else "direct"
            res = call_sympy(H, gl, cond, mode)
            ctx.case(("sympy-h", gi, qi, canon(gl), canon(cond)), nontrivial=True)
            ctx.count("sympy:history:%s" % (res if not res.startswith("raise") else "fails-with-exception"))
            if res == "accept":
                nacc += 1
                pt = sympy_counterexample(gl, cond)
                if pt is not None:
                    ctx.violation("sympy:accepts-invalid:%s|%s" % (canon(gl), canon(cond)),
                                  "sympywrapper (%s) accepts %s under %s, which is false in HOL at %s (asked after %d related queries in this process)" % (
                                      mode, H.term(gl), H.term(cond), pt, len(history)),
                                  {"kind": "sympy", "goal": tolist(gl), "cond": tolist(cond), "mode": mode, "x": str(pt),
                                   "history": [[tolist(a), tolist(b), m] for a, b, m in history]})
                else:
                    ctx.count("sympy:oracle:no-counterexample-on-grid")
            history.append((gl, cond, mode))
    ctx.log("sympy history stage: %d groups, %d accepted" % (ngroups, nacc))


def run(ctx):
    ctx.coverage["rule"] = (
        "Z3: goals of the translatable fragment built from ~150 families of valid facts and near misses (truncated nat subtraction, "
        "non-negativity of nat terms, nat/int/real/'a/bool binders at both polarities, of_nat of free and bound variables, division by "
        "variables, by literals and by zero, quotients of literals, min/max/abs, if-then-else, interval membership, uninterpreted "
        "functions and sets, untranslatable premises/conclusions, function equations, one name at two types) over random subterms of "
        "depth <= 2, wrapped at varying polarity, plus random formulas of depth <= 3; every 5th goal goes through Z3Macro.eval with the "
        "premises as previous theorems. SymPy: equations, disequations and relations over rational expressions in x (/, abs, powers, "
        "nat literal arithmetic), with and without a rational closed/open interval condition; every 4th through the macro. "
        "non-trivial = at least 5 (Z3) / 4 (SymPy) nodes; distinct by the goal's syntax tree.")
    ctx.coverage["trusted_base"] += []
    # 1. generated tables + Lean obligations
    try:
        if ctx.write_if_changed("Holpy/C06/Gen.lean", gen_lean(ctx)):
            ctx.log("Gen.lean regenerated (changed)")
    except Exception as e:  # noqa
        ctx.broken("translate:c06:norm_thms", "untranslatable: %r" % (e,))
    proofs_ok = ctx.lean_props(["Holpy.C06.Props"], exes=[EXE])
    if ctx.tier == "thorough" and proofs_ok:
        ctx.lean_check_modules(["Holpy.C06.Props"])
    ctx.coverage["trusted_base"] += [
        "Z3 (the wrapper's verdict `unsat` and, in the oracle, the independent encoding's verdicts) and SymPy (automatic simplification, "
        "is_zero, solveset) themselves",
        "harness/props/c06.py: generators, reader of holpy terms (term_to_h), walker of z3py ASTs, independent encoding, exact evaluator",
        "norm_term's rewriting (kernel conversions with library theorems) and fologic.simplify are not modelled: the model starts from "
        "the terms convert receives; their effect is covered by the oracles only"]
    ctx.assumptions += [
        "theorems are about the code with fixes/C06-1..11.patch applied; on a tree without them the oracle reports the defects as violations",
        "solve_sound assumes only Z3Correct (the solver's unsat is right) and that of_nat n >= 0 in the field interpreting real",
        "Z3 timeouts (2 s quick / 4 s thorough, set in the harness process) count as rejections",
        "SymPy: sqrt (total in the library: sgn(x)*sqrt|x|), exp and log (arbitrary for arguments <= 0) are judged at exact points and "
        "numerically (mpmath, 50 digits, margin 1e-30) elsewhere; trigonometric functions and real powers are generated only through the "
        "wrapper's tests, not by the oracle stream",
        "uminus on nat is declared in the library but unspecified: the oracles treat it as an arbitrary function nat => nat"]
    H = Holpy(ctx)
    H.z3.set_param("timeout", ctx.scale(2000, 4000))
    flag_checks(ctx, H)
    # 2. corpus first
    cz, cs = load_corpus(ctx)
    z3_check_goals(ctx, H, cz, ctx.rng("corpus"), "corpus")
    for goal, cond in cs:
        sympy_check_one(ctx, H, goal, cond, "direct", "corpus")
        sympy_check_one(ctx, H, goal, cond, "macro", "corpus")
    # 3. Z3 oracle stream
    rng = ctx.rng("z3")
    g = G(rng)
    goals = []
    for _ in range(ctx.scale(700, 6000)):
        x = g.goal()
        try:
            H.term(x).checked_get_type()
            goals.append(x)
        except Exception as e:  # noqa  (a binder and a variable of one name at two types: not a holpy term)
            ctx.count("z3:gen:not-a-term:" + type(e).__name__)
    for x in goals[:3]:
        ctx.sample({"z3_goal": str(H.term(x))})
    n = z3_check_goals(ctx, H, goals, ctx.rng("z3-oracle"), "gen")
    ctx.log("z3 stage: %d goals, %d accepted" % (len(goals), n))
    gd = G(ctx.rng("z3-directed"))
    dgoals = []
    for _ in range(ctx.scale(220, 700)):
        x = gd.directed()
        try:
            H.term(x).checked_get_type()
            dgoals.append(x)
        except Exception as e:  # noqa
            ctx.count("z3:directed:not-a-term:" + type(e).__name__)
    ctx.sample({"z3_directed_goal": str(H.term(dgoals[0]))})
    n = z3_check_goals(ctx, H, dgoals, ctx.rng("z3-oracle-directed"), "directed")
    ctx.log("z3 directed stage: %d goals, %d accepted" % (len(dgoals), n))
    # 4. SymPy oracle streams
    asked = sympy_stage(ctx, H)
    sympy_history_stage(ctx, H)
    sympy_correspondence(ctx, H, asked)
    gterms = [H.term(g) for g, _, _ in asked]
    try:
        from syntax import parser
        from logic import context
        context.set_context("transcendentals", vars={"x": "real"})
        for src in ("tan x > 0", "1 / cot x = tan x", "sec x * cos x = 1", "csc (x / 2) >= 1", "x ^ (1 / 2) >= 0",
                    "sqrt (log x) >= 0", "tan (1 / x) < sec (sqrt x)", "~(cot (x ^ (2::nat)) = 0)", "1 / 0 + x / (1 / 2) >= 0"):
            gterms.append(parser.parse_term(src))
    except Exception as e:  # noqa
        ctx.count("corr:sguards:fixed-terms-unavailable:" + type(e).__name__)
    sympy_guards_correspondence(ctx, H, gterms)
    # 5. correspondence with the model
    correspondence(ctx, H, cz + goals + dgoals, "gen")
    must = ["z3:gen:accept", "z3:gen:reject", "z3:oracle:valid-by-oracle", "sympy:plain:accept", "sympy:interval:accept", "corr:gen:agree",
            "corr:kind:error:z3exc"]
    if ctx.coverage.get("correspondence_unavailable"):
        must = [m for m in must if not m.startswith("corr:")]
    missing = [m for m in must if not ctx.coverage["histogram"].get(m)]
    h = ctx.coverage["histogram"]
    unknown = {k: v for k, v in h.items() if k.startswith("z3:oracle:no-countermodel-found")}
    ctx.coverage["oracle_undecided"] = {"accepted_goals_not_decided_by_the_independent_oracle": sum(unknown.values()), "by_reason": unknown,
                                        "accepted_goals_confirmed_valid": h.get("z3:oracle:valid-by-oracle", 0)}
    ctx.log("ORACLE: %d accepted Z3 goals confirmed valid, %d NOT decided by the independent oracle %s" % (
        h.get("z3:oracle:valid-by-oracle", 0), sum(unknown.values()), unknown))
    if missing:
        ctx.broken("coverage:c06", "branches never reached: %s" % missing)


def replay(ctx, rp):
    """Re-run one recorded failing input on the implementation; True if it still fails."""
    H = Holpy(ctx)
    H.z3.set_param("timeout", 10000)
    r = rp["replay"]
    if r.get("kind") == "z3":
        z3_check_goals(ctx, H, [totuple(r["goal"])] * 5 if r.get("via_macro") else [totuple(r["goal"])], ctx.rng("replay"), "replay")
    elif r.get("kind") == "sympy":
        for a, b, m in r.get("history", []):
            call_sympy(H, totuple(a), totuple(b) if b else None, m)
        sympy_check_one(ctx, H, totuple(r["goal"]), totuple(r["cond"]) if r.get("cond") else None, r.get("mode", "direct"), "replay")
    elif r.get("kind") == "flag":
        flag_checks(ctx, H)
    for v in ctx.violations:
        print("still fails:", v[1][:300])
    return bool(ctx.violations)


MANIFEST = {
    "text": "Z3 half: Lean model of z3wrapper.convert/solve_core/solve (Python-level literal folding, z3py operand reflection, side "
            "tables, bounded variant-name search). Theorems: convert preserves meaning exactly (convert_refines); the generated names "
            "are fresh and the output capture-free (convert_names_fresh, via an invariant of the tables proved for every run); "
            "solve_sound: if solve returns True and the solver's unsat is right (Z3Correct, the single explicit assumption), the "
            "premises imply the conclusion in every standard model (any ordered field for real, standard quantifier ranges, nat "
            "variables in N, arbitrary values for untranslatable subterms and uminus on nat); nat_ops_refine / casts_refine for the "
            "encodings of nat subtraction, division, of_nat; norm_thms_valid + norm_term_preserves_meaning: the 17 equations norm_term "
            "rewrites with (names and library statements regenerated and pinned) are valid and rewriting with valid equations in "
            "meaning-respecting contexts preserves meaning. Tied to the code by differential runs of solve_core against the model "
            "(assertion lists, capture check on both sides) and by the regenerated tables. Every acceptance of the real wrapper is "
            "judged by an independent encoding + exact evaluation + brute force. SymPy half: ORACLE-JUDGED (every acceptance, also "
            "under varied query histories, checked on rational grids with HOL semantics); Lean side: acceptance logic sound for an "
            "ABSTRACT value-preserving normaliser, and sympy_guards_sufficient_partial: the side conditions of fixes C06-7/10/11 "
            "(model sympyGuards, tied to get_divisors/get_pole_divisors/get_domain_conds by a stream) put every function of the goal "
            "inside its domain on the whole interval.",
    "note": "Trusted: Lean kernel; Z3 (Z3Correct) and SymPy themselves (that SymPy's answers establish the guards and that its "
            "simplification preserves values inside the domains); the harness (generators, term readers, independent encoding, "
            "evaluators); how a holpy term maps to the abstract term language of norm_term_preserves_meaning (the kernel's conversions "
            "are not modelled; norm_term/fologic.simplify are otherwise oracle-covered); multi-argument functions are not generated. "
            "check_z3_off_unsound, untranslatable_conclusion_not_negated, stdQuant_std restate definitions (pins); solve_sound_partial "
            "is superseded by solve_sound. The model's name search is bounded and fails at the bound (Python's terminates earlier by "
            "pigeonhole, not proved, not needed for soundness). Accepted goals the independent oracle could not decide are counted in "
            "coverage.oracle_undecided.",
    "design_ref": "DESIGN.md 4/C06",
}
FINDINGS = [
    {"status": "fixed", "key": "z3:nat-binders-not-relativised", "commit": "756a83a",
     "what": "z3wrapper.solve(~(!x::nat. 0 <= x)) and solve(?x::nat. x < 0) returned True: nat binders ranged over all integers"},
    {"status": "fixed", "key": "z3:of_nat-of-bound-variable", "commit": "2ce970b",
     "what": "solve(?x::nat. ~(of_nat x = (of_nat (if x = x then x else 0)::real))) returned True: of_nat of a bound variable became a free real constant"},
    {"status": "fixed", "key": "z3:function-equation-is-False", "commit": "c640097",
     "what": "solve(f = g --> false) and solve(~(f = g)) returned True for f, g :: nat => nat: == on Z3 function declarations is syntactic"},
    {"status": "fixed", "key": "z3:same-name-two-types", "commit": "8dd34c4",
     "what": "solve((x::nat) = 0 --> (x::int) = 0) returned True: both variables became the Z3 constant x of sort Int"},
    {"status": "fixed", "key": "sympy:structural-disequality", "commit": "342f356",
     "what": "sympywrapper.solve_goal(~((x + 1) * (x + 1) = x * x + 2 * x + 1)) returned True: lhs != rhs is syntactic"},
    {"status": "fixed", "key": "sympy:nat-subtraction", "commit": "8a88b26",
     "what": "solve_goal(~((2::nat) - 3 = 0)) and solve_goal((3::nat) - 5 < 0) returned True: nat subtraction not truncated"},
    {"status": "fixed", "key": "sympy:division-by-zero", "commit": "23b5fb8",
     "what": "solve_goal(x / x = 1), solve_with_interval(x / x >= 1, x Mem [0,1]), solve_with_interval(~(1 / x = 0), x Mem [-1,1]) returned True: SymPy's x/x = 1 and 1/0 = zoo against HOL's x / 0 = 0"},
    {"status": "fixed", "key": "z3:real-literals-as-python-numbers", "commit": "4f07e47",
     "what": "solve((if p then (1::real) else 3) / 2 = (if p then 0 else 1)) returned True (integer division on sort Int) and solve(~((2::real) / 6 = 1 / 3)) returned True (Python float division)"},
    {"status": "fixed", "key": "z3:uminus-on-nat", "commit": "757b6c2",
     "what": "solve(x > 0 --> -x < 0) returned True for x :: nat: uminus (declared at every type, unspecified on nat) was translated as integer negation"},
    {"status": "fixed", "key": "sympy:foreign-variable", "commit": "f1e2c0d",
     "what": "with x Mem real_closed_interval 0 1 the sympy step proved y / y > 0, ~(1 / y = 0), 1 / y * y >= 1 (false at y = 0): divisors were checked for zeros in x only"},
    {"status": "fixed", "key": "sympy:sqrt-log-domains", "commit": "797d97e",
     "what": "solve_goal proved sqrt(-1) * sqrt(-1) = -1, sqrt x * sqrt x = x, exp(log x) = x, x ^ (1/2) * x ^ (1/2) = x: SymPy's complex sqrt/log against the library's total real functions"},
]
