"""C17 — congruence closure: `test` decides exactly the congruence closure of the merged equations,
independently of order; explanations use only merged equations and (HOL wrapper) check.

Stages: (1) Lean obligations (Holpy.C17.Props) + driver; (2) correspondence: the real
`prover.congc.CongClosure` against the Lean model on generated operation sequences -- after every
operation the partition induced by all `test` answers, every `test`/`explain` result;
(3) property oracle on the implementation's own outputs: a naive fixpoint congruence closure judges
every partition (soundness and completeness), explanations (labels are merged equations and the
equality follows from the labels alone), order independence over permutations; (4) the HOL wrapper
`CongClosureHOL` on typed curried terms: `test` against the naive closure on terms and the model,
`explain` through `theory.check_proof` (conclusion, hypotheses, gaps) and, as a ProofTerm tree, against the
model of `get_proofterm` (PfModel.lean).

Streams: `raw` (operations directly on constants 0..7, adversarial: unknown constants, repeated and
self-referential equations), `term` (untyped curried terms of depth <= 3 over 8 atoms, flattened as
`CongClosureHOL.add_term` does), `perm` (all / sampled orders of small equation sets), `hol`.
"""
import itertools
import json
import os

from harness.common import sexp
from harness.common.ctx import Timeout, time_limit

EXE = "c17_model"
NATOMS = 8
MAX_REPORTED = 25       # violations written out (shrunk, with replay); further ones are only counted


# ------------------------------------------------------------------ terms and flattening
def atom(i):
    return ("a", i)


def app(f, x):
    return ("app", f, x)


def subterms(t, acc):
    if t not in acc:
        if t[0] == "app":
            subterms(t[1], acc)
            subterms(t[2], acc)
        acc[t] = True          # post-order, like add_term
    return acc


def term_str(t):
    if t[0] == "a":
        return "abcdfgRS"[t[1]] if t[1] < 8 else "k%d" % (t[1] - 10)
    return "(%s %s)" % (term_str(t[1]), term_str(t[2]))


class Flattener:
    """Reproduces CongClosureHOL.add_term / add_const / merge / test / explain as core operations.
    Constants are numbered 1, 2, ... in creation order (the wrapper calls them s1, s2, ...)."""

    def __init__(self):
        self.index = {}
        self.terms = []       # id-1 -> term
        self.ops = []

    def add_term(self, t):
        if t in self.index:
            return self.index[t]
        if t[0] == "a":
            return self.add_const(t)
        f = self.add_term(t[1])
        x = self.add_term(t[2])
        k = self.add_const(t)
        self.ops.append(("mf", f, x, k))
        return k

    def add_const(self, t):
        k = len(self.terms) + 1
        self.terms.append(t)
        self.index[t] = k
        self.ops.append(("add", k))
        return k

    def high(self, op):
        """Translate one term-level op; returns the slice of core ops it produced."""
        n0 = len(self.ops)
        kind = op[0]
        if kind == "addterm":
            self.add_term(op[1])
        else:
            u1 = self.add_term(op[1])
            u2 = self.add_term(op[2])
            self.ops.append(({"merge": "mc", "test": "test", "explain": "explain"}[kind], u1, u2))
        return self.ops[n0:]


def flatten_all(hops):
    fl = Flattener()
    spans = []
    for op in hops:
        spans.append(len(fl.high(op)))
    return fl, spans


# ------------------------------------------------------------------ generators
def gen_term(rng, depth, natoms=NATOMS):
    if depth == 0 or rng.random() < 0.3:
        return atom(rng.randrange(natoms))
    return app(gen_term(rng, depth - 1, natoms), gen_term(rng, depth - 1, natoms))


def gen_term_seq(rng):
    """Random interleaving of merge / test / explain / addterm on curried terms."""
    natoms = rng.choice([2, 3, 3, 4, 5, 8])
    n = rng.randint(2, 14)
    depth = rng.choice([1, 2, 2, 3])
    pool = [gen_term(rng, depth, natoms) for _ in range(rng.randint(2, 8))]
    for t in list(pool):                      # subterms make congruences likely
        if t[0] == "app" and rng.random() < 0.6:
            pool += [t[1], t[2]]
    out = []
    for _ in range(n):
        r = rng.random()
        s, t = rng.choice(pool), rng.choice(pool)
        if rng.random() < 0.15:
            s = gen_term(rng, depth, natoms)
        if r < 0.55:
            out.append(("merge", s, t))
        elif r < 0.7:
            out.append(("test", s, t))
        elif r < 0.93:
            out.append(("explain", s, t))
        else:
            out.append(("addterm", s))
    return out


def gen_raw_seq(rng):
    """Operations directly on the core structure."""
    nc = rng.choice([2, 3, 4, 5, 6, 8])
    n = rng.randint(1, 22)
    out = []
    c = lambda: rng.randrange(nc)  # noqa
    for _ in range(n):
        r = rng.random()
        if r < 0.05:
            out.append(("add", c()))
        elif r < 0.3:
            out.append(("mc", c(), c()))
        elif r < 0.7:
            out.append(("mf", c(), c(), c()))
        elif r < 0.8:
            out.append(("test", c(), c()))
        else:
            out.append(("explain", c(), c()))
    return out


def gen_eq_set(rng, k):
    natoms = rng.choice([2, 3, 3, 4, 5])
    depth = rng.choice([1, 2, 2, 3])
    pool = [gen_term(rng, depth, natoms) for _ in range(4)]
    for t in list(pool):
        if t[0] == "app":
            pool += [t[1], t[2]]
    return [(rng.choice(pool), rng.choice(pool)) for _ in range(k)]


# ------------------------------------------------------------------ implementation side (core)
def name_of(i):
    return "t%d" % i


def int_of(s):
    return int(s[1:])


def canon_label(l):
    if l[0] == 0:
        return ("c", int_of(l[1]), int_of(l[2]))
    _, ((a1, a2), a), ((b1, b2), b) = l
    return ("f",) + tuple(int_of(x) for x in (a1, a2, a, b1, b2, b))


def partition_by_test(test, consts):
    """[(c, least member of c's class)] using only the public `test`."""
    reps = []      # least members, ascending
    out = []
    for c in sorted(consts):
        for m in reps:
            if test(m, c):
                out.append((c, m))
                break
        else:
            reps.append(c)
            out.append((c, c))
    return out


def full_symmetric_ok(test, consts):
    """`test` must be an equivalence on the entered constants: checked on all pairs for small sets."""
    cs = sorted(consts)
    for x in cs:
        for y in cs:
            if test(x, y) != test(y, x):
                return False
    return True


def run_core(congc, ops, limit=20):
    """Run core ops on a fresh CongClosure; returns the list of canonical outputs (one per op)."""
    cl = congc.CongClosure()
    known = set()
    outs = []
    tst = lambda x, y: cl.test(name_of(x), name_of(y))  # noqa
    with time_limit(limit):
        for op in ops:
            kind = op[0]
            try:
                if kind == "add":
                    cl.add_var(name_of(op[1]))
                    known.add(op[1])
                    outs.append(("part", partition_by_test(tst, known)))
                elif kind == "mc":
                    cl.merge(name_of(op[1]), name_of(op[2]))
                    known.update(op[1:])
                    outs.append(("part", partition_by_test(tst, known)))
                elif kind == "mf":
                    cl.merge((name_of(op[1]), name_of(op[2])), name_of(op[3]))
                    known.update(op[1:])
                    outs.append(("part", partition_by_test(tst, known)))
                elif kind == "test":
                    outs.append(("test", bool(cl.test(name_of(op[1]), name_of(op[2])))))
                elif kind == "explain":
                    res = cl.explain(name_of(op[1]), name_of(op[2]))
                    outs.append(("res", sorted(((int_of(k[0]), int_of(k[1])), [canon_label(l) for l in v])
                                               for k, v in res.items())))
            except Timeout:
                raise
            except Exception as e:  # noqa
                # The property does not say how a query fails, only when it may: the class of the
                # exception is not compared.  test/explain on a constant never entered -> "key";
                # any other failing test/explain -> "assert" (RecursionError -> "fuel").
                # A failing add_var/merge is reported with its class (a merge must not fail).
                if kind in ("test", "explain"):
                    if not (op[1] in known and op[2] in known):
                        outs.append(("err", "key"))
                    elif isinstance(e, RecursionError):
                        outs.append(("err", "fuel"))
                    else:
                        outs.append(("err", "assert"))
                else:
                    outs.append(("raise", type(e).__name__))
    return outs


def parse_model_out(x):
    if isinstance(x, str):
        if x == "T":
            return ("test", True)
        if x == "F":
            return ("test", False)
        return ("?", x)
    if x and x[0] == "part":
        return ("part", [(int(c), int(m)) for c, m in x[1:]])
    if x and x[0] == "err":
        return ("err", x[1])
    if x and x[0] == "res":
        out = []
        for e in x[1:]:
            key = (int(e[0][0]), int(e[0][1]))
            labs = [tuple([l[0]] + [int(v) for v in l[1:]]) for l in e[1:]]
            out.append((key, labs))
        return ("res", out)
    return ("?", repr(x))


def ops_line(ops):
    return sexp.dumps([[op[0]] + [int(v) for v in op[1:]] for op in ops])


# ------------------------------------------------------------------ naive congruence closure (oracle)
class Naive:
    """Fixpoint closure over flat equations: consts (a,b), combs (a1,a2,a)."""

    def __init__(self, consts, combs, universe):
        self.p = {c: c for c in universe}
        for a, b in consts:
            self.p.setdefault(a, a)
            self.p.setdefault(b, b)
        for a1, a2, a in combs:
            for c in (a1, a2, a):
                self.p.setdefault(c, c)
        for a, b in consts:
            self.union(a, b)
        combs = list(combs)
        changed = True
        while changed:
            changed = False
            for i in range(len(combs)):
                for j in range(i + 1, len(combs)):
                    e, g = combs[i], combs[j]
                    if self.find(e[0]) == self.find(g[0]) and self.find(e[1]) == self.find(g[1]) \
                            and self.find(e[2]) != self.find(g[2]):
                        self.union(e[2], g[2])
                        changed = True

    def find(self, x):
        while self.p[x] != x:
            x = self.p[x]
        return x

    def union(self, a, b):
        ra, rb = self.find(a), self.find(b)
        if ra != rb:
            self.p[max(ra, rb)] = min(ra, rb)

    def eq(self, a, b):
        if a not in self.p or b not in self.p:
            return a == b
        return self.find(a) == self.find(b)

    def partition(self, consts):
        cs = sorted(consts)
        out = []
        for c in cs:
            m = min(d for d in cs if self.eq(c, d))
            out.append((c, m))
        return out


def judge_core(ops, outs):
    """Property oracle on the implementation's outputs for one core sequence.
    Returns None or (kind, index of the op, message)."""
    consts, combs, known = [], [], set()
    for i, (op, out) in enumerate(zip(ops, outs)):
        kind = op[0]
        if out[0] == "raise":
            return ("crash:" + out[1], i, "%s raised %s" % (op, out[1]))
        if kind in ("add", "mc", "mf"):
            known.update(op[1:])
            if kind == "mc":
                consts.append((op[1], op[2]))
            elif kind == "mf":
                combs.append((op[1], op[2], op[3]))
            if out[0] != "part":
                return ("merge-fails", i, "%s answered %s" % (op, out))
            want = Naive(consts, combs, known).partition(known)
            if out[1] != want:
                got = dict(out[1])
                w = dict(want)
                uns = [c for c in got if got[c] != w[c] and not Naive(consts, combs, known).eq(c, got[c])]
                which = "unsound" if uns else "incomplete"
                return ("test-" + which, i, "after %s the classes are %s, the congruence closure gives %s" % (op, out[1], want))
        elif kind == "test":
            if op[1] in known and op[2] in known:
                want = Naive(consts, combs, known).eq(op[1], op[2])
                if out[0] != "test":
                    return ("test-fails", i, "%s on entered constants failed (%s)" % (op, out))
                if out != ("test", want):
                    return ("test-" + ("unsound" if not want else "incomplete"), i, "%s answered %s, closure says %s" % (op, out, want))
            elif out[0] != "err":
                if not (out[0] == "test" and out[1] == (op[1] == op[2])):
                    return ("test-unknown", i, "%s on a constant never entered answered %s" % (op, out))
        elif kind == "explain":
            a, b = op[1], op[2]
            both = a in known and b in known
            equal = Naive(consts, combs, known).eq(a, b) if both else (a == b)
            if out[0] == "res":
                bad = judge_explanation(a, b, out[1], consts, combs) or explanation_closed(a, b, out[1])
                if bad:
                    return ("explain-" + bad[0], i, "%s: %s (result %s)" % (op, bad[1], out[1]))
                if not equal:
                    return ("explain-nonequality", i, "%s returned an explanation of a non-consequence" % (op,))
            elif equal and both:
                return ("explain-fails", i, "%s failed (%s) although the equality holds" % (op, out))
    return None


def judge_explanation(a, b, res, consts, combs):
    cset = set(consts) | {(y, x) for x, y in consts}
    fset = set(combs)
    used_c, used_f = set(), set()
    for key, labs in res:
        for l in labs:
            if l[0] == "c":
                if (l[1], l[2]) not in cset:
                    return ("foreign-label", "label %s is not a merged equation" % (l,))
                used_c.add((l[1], l[2]))
            else:
                e1, e2 = tuple(l[1:4]), tuple(l[4:7])
                if e1 not in fset or e2 not in fset:
                    return ("foreign-label", "label %s uses an application equation never merged" % (l,))
                used_f.add(e1)
                used_f.add(e2)
    if a != b and not Naive(used_c, used_f, {a, b}).eq(a, b):
        return ("insufficient", "%s = %s does not follow from the listed equations alone" % (a, b))
    return None


def explanation_closed(a, b, res):
    """The raw dictionary is an interface: `CongClosureHOL.explain.get_proofterm(u, v)` reads
    `explain[(u, v)]`, walks that path starting at `u` (every label must have the current constant as
    one of its two ends, in either direction) and, for a label (EQ_COMB, ((a1,a2),a), ((b1,b2),b)),
    calls itself on (a1, b1) if a1 != b1 and on (a2, b2) if a2 != b2 -- in exactly this orientation.
    A dictionary that is not closed in this sense makes the wrapper fail on an equality that holds
    ("every explanation ... yields a checker-accepted theorem"), so a departure is a violation; the
    Lean theorem `explain_closed` proves the same three clauses for the model.  Independent of the model."""
    keys = {k for k, _ in res}
    if a != b and (a, b) not in keys:
        return ("not-closed", "no entry for the queried pair %s" % ((a, b),))
    for (x, y), labs in res:
        cur = x
        for l in labs:
            p, q = (l[1], l[2]) if l[0] == "c" else (l[3], l[6])
            if p == cur:
                cur = q
            elif q == cur:
                cur = p
            else:
                return ("broken-chain", "the labels of entry %s do not chain from %s (at %s)" % ((x, y), x, l))
            if l[0] == "f":
                for u, v in ((l[1], l[4]), (l[2], l[5])):
                    if u != v and (u, v) not in keys:
                        return ("not-closed", "label %s on the path of %s needs an entry for %s (the consumer looks it up in this "
                                              "orientation)%s" % (l, (x, y), (u, v), "; only %s is there" % ((v, u),) if (v, u) in keys else ""))
        if cur != y:
            return ("broken-chain", "the labels of entry %s lead from %s to %s" % ((x, y), x, cur))
    return None


# ------------------------------------------------------------------ checking a batch of core sequences
def shrink(ops, fails):
    """Greedy deletion of single operations while `fails(ops)` keeps the same kind."""
    kind = fails(ops)
    if kind is None:
        return ops
    cur = list(ops)
    changed = True
    while changed:
        changed = False
        for i in range(len(cur) - 1, -1, -1):
            cand = cur[:i] + cur[i + 1:]
            try:
                k2 = fails(cand)
            except Exception:  # noqa
                k2 = None
            if k2 == kind:
                cur = cand
                changed = True
    return cur


def shrink_terms(hops, fails):
    """After op deletion: replace terms by their immediate subterms while the failure kind stays."""
    kind = fails(hops)
    if kind is None:
        return hops
    cur = [tuple(o) for o in hops]
    changed = True
    rounds = 0
    while changed and rounds < 20:
        changed = False
        rounds += 1
        for i, op in enumerate(cur):
            # both terms of a query at once: corresponding immediate subterms
            while len(op) >= 3 and isinstance(op[1], tuple) and isinstance(op[2], tuple) and op[1][0] == "app" and op[2][0] == "app":
                for j in (2, 1):
                    cand = cur[:i] + [(op[0], op[1][j], op[2][j]) + op[3:]] + cur[i + 1:]
                    try:
                        k2 = fails(cand)
                    except Exception:  # noqa
                        k2 = None
                    if k2 == kind:
                        cur = cand
                        op = cur[i]
                        changed = True
                        break
                else:
                    break
            for pos in (1, 2):
                if pos < len(op) and isinstance(op[pos], tuple) and op[pos][0] == "app":
                    for sub in (op[pos][1], op[pos][2]):
                        cand = cur[:i] + [op[:pos] + (sub,) + op[pos + 1:]] + cur[i + 1:]
                        try:
                            k2 = fails(cand)
                        except Exception:  # noqa
                            k2 = None
                        if k2 == kind:
                            cur = cand
                            op = cur[i]
                            changed = True
                            break
    return cur


def core_failure(congc):
    def fails(ops):
        try:
            outs = run_core(congc, ops)
        except Timeout:
            return "timeout"
        j = judge_core(ops, outs)
        return j[0] if j else None
    return fails


def check_core_batch(ctx, congc, seqs, stream, env=None):
    """seqs: list of core op lists.  Runs impl + oracle + model on all of them."""
    lines, impl = [], []
    for ops in seqs:
        try:
            outs = run_core(congc, ops)
        except Timeout:
            try:
                outs = run_core(congc, ops, limit=90)
            except Timeout:
                outs = None
        impl.append(outs)
        lines.append(ops_line(ops))
    model = ctx.lean_driver(EXE, lines) if lines else []
    ndis = 0
    for idx, ops in enumerate(seqs):
        outs = impl[idx]
        nmerge = sum(1 for o in ops if o[0] in ("mc", "mf"))
        ctx.case((stream, tuple(ops)), nontrivial=nmerge >= 2)
        if outs is None:
            ctx.violation("nontermination:" + json.dumps(ops), "CongClosure does not finish (90 s) on %s" % (ops,),
                          {"stream": "core", "ops": ops})
            continue
        for o in outs:
            ctx.count("%s:%s" % (stream, o[0] if o[0] != "err" else "err-" + o[1]))
            if o[0] == "res" and any(l[0] == "f" for _, labs in o[1] for l in labs):
                ctx.count("explanations-with-congruence-steps")
            if o[0] == "res" and len(o[1]) >= 3:
                ctx.count("explanations-with-nested-entries")
        j = judge_core(ops, outs)
        if j and len(ctx.violations) >= MAX_REPORTED:
            ctx.count("violations-beyond-the-first-%d" % MAX_REPORTED)
        elif j:
            small = shrink(ops, core_failure(congc))
            try:
                js = judge_core(small, run_core(congc, small)) or j
            except Timeout:
                js = j
            ctx.violation("%s:%s" % (j[0], json.dumps(small)), "CongClosure on %s: %s" % (small, js[2]),
                          {"stream": "core", "ops": small, "original_ops": ops, "kind": j[0], "failing_op_index": js[1]})
        if model is not None:
            try:
                m = sexp.loads(model[idx])
                mouts = [parse_model_out(x) for x in m] if isinstance(m, list) else [("bad", m)]
            except Exception:  # noqa
                mouts = [("unparsable", model[idx][:80])]
            if mouts != outs:
                ndis += 1
                if ndis <= 12 and env is not None:
                    lift_search(ctx, env, congc, ops, stream)
                if ndis <= 3:
                    k = next((i for i in range(min(len(outs), len(mouts))) if outs[i] != mouts[i]), min(len(outs), len(mouts)))
                    ctx.broken("correspondence:c17:" + stream,
                               "ops=%s first difference at op %d: impl=%s model=%s" % (ops, k, outs[k:k + 1], mouts[k:k + 1]))
                    ctx.coverage["disagreements_checked"] += 1
    return model is not None


# ------------------------------------------------------------------ lifting raw sequences into the HOL wrapper
LIFT = 10        # atom ids >= LIFT are the raw constants k0, k1, ... (base type)


def lift_ops(ops):
    """A raw operation sequence as a history of the HOL wrapper: constant c -> variable k<c> of the base
    type, `f(a1, a2) = a` -> merge(R k<a1> k<a2>, k<a>) with the binary variable R (curried), everything
    well typed.  The congruence closure on the k's is the same; used when the raw correspondence breaks,
    to look for a failing input of the wrapper (explain through the checker)."""
    k = lambda c: atom(LIFT + c)  # noqa
    out = []
    for op in ops:
        if op[0] == "add":
            out.append(("addterm", k(op[1])))
        elif op[0] == "mc":
            out.append(("merge", k(op[1]), k(op[2]), True))
        elif op[0] == "mf":
            out.append(("merge", app(app(atom(6), k(op[1])), k(op[2])), k(op[3]), True))
        else:
            out.append((op[0], k(op[1]), k(op[2])))
    return out


def lift_search(ctx, env, congc, ops, stream):
    """Failing-input search for one disagreeing raw sequence: run its lifting on the real wrapper."""
    hops = lift_ops(ops)
    ctx.count("lifted-into-hol")
    try:
        v, _ = run_hol(ctx, env, congc, hops)
    except Timeout:
        return
    if v and len(ctx.violations) < MAX_REPORTED:
        report_hol(ctx, env, congc, hops, v, "lifted from a disagreeing %s sequence" % stream)


# ------------------------------------------------------------------ order independence
def term_partition(congc_cls_test, fl, universe):
    """Partition of `universe` (terms) as a canonical frozenset of frozensets."""
    classes = []
    for t in universe:
        for cl in classes:
            if congc_cls_test(fl.index[cl[0]], fl.index[t]):
                cl.append(t)
                break
        else:
            classes.append([t])
    return frozenset(frozenset(c) for c in classes)


def run_eqs_core(congc, eqs, pre_terms=()):
    """Merge the term equations in the given order on a fresh core structure (terms added as the
    wrapper would); returns the partition of all subterms."""
    hops = [("addterm", t) for t in pre_terms] + [("merge", s, t) for s, t in eqs]
    fl, _ = flatten_all(hops)
    cl = congc.CongClosure()
    for op in fl.ops:
        if op[0] == "add":
            cl.add_var(name_of(op[1]))
        elif op[0] == "mc":
            cl.merge(name_of(op[1]), name_of(op[2]))
        elif op[0] == "mf":
            cl.merge((name_of(op[1]), name_of(op[2])), name_of(op[3]))
    universe = sorted(fl.index, key=repr)
    return term_partition(lambda x, y: cl.test(name_of(x), name_of(y)), fl, universe), fl


def check_order_independence(ctx, congc, eqs, perms, rng, stream):
    readable = [[term_str(s), term_str(t)] for s, t in eqs]
    try:
        with time_limit(60):
            base, fl0 = run_eqs_core(congc, eqs)
    except Exception as e:  # noqa  (the core streams report the details; here only the order matters)
        ctx.count(stream + ":raise")
        base, fl0 = ("raise", type(e).__name__), flatten_all([("merge", s, t) for s, t in eqs])[0]
    seqs = []
    for perm in perms:
        pe = [eqs[i] for i in perm]
        if rng.random() < 0.3:
            pe = [(t, s) if rng.random() < 0.5 else (s, t) for s, t in pe]     # orientation is not part of the set
        pre = []
        if rng.random() < 0.3:                                                  # terms added beforehand in another order
            pre = sorted(fl0.index, key=repr)
            rng.shuffle(pre)
            pre = pre[:rng.randint(1, len(pre))]
        try:
            with time_limit(60):
                part, fl = run_eqs_core(congc, pe, pre)
        except Exception as e:  # noqa
            part, fl = ("raise", type(e).__name__), flatten_all([("addterm", t) for t in pre] + [("merge", s, t) for s, t in pe])[0]
        seqs.append([o for o in fl.ops])
        ctx.count(stream + ":orders")
        if part != base and len(ctx.violations) >= MAX_REPORTED:
            ctx.count("violations-beyond-the-first-%d" % MAX_REPORTED)
        elif part != base:
            ctx.violation("order-dependent:" + json.dumps(readable) + ":" + json.dumps(list(perm)),
                          "merging %s in order %s gives %s, the given order gives %s" %
                          (readable, list(perm), show_part(part), show_part(base)),
                          {"stream": "perm", "eqs": eqs, "perm": list(perm), "pre_terms": pre, "flipped": pe})
    return seqs


def show_part(p):
    if isinstance(p, tuple):
        return "an exception (%s)" % p[1]
    return sorted(sorted(term_str(t) for t in c) for c in p)


# ------------------------------------------------------------------ HOL wrapper
class HolEnv:
    def __init__(self):
        from kernel.type import TVar, TFun
        from kernel.term import Var
        from logic import basic
        basic.load_theory('logic_base')
        Ta = TVar('a')
        self.types = {0: Ta, 1: Ta, 2: Ta, 3: Ta, 4: TFun(Ta, Ta), 5: TFun(Ta, Ta), 6: TFun(Ta, Ta, Ta), 7: TFun(Ta, Ta, Ta)}
        self.names = "abcdfgRS"
        self.vars = {i: Var(self.names[i], T) for i, T in self.types.items()}
        self.arity = {0: 0, 1: 0, 2: 0, 3: 0, 4: 1, 5: 1, 6: 2, 7: 2}

    def from_hol(self, T):
        if T.is_comb():
            return app(self.from_hol(T.fun), self.from_hol(T.arg))
        if T.name.startswith("k") and T.name[1:].isdigit():
            return atom(LIFT + int(T.name[1:]))
        return atom(self.names.index(T.name))

    def to_hol(self, t):
        if t[0] == "a":
            if t[1] >= LIFT:
                from kernel.term import Var
                return Var("k%d" % (t[1] - LIFT), self.types[0])
            return self.vars[t[1]]
        from kernel.term import Comb
        return Comb(self.to_hol(t[1]), self.to_hol(t[2]))

    def gen(self, rng, depth, order):
        """Typed curried term whose type has `order` arguments left (0: base type)."""
        heads = [i for i in range(8) if self.arity[i] >= order and (depth >= self.arity[i] - order)]
        if depth == 0:
            heads = [i for i in heads if self.arity[i] == order]
        h = rng.choice(heads)
        t = atom(h)
        for _ in range(self.arity[h] - order):
            t = app(t, self.gen(rng, max(depth - 1, 0) if rng.random() < 0.6 else 0, 0))
        return t

    @staticmethod
    def pt_flag(rng, p):
        """The pt= argument of a generated merge: True (assume(s = t)), "sym" (symmetric(assume(t = s))) or False (none)."""
        if rng.random() < p:
            return "sym" if rng.random() < 0.15 else True
        return False

    def gen_seq(self, rng):
        n = rng.randint(2, 10)
        depth = rng.choice([1, 2, 2, 3])
        pool = {0: [self.gen(rng, depth, 0) for _ in range(rng.randint(3, 7))],
                1: [self.gen(rng, 1, 1) for _ in range(3)],
                2: [atom(6), atom(7)]}
        for t in list(pool[0]):
            acc = subterms(t, {})
            for s in acc:
                pool[self.order_of(s)].append(s)
        out = []
        for _ in range(n):
            o = rng.choice([0, 0, 0, 0, 0, 1, 1, 2])
            s, t = rng.choice(pool[o]), rng.choice(pool[o])
            if o == 0 and rng.random() < 0.15:
                s = self.gen(rng, depth, 0)
            r = rng.random()
            if r < 0.5:
                out.append(("merge", s, t, self.pt_flag(rng, 0.85)))   # last: with proof term (assume / symmetric(assume) / none)
                if rng.random() < 0.12:
                    out.append(("merge", t, s, self.pt_flag(rng, 0.85)))   # the same equation the other way round
                if rng.random() < 0.06:
                    out.append(("merge", s, t, self.pt_flag(rng, 0.5)))    # merged again: pts[(u1, u2)] is overwritten / created late
            elif r < 0.62:
                out.append(("test", s, t))
            elif r < 0.95:
                out.append(("explain", s, t))
            else:
                out.append(("addterm", s))
        return out

    # -- directed: one explanation that needs the same classes compared in both orientations
    def gen_nested(self, rng, depth, heads1, heads2, leaves):
        """Typed term of base type, nested: binary/unary heads from few symbols, leaves from few atoms."""
        if depth == 0 or (depth == 1 and rng.random() < 0.15):
            return rng.choice(leaves)
        if heads1 and rng.random() < 0.3:
            return app(rng.choice(heads1), self.gen_nested(rng, depth - 1, heads1, heads2, leaves))
        h = rng.choice(heads2)
        return app(app(h, self.gen_nested(rng, depth - 1, heads1, heads2, leaves)),
                   self.gen_nested(rng, depth - 1, heads1, heads2, leaves))

    def variant(self, rng, t, classes, p=0.7):
        """Replace atoms by other members of their class (classes: list of lists of atoms)."""
        if t[0] == "a":
            for cl in classes:
                if t in cl and rng.random() < p:
                    return rng.choice(cl)
            return t
        return app(self.variant(rng, t[1], classes, p), self.variant(rng, t[2], classes, p))

    def gen_swap_seq(self, rng):
        """Merge a few atoms (and sometimes two function symbols), then ask for explanations between
        two variants of one nested curried term of depth 2-3 over few atoms: the same pair of classes
        is needed in both orientations inside one explanation.  Terms are pre-added in varied
        orders; merges carry proof terms, or not, or mixed; equations are sometimes merged in both
        orientations."""
        base = [atom(i) for i in range(4)]
        rng.shuffle(base)
        k = rng.choice([2, 2, 2, 3])
        cls = base[:k]
        classes = [cls]
        eqs = []
        for i in range(k - 1):
            e = (cls[i], cls[i + 1])
            eqs.append(e if rng.random() < 0.5 else (e[1], e[0]))
        heads1 = rng.choice([[], [atom(4)], [atom(4), atom(5)]])
        heads2 = rng.choice([[atom(6)], [atom(6)], [atom(6), atom(7)]])
        if len(heads1) == 2 and rng.random() < 0.5:
            eqs.append((atom(4), atom(5)) if rng.random() < 0.5 else (atom(5), atom(4)))
            classes.append([atom(4), atom(5)])
        if len(heads2) == 2 and rng.random() < 0.4:
            eqs.append((atom(6), atom(7)) if rng.random() < 0.5 else (atom(7), atom(6)))
            classes.append([atom(6), atom(7)])
        leaves = cls + base[k:k + rng.choice([0, 1, 2])]
        depth = rng.choice([2, 2, 3])
        tmpl = self.gen_nested(rng, depth, heads1, heads2, leaves)
        t1, t2 = self.variant(rng, tmpl, classes), self.variant(rng, tmpl, classes)
        mode = rng.choice(["pt", "pt", "pt", "none", "mixed"])
        with_pt = lambda: (mode == "pt" or (mode == "mixed" and rng.random() < 0.5)) and ("sym" if rng.random() < 0.12 else True)  # noqa
        setup = [("merge", s, t, with_pt()) for s, t in eqs]
        for s, t in eqs:                                   # the mirror image of an equation, too
            if rng.random() < 0.3:
                setup.append(("merge", t, s, with_pt()))
        if rng.random() < 0.6:                             # terms enter in another order
            subs = list(subterms(t1, {})) + list(subterms(t2, {}))
            rng.shuffle(subs)
            setup += [("addterm", x) for x in subs[:rng.randint(1, max(1, len(subs) // 2))]]
        if rng.random() < 0.7:
            rng.shuffle(setup)
        out = list(setup)
        out.append(("test", t1, t2))
        pairs = [(t1, t2), (t2, t1)]
        if t1[0] == "app" and t2[0] == "app":
            pairs.append((t1[2], t2[2]))
        t3 = self.variant(rng, tmpl, classes)
        pairs.append((t3, t1))
        rng.shuffle(pairs)
        for s, t in pairs[:rng.randint(2, 4)]:
            out.append(("explain", s, t))
        if rng.random() < 0.3:                             # a late mirror merge, then explain again
            s, t = rng.choice(eqs)
            out.append(("merge", t, s, with_pt()))
            out.append(("explain", t2, t1))
        return out

    # -- directed: the subterms of the goal enter the structure in arbitrary orders, through any call
    def gen_order_family(self, rng, all_orders):
        """One goal `l = r` (two variants of a nested term under merged atoms) and several histories that
        enter the application subterms of l and r in different orders -- through add_term, test, explain
        or merge calls on them, interleaved with the merges -- before asking for the explanation.
        all_orders: every permutation when there are at most 4 application subterms (thorough tier)."""
        base = [atom(i) for i in range(4)]
        rng.shuffle(base)
        k = rng.choice([2, 2, 3])
        cls = base[:k]
        classes = [cls]
        eqs = [(cls[i], cls[i + 1]) if rng.random() < 0.5 else (cls[i + 1], cls[i]) for i in range(k - 1)]
        shape = rng.random()
        x, y = cls[0], cls[1]
        if shape < 0.45:        # R (f x) (g x) = R (f y) (g y): two unary congruences over the same pair
            h1, h2 = rng.choice([(atom(4), atom(5)), (atom(4), atom(4)), (atom(5), atom(4))])
            top = rng.choice([atom(6), atom(7)])
            l = app(app(top, app(h1, x)), app(h2, x))
            r = app(app(top, app(h1, y)), app(h2, y))
            if rng.random() < 0.3:
                extra = rng.choice(base)
                l, r = app(app(top, l), extra), app(app(top, r), extra)
        elif shape < 0.75:      # R (S x c) (S d x) = R (S y c) (S d y)
            top, h = rng.choice([(atom(6), atom(7)), (atom(6), atom(6))])
            c, d = rng.choice(base), rng.choice(base)
            l = app(app(top, app(app(h, x), c)), app(app(h, d), x))
            r = app(app(top, app(app(h, y), c)), app(app(h, d), y))
        else:
            tmpl = self.gen_nested(rng, 2, [atom(4), atom(5)], [atom(6)], cls + base[k:k + 1])
            l, r = self.variant(rng, tmpl, classes), self.variant(rng, tmpl, classes)
        subs = [t for t in list(subterms(l, {})) + list(subterms(r, {})) if t[0] == "app" and self.order_of(t) == 0 and t not in (l, r)]
        subs = list(dict.fromkeys(subs))
        mode = rng.choice(["pt", "pt", "none", "mixed"])
        with_pt = lambda: mode == "pt" or (mode == "mixed" and rng.random() < 0.5)  # noqa
        if all_orders and len(subs) <= 4:
            perms = [list(p) for p in itertools.permutations(subs)]
        else:
            perms = []
            for _ in range(4 if not all_orders else 8):
                p = list(subs)
                rng.shuffle(p)
                perms.append(p)
        fam = []
        for perm in perms:
            entered = []
            ops = []
            for t in perm:
                r_ = rng.random()
                if r_ < 0.4 or not entered:
                    ops.append(("addterm", t))
                elif r_ < 0.7:
                    ops.append(("test", t, rng.choice(entered)))
                elif r_ < 0.85:
                    ops.append(("explain", t, t))
                else:
                    ops.append(("test", rng.choice(entered), t))
                entered.append(t)
            merges = [("merge", s, t, with_pt()) for s, t in eqs]
            where = rng.random()
            if where < 0.4:
                ops = merges + ops
            elif where < 0.7:
                ops = ops + merges
            else:
                for m in merges:
                    ops.insert(rng.randint(0, len(ops)), m)
            ops.append(("test", l, r))
            ops.append(("explain", l, r))
            if rng.random() < 0.5:
                ops.append(("explain", r, l))
            fam.append(ops)
        return fam

    def order_of(self, t):
        n = 0
        while t[0] == "app":
            t = t[1]
            n += 1
        return self.arity[t[1]] - n


def naive_terms(eqs, universe):
    """Naive closure on terms: flatten everything, run Naive; returns (fl, naive)."""
    fl = Flattener()
    for t in universe:
        fl.add_term(t)
    consts = [(fl.index[s], fl.index[t]) for s, t in eqs]
    combs = [(o[1], o[2], o[3]) for o in fl.ops if o[0] == "mf"]
    return fl, Naive(consts, combs, set(range(1, len(fl.terms) + 1)))


class Trace(list):
    """The partitions after every op (the list itself) plus, per op, the wrapper's internal constant table
    `index` (None when the attribute is not there) and the answer of a `test` op."""

    def __init__(self):
        super().__init__()
        self.tables = []
        self.answers = []
        self.proofs = []       # per op: None, or for an `explain` the ProofTerm tree / ["err", kind]


def term_sexp(t):
    return t[1] if t[0] == "a" else [term_sexp(t[1]), term_sexp(t[2])]


def sexp_term(x):
    return atom(int(x)) if isinstance(x, str) else app(sexp_term(x[0]), sexp_term(x[1]))


def pt_tree(env, pt):
    """The real ProofTerm returned by CongClosureHOL.explain as a nested list: rule names, shape, leaves."""
    T = lambda x: term_sexp(env.from_hol(x))  # noqa
    r = pt.rule
    if r == "assume":
        return ["assume", T(pt.args.lhs), T(pt.args.rhs)]
    if r == "sorry":
        return ["gap", T(pt.th.prop.lhs), T(pt.th.prop.rhs)]      # wire name of the sorry rule
    if r == "reflexive":
        return ["reflexive", T(pt.args)]
    if r in ("symmetric", "transitive", "combination"):
        return [r] + [pt_tree(env, q) for q in pt.prevs]
    return ["other", str(r)]


def given_pt_sexp(op):
    """The proof term the harness passes as pt= to merge(s, t), for the model: flag True -> assume(s = t),
    "sym" -> symmetric(assume(t = s)) (a proof of s = t from the mirrored hypothesis), False -> none."""
    flag = op[3] if len(op) > 3 else False
    S, T = term_sexp(op[1]), term_sexp(op[2])
    if flag == "sym":
        return ["symmetric", ["assume", T, S]]
    if flag:
        return ["assume", S, T]
    return "-"


def holp_line(hops):
    out = ["holp"]
    for h in hops:
        if h[0] == "merge":
            out.append(["merge", term_sexp(h[1]), term_sexp(h[2]), given_pt_sexp(h)])
        elif h[0] == "addterm":
            out.append(["add", term_sexp(h[1])])
        else:
            out.append([h[0], term_sexp(h[1]), term_sexp(h[2])])
    return sexp.dumps(out)


def norm_tree(x):
    return [norm_tree(y) for y in x] if isinstance(x, (list, tuple)) else str(x)


def tree_rules(x, acc):
    if isinstance(x, list) and x and isinstance(x[0], str) and x[0] in ("assume", "gap", "reflexive", "symmetric", "transitive", "combination"):
        acc.add(x[0])
        if x[0] in ("symmetric", "transitive", "combination"):
            for y in x[1:]:
                tree_rules(y, acc)
    return acc


def wrapper_table(env, cl):
    """CongClosureHOL.index (constant name s<k> -> term) as [(k, term)], or None if it cannot be read."""
    try:
        return sorted((int(k[1:]), env.from_hol(t)) for k, t in cl.index.items())
    except Exception:  # noqa
        return None


def run_hol(ctx, env, congc, hops, limit=60):
    """Runs one term-level sequence on the real CongClosureHOL.  Returns (violation or None, parts)
    where parts is the list of term partitions (as sorted id pairs w.r.t. the harness flattener)
    after every op."""
    from kernel import theory
    from kernel.report import ProofReport
    from kernel.term import Eq
    from kernel.proofterm import ProofTerm
    cl = congc.CongClosureHOL()
    fl = Flattener()
    merged, sorried = [], []
    given_hyps = set()
    parts = Trace()
    H = env.to_hol
    with time_limit(limit):
        for i, op in enumerate(hops):
            kind = op[0]
            proof_here = None
            fl.high(op[:3])
            universe = list(fl.index)
            _, nv = naive_terms(merged + ([(op[1], op[2])] if kind == "merge" else []), universe)
            nfl = _
            eqn = lambda s, t: nv.eq(nfl.index[s], nfl.index[t])  # noqa
            try:
                if kind == "addterm":
                    cl.add_term(H(op[1]))
                elif kind == "merge":
                    s, t = H(op[1]), H(op[2])
                    if op[3] == "sym":
                        gpt = ProofTerm.assume(Eq(t, s)).symmetric()
                        given_hyps.update(gpt.hyps)
                        cl.merge(s, t, pt=gpt)
                    elif op[3]:
                        gpt = ProofTerm.assume(Eq(s, t))
                        given_hyps.update(gpt.hyps)
                        cl.merge(s, t, pt=gpt)
                    else:
                        cl.merge(s, t)
                        sorried.append((op[1], op[2]))
                    merged.append((op[1], op[2]))
                elif kind == "test":
                    got = bool(cl.test(H(op[1]), H(op[2])))
                    parts.answers.append(got)
                    want = eqn(op[1], op[2])
                    if got != want:
                        return ("hol-test-" + ("unsound" if got else "incomplete"), i,
                                "test(%s, %s) = %s, congruence closure says %s" % (term_str(op[1]), term_str(op[2]), got, want)), parts
                elif kind == "explain":
                    s, t = H(op[1]), H(op[2])
                    want = eqn(op[1], op[2])
                    try:
                        pt = cl.explain(s, t)
                    except AssertionError:
                        if want:
                            return ("hol-explain-fails", i, "explain(%s, %s) raised AssertionError although the equality holds" % (term_str(op[1]), term_str(op[2]))), parts
                        pt = None
                        proof_here = ["err", "assert"]
                    if pt is not None:
                        proof_here = pt_tree(env, pt)
                        rpt = ProofReport()
                        th = theory.check_proof(pt.export(), rpt)
                        hyps_ok = set(th.hyps) <= given_hyps        # only hypotheses of proof terms given to merge
                        gaps_ok = all(g.hyps == () and g.prop in {Eq(H(a), H(b)) for a, b in sorried} for g in rpt.gaps)
                        if th.prop != Eq(s, t):
                            return ("hol-explain-wrong-conclusion", i, "explain(%s, %s) proves %s" % (term_str(op[1]), term_str(op[2]), th)), parts
                        if not hyps_ok:
                            return ("hol-explain-foreign-hyp", i, "explain(%s, %s) proves %s with hypotheses that are not hypotheses of the proof terms given to merge" % (term_str(op[1]), term_str(op[2]), th)), parts
                        if not gaps_ok:
                            return ("hol-explain-foreign-gap", i, "explain(%s, %s): proof has gaps %s that are not merged equations" % (term_str(op[1]), term_str(op[2]), [str(g) for g in rpt.gaps])), parts
                        # the used hypotheses/gaps alone must entail the equality
                        leaves = set(th.hyps) | {g.prop for g in rpt.gaps}
                        used = [(a, b) for a, b in merged if Eq(H(a), H(b)) in leaves or Eq(H(b), H(a)) in leaves]
                        ufl, unv = naive_terms(used, universe)
                        if not unv.eq(ufl.index[op[1]], ufl.index[op[2]]):
                            return ("hol-explain-insufficient", i, "hypotheses of %s do not entail it" % th), parts
                        if not want:
                            return ("hol-explain-nonequality", i, "explain proved %s which is not a consequence" % th), parts
            except Timeout:
                raise
            except Exception as e:  # noqa
                return ("hol-raise:" + type(e).__name__, i, "%s(%s) raised %s: %s" % (kind, ", ".join(term_str(x) for x in op[1:3] if isinstance(x, tuple)), type(e).__name__, str(e)[:120])), parts
            # partition of all entered terms through the public test (no term is new: no mutation)
            ids = sorted(fl.index.values())
            tst = lambda x, y: cl.test(H(fl.terms[x - 1]), H(fl.terms[y - 1]))  # noqa
            part = partition_by_test(tst, ids)
            want_part = [(c, min(d for d in ids if eqn(fl.terms[c - 1], fl.terms[d - 1]))) for c in ids]
            if part != want_part:
                return ("hol-partition", i, "after op %d the classes %s differ from the congruence closure %s" % (i, part, want_part)), parts
            parts.append(part)
            parts.proofs.append(proof_here)
            parts.tables.append(wrapper_table(env, cl))
            if len(parts.answers) < len(parts):
                parts.answers.append(None)
    return None, parts


def hol_failure(ctx, env, congc):
    def fails(hops):
        try:
            v, _ = run_hol(ctx, env, congc, hops)
        except Timeout:
            return "timeout"
        return v[0] if v else None
    return fails


def hops_json(hops):
    return [[op[0]] + [term_str(x) if isinstance(x, tuple) else x for x in op[1:]] for op in hops]


def report_hol(ctx, env, congc, hops, v, origin=None):
    small = shrink(hops, hol_failure(ctx, env, congc))
    small = shrink(shrink_terms(small, hol_failure(ctx, env, congc)), hol_failure(ctx, env, congc))
    try:
        vs = run_hol(ctx, env, congc, small)[0] or v
    except Timeout:
        vs = v
    # crashes are keyed by exception and operation (one replay per class), the rest by input
    key = "%s:%s" % (v[0], small[vs[1]][0]) if v[0].startswith("hol-raise:") else "%s:%s" % (v[0], json.dumps(hops_json(small)))
    ctx.violation(key, "CongClosureHOL on %s: %s%s" % (hops_json(small), vs[2], " (%s)" % origin if origin else ""),
                  {"stream": "hol", "hops": small, "readable": hops_json(small), "kind": v[0]})


def check_hol_batch(ctx, env, congc, seqs):
    lines, parts_all = [], []
    hol_lines = {}
    holp_lines = {}
    for hops in seqs:
        nm = sum(1 for o in hops if o[0] == "merge")
        ctx.case(("hol", tuple(hops)), nontrivial=nm >= 2)
        for o in hops:
            ctx.count("hol:" + o[0])
        try:
            v, parts = run_hol(ctx, env, congc, hops)
        except Timeout:
            v, parts = ("hol-timeout", 0, "CongClosureHOL does not finish (60 s)"), []
        if v and len(ctx.violations) >= MAX_REPORTED:
            ctx.count("violations-beyond-the-first-%d" % MAX_REPORTED)
            parts_all.append(None)
            lines.append(ops_line([]))
            continue
        if v:
            report_hol(ctx, env, congc, hops, v)
            parts_all.append(None)
            lines.append(ops_line([]))
            continue
        fl, spans = flatten_all([h[:3] for h in hops])
        core = [o for o in fl.ops if o[0] in ("add", "mc", "mf")]
        lines.append(ops_line(core))
        hol_lines[len(lines) - 1] = sexp.dumps(["hol"] + [[{"addterm": "add"}.get(h[0], h[0])] + [term_sexp(x) for x in h[1:3]] for h in hops])
        holp_lines[len(lines) - 1] = holp_line(hops)
        # partitions after each high-level op = model partition after the last core op of its span
        parts_all.append((parts, fl, spans))
    order = sorted(hol_lines)
    ctx.log("hol: implementation side done (%d histories)" % len(seqs))
    model = ctx.lean_driver(EXE, lines + [hol_lines[i] for i in order] + [holp_lines[i] for i in order]) if lines else []
    ctx.log("hol: model side done")
    if model is None:
        return False
    wmodel = dict(zip(order, model[len(lines):]))
    pmodel = dict(zip(order, model[len(lines) + len(order):]))
    ndis = ntab = npf = 0
    for idx, hops in enumerate(seqs):
        if parts_all[idx] is None:
            continue
        parts, fl, spans = parts_all[idx]
        # the wrapper model (HolModel.lean): constant table and test answers after every call
        wm = sexp.loads(wmodel[idx]) if idx in wmodel else "bad-op"
        if isinstance(wm, list) and len(wm) == len(hops):
            for hi, (hop, o) in enumerate(zip(hops, wm)):
                tab = o if hop[0] in ("merge", "addterm") else o[1]
                mtab = [(int(e[0]), sexp_term(e[1])) for e in tab[1:]]
                itab = parts.tables[hi] if hi < len(parts.tables) else None
                bad = None
                if itab is None:
                    ctx.count("hol-table-not-readable")
                elif itab != mtab:
                    bad = "after op %d the wrapper's table is %s, the model's %s" % (hi, [(k, term_str(t)) for k, t in itab], [(k, term_str(t)) for k, t in mtab])
                else:
                    ctx.count("hol-table-compared")
                if hop[0] == "test" and hi < len(parts.answers) and parts.answers[hi] is not None and o[0] != ("T" if parts.answers[hi] else "F"):
                    bad = "test at op %d answered %s, the wrapper model %s" % (hi, parts.answers[hi], o[0])
                if bad:
                    ntab += 1
                    if ntab <= 3:
                        ctx.broken("correspondence:c17:hol-wrapper", "hops=%s %s" % (hops_json(hops), bad))
                        ctx.coverage["disagreements_checked"] += 1
                    break
        else:
            ntab += 1
            if ntab <= 3:
                ctx.broken("correspondence:c17:hol-wrapper", "hops=%s model answered %s" % (hops_json(hops), str(wm)[:100]))
        # the proof-term assembly (PfModel.lean): the ProofTerm tree of every explain -- rule names, shape, leaves
        pm = sexp.loads(pmodel[idx]) if idx in pmodel else "bad-op"
        if isinstance(pm, list) and len(pm) == len(hops):
            for hi, hop in enumerate(hops):
                if hop[0] != "explain" or hi >= len(parts.proofs) or parts.proofs[hi] is None:
                    continue
                itree, mtree = norm_tree(parts.proofs[hi]), norm_tree(pm[hi])
                if itree[0] == "err":
                    same = isinstance(mtree, list) and mtree and mtree[0] == "err"
                    ctx.count("hol-proofterm:explain-refused")
                else:
                    same = itree == mtree
                    ctx.count("hol-proofterm-compared")
                    for r in tree_rules(parts.proofs[hi], set()):
                        ctx.count("hol-proofterm-with:" + r)
                if not same:
                    npf += 1
                    if npf <= 3:
                        ctx.broken("correspondence:c17:hol-proofterm", "hops=%s explain at op %d: the code built %s, the model %s" %
                                   (hops_json(hops), hi, sexp.dumps(itree), sexp.dumps(mtree) if isinstance(mtree, list) else mtree))
                        ctx.coverage["disagreements_checked"] += 1
                    break
        else:
            npf += 1
            if npf <= 3:
                ctx.broken("correspondence:c17:hol-proofterm", "hops=%s model answered %s" % (hops_json(hops), str(pm)[:100]))
        m = sexp.loads(model[idx])
        mparts = [parse_model_out(x) for x in m] if isinstance(m, list) else []
        # index of the last mutating core op belonging to each high-level op
        pos, k = [], 0
        j = 0
        for hop, span in zip(hops, spans):
            ops_here = fl.ops[j:j + span]
            j += span
            k += sum(1 for o in ops_here if o[0] in ("add", "mc", "mf"))
            pos.append(k)
        for hi, p in enumerate(parts):
            want = mparts[pos[hi] - 1][1] if pos[hi] >= 1 and pos[hi] - 1 < len(mparts) and mparts[pos[hi] - 1][0] == "part" else []
            if p != want:
                ndis += 1
                if ndis <= 3:
                    ctx.broken("correspondence:c17:hol", "hops=%s after op %d impl classes %s model %s" % (hops_json(hops), hi, p, want))
                    ctx.coverage["disagreements_checked"] += 1
                break
    return True


# ------------------------------------------------------------------ main
def load_corpus(ctx):
    p = os.path.join(ctx.verif, "corpus", "c17.json")
    if os.path.exists(p):
        with open(p) as f:
            return json.load(f)
    return {"core": [], "hol": []}


def tup(x):
    return tuple(tup(y) for y in x) if isinstance(x, list) else x


def run(ctx):
    ctx.coverage["rule"] = (
        "operation sequences from the empty structure. raw: 1-22 random add/merge(a=b)/merge(f(a1,a2)=a)/test/explain over 2-8 constants "
        "(unknown constants, repeated and self-referential equations included); term: 2-14 merge/test/explain/add_term on untyped curried "
        "terms of depth <=3 over <=8 atoms, flattened as CongClosureHOL.add_term does; perm: equation sets of <=5 equations in all orders "
        "(thorough) or sampled orders, with flipped orientations and pre-added terms; hol: typed curried terms over a,b,c,d,f,g,R,S on the "
        "real CongClosureHOL, random plus directed sequences (hol-swap: two variants of one nested term of depth 2-3 over few atoms, so that "
        "one explanation needs the same classes in both orientations; terms pre-added in varied orders; merges with and without proof "
        "terms and in both orientations; hol-order: one goal, the application subterms of both sides entered beforehand in sampled orders "
        "(thorough: all orders when there are <=4) through add_term/test/explain calls interleaved with the merges). Every raw explanation "
        "is also checked for closedness (what CongClosureHOL.explain looks up); a raw sequence on which model and code disagree is lifted "
        "into the wrapper and replayed there. Non-trivial = at least two merges; distinct by the operation list.")
    proofs_ok = ctx.lean_props(["Holpy.C17.Props", "Holpy.C17.PropsPf", "Holpy.C17.PropsPf2"], exes=[EXE])
    if ctx.tier == "thorough" and proofs_ok:
        ctx.lean_check_modules(["Holpy.C17.Props", "Holpy.C17.PropsPf", "Holpy.C17.PropsPf2"])
    ctx.coverage["trusted_base"] += [
        "correspondence harness harness/props/c17.py (generators, flattening of terms, canonical forms)",
        "naive fixpoint congruence closure in the harness (oracle for the implementation's answers)",
        "kernel checker theory.check_proof for the theorems returned by CongClosureHOL.explain (its soundness is property C01/C02)"]
    ctx.assumptions += [
        "the Lean core model reads dictionaries that cannot miss with a default instead of KeyError (the proof-term assembly model uses Option reads, proved to hit)",
        "hol_explain_proof_valid assumes the caller's contract: a proof term given as merge(s, t, pt=q) proves s = t (the harness gives assume(s = t) or symmetric(assume(t = s)))",
        "path_to_root / explain recursion carry fuel in the model (len(proof_forest) steps / len(proof_forest)+1 levels); proof_forest_wellformed and explain_total prove that the bounds are never hit in a reachable state"]
    from prover import congc
    corpus = load_corpus(ctx)
    ctx.log("lean obligations audited")
    env = HolEnv()
    ctx.log("holpy theory loaded")
    have_model = True
    # corpus first
    if corpus.get("core"):
        have_model &= check_core_batch(ctx, congc, [[tuple(o) for o in ops] for ops in corpus["core"]], "corpus", env)
    if corpus.get("hol"):
        check_hol_batch(ctx, env, congc, [[tup(o) for o in hops] for hops in corpus["hol"]])
    # raw stream
    rng = ctx.rng("raw")
    seqs = [gen_raw_seq(rng) for _ in range(ctx.scale(4000, 40000))]
    for s in seqs[:2]:
        ctx.sample({"raw": s})
    have_model &= check_core_batch(ctx, congc, seqs, "raw", env)
    ctx.log("raw stream done")
    # term stream
    rng = ctx.rng("term")
    hseqs = [gen_term_seq(rng) for _ in range(ctx.scale(3000, 30000))]
    for h in hseqs[:2]:
        ctx.sample({"term": hops_json(h)})
    have_model &= check_core_batch(ctx, congc, [flatten_all(h)[0].ops for h in hseqs], "term", env)
    ctx.log("term stream done")
    # permutations
    rng = ctx.rng("perm")
    nsets = ctx.scale(150, 500)
    pseqs = []
    for _ in range(nsets):
        k = rng.randint(2, 5)
        eqs = gen_eq_set(rng, k)
        allp = list(itertools.permutations(range(k)))
        if ctx.tier == "quick" and len(allp) > 12:
            perms = [allp[0]] + rng.sample(allp[1:], 11)
        else:
            perms = allp
        pseqs += check_order_independence(ctx, congc, eqs, perms, rng, "perm")
        if len(pseqs) >= 5000:
            have_model &= check_core_batch(ctx, congc, pseqs, "perm", env)
            pseqs = []
    if pseqs:
        have_model &= check_core_batch(ctx, congc, pseqs, "perm", env)
    if ctx.tier == "thorough":
        ctx.coverage["exhaustive"] = False
        ctx.coverage["exhaustive_subspace"] = "all orders of each of the %d sampled equation sets of <=5 equations" % nsets
    ctx.log("perm stream done")
    # HOL wrapper
    rng = ctx.rng("hol")
    hol = [env.gen_seq(rng) for _ in range(ctx.scale(600, 5000))]
    rng = ctx.rng("hol-swap")
    swap = [env.gen_swap_seq(rng) for _ in range(ctx.scale(500, 5000))]
    ctx.sample({"hol-swap": hops_json(swap[0])})
    hol += swap
    rng = ctx.rng("hol-order")
    nfam = 0
    while nfam < ctx.scale(120, 400):
        fam = env.gen_order_family(rng, ctx.tier == "thorough")
        if nfam == 0:
            ctx.sample({"hol-order": hops_json(fam[0])})
        hol += fam
        ctx.count("hol-order:histories", len(fam))
        nfam += 1
    for h in hol[:2]:
        ctx.sample({"hol": hops_json(h)})
    have_model &= check_hol_batch(ctx, env, congc, hol)
    ctx.log("hol stream done")
    if not have_model:
        ctx.broken("correspondence:c17:driver", "model driver unavailable")


def replay(ctx, rp):
    """Re-run one recorded failing input on the implementation; returns True if it still fails."""
    from prover import congc
    r = rp["replay"]
    still = False
    if r.get("stream") == "core":
        ops = [tuple(o) for o in r["ops"]]
        outs = run_core(congc, ops, limit=90)
        j = judge_core(ops, outs)
        if j:
            print("still fails:", j[2])
            still = True
    elif r.get("stream") == "hol":
        env = HolEnv()
        v, _ = run_hol(ctx, env, congc, [tup(o) for o in r["hops"]])
        if v:
            print("still fails:", v[2])
            still = True
    elif r.get("stream") == "perm":
        eqs = [tup(e) for e in r["eqs"]]

        def part_of(es, pre=()):
            try:
                return run_eqs_core(congc, es, pre)[0]
            except Exception as e:  # noqa
                return ("raise", type(e).__name__)
        base = part_of(eqs)
        other = part_of([tup(e) for e in r["flipped"]], [tup(t) for t in r.get("pre_terms", [])])
        if base != other:
            print("still fails: partitions differ between the two orders")
            still = True
    return still


MANIFEST = {
    "text": "Lean theorems about an executable model of prover/congc.py CongClosure, for every sequence of add_var/merge calls (test and "
            "explain do not change the core structure, so every interleaving is covered): test_sound / test_complete (test answers True "
            "exactly for the congruence closure of the merged equations; test_defined_iff_entered: KeyError exactly for constants never "
            "entered), order_independent (+ _perm corollary) and renaming_invariant, pending_empty_after_merge (_propagate terminates within "
            "the modelled bound), proof_forest_wellformed (keys, parents stay in the class, acyclic, one root per class, the walk bound "
            "len(proof_forest) is never hit), explain_total (explain returns for every pair test reports equal: no KeyError, no assert, "
            "recursion at most len(proof_forest)+1 deep -- time-stamp argument), explain_uses_inputs, explain_closed (the dictionary is "
            "closed for its consumer), explain_complete_proof (re-running the verified decision procedure specTest on exactly the returned "
            "equations derives the equality; specTest_iff). HOL wrapper: HolModel.lean models CongClosureHOL's term bookkeeping (add_const, "
            "add_term with currying and fresh constants per subterm, merge, test); hol_tables_consistent, hol_test_sound (test True implies "
            "derivable by congruence closure on terms, hence true in every model of the merged equations) and hol_test_complete (entailed "
            "implies test True, whatever was entered before). The models are tied to the code by differential runs: core -- partition induced "
            "by test after every operation, every test/explain result; wrapper -- the internal constant table `index` and every test answer "
            "after every call. The implementation's own answers are judged by a naive fixpoint closure (both directions), explanations by "
            "re-deriving the equality from their labels alone and by closedness, order independence by running permutations; "
            "CongClosureHOL.explain goes through theory.check_proof (conclusion is exactly the queried equality, hypotheses are hypotheses "
            "of the proof terms given to merge, gaps are merged equations, and together they entail it). "
            "Proof-term assembly (PfModel.lean, PropsPf.lean): the table pts and get_proofterm of CongClosureHOL.explain are modelled "
            "statement by statement over an inductive proof system EqPf (assume / sorry / reflexive / symmetric / transitive / combination) "
            "with the checker EqPf.concl (Thm.symmetric / transitive / combination without types) and ProofTerm.transitive's two reflexive "
            "short cuts; all dictionary reads of the assembly (index, pts, the explain dictionary) are Option reads. hol_explain_proof_valid: "
            "for every history of merge (with or without pt=) / add_term / test / explain calls in which every given proof term proves its "
            "equation, whenever the core explain returns, get_proofterm returns (no KeyError, the assert b == cur_pos holds, recursion at most "
            "len(proof_forest)+1 deep), the tree checks with conclusion exactly l = r, its hypotheses are hypotheses of given proof terms and its "
            "gaps are merged equations (or gaps of given proof terms). eqpf_checker_sound: a tree that checks derives its conclusion from its "
            "leaves by reflexivity, symmetry, transitivity and congruence. hol_explain_returns_iff: the wrapper's explain returns a proof term "
            "exactly when the equality is derivable from the merged term equations (otherwise the core assert fires). hol_pts_irrelevant: pt= arguments never influence index / rev_index / "
            "the core structure. Tie: for every explain of every generated wrapper history the real ProofTerm tree (rule names, shape, leaf "
            "equations) is compared with the model's tree (stream hol-proofterm; merges with assume(s = t), symmetric(assume(t = s)) or no "
            "proof term, mirrored and repeated merges so that pts entries are overwritten or created late).",
    "note": "Trusted: Lean kernel, propext/Classical.choice/Quot.sound, the harness generators/flattener/naive closure, theory.check_proof for "
            "the HOL wrapper's theorems (the Lean checker EqPf.concl is untyped: combination's test that the function has a function type "
            "whose domain is the argument's type is not modelled; the real checker is still run on every explain). Not proved in Lean: that "
            "dictionary reads inside merge / _propagate / the core explain cannot raise KeyError with partial maps (the core model uses "
            "defaults; a KeyError in the code shows up as a disagreement and as a failed merge) -- only the reads of the proof-term assembly "
            "are modelled as partial and proved to hit. Not modelled: abstractions and bound variables in add_term (as written the code "
            "enters an abstraction as an atomic constant after entering its body, answers None for a loose bound variable and for an "
            "application containing one -- merge then fails with TypeError, test with AssertionError; no congruence under binders: after "
            "merge(a, b), test(%x. f a, %x. f b) is False; observed on the real code, outside the property's quantifier, no theorem, no "
            "correspondence stream); ematch (outside the property). HolModel carries a ghost log of the core "
            "calls (not in the Python) to connect the wrapper to the core theorems.",
    "design_ref": "DESIGN.md 4/C17",
}
FINDINGS = [
    {"status": "fixed", "key": "hol-raise:InvalidDerivationException:explain", "commit": "6a1fa1e",
     "what": "CongClosureHOL.explain raised InvalidDerivationException whenever a proof-forest edge was traversed backwards after the first "
             "step (pt.transitive(pt, eq_pt.symmetric()) chained the running proof with itself), e.g. merge(a,b); merge(c,b); explain(a,c)"},
    {"status": "fixed", "key": "hol-raise:KeyError:explain", "commit": "445fd57",
     "what": "CongClosureHOL.explain(t, t) raised KeyError for every term t (the core returns an empty dictionary for identical "
             "constants and get_proofterm looked the pair up)"},
]
