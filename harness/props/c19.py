"""C19 -- every step of the symbolic integration calculator preserves the value.

Stages (see DESIGN.md 4/C19, SPINE.md):
 1. Lean obligations (Holpy.C19.Props: deriv_correct, interval_encloses, expr_parse_print, linearity/split) + driver.
 2. Correspondence with the Lean model (lean/Holpy/C19/Model.lean):
      deriv   -- integral.rules.deriv with `rules.normalize` replaced by the identity IN THIS PROCESS, compared
                 syntactically with `derivM`;
      print   -- Expr.__str__ compared with the model printer; parser.parse_expr compared with the model parser;
      interval-- Interval + - * / ** on rational endpoints compared exactly.
 3. Property oracle on the implementation (numerical, mpmath: SUPPORTING EVIDENCE, not proof):
      (i) deriv vs numerical differentiation, (ii) every recorded step of integral/examples/*.json re-run through
      compstate and evaluated before/after, (iii) generated Linearity/SplitRegion/IntegrationByParts/Substitution
      applications, (iv) normalize value-preserving + idempotent, (v) interval bounds enclose sampled values,
      (vi) print -> parse round trip on generated expressions and on every expression of the example files.
"""
import contextlib
import glob
import io
import json
import os
import sys
import time
from fractions import Fraction

import mpmath

from harness.common import sexp
from harness.common.ctx import Timeout, time_limit

EXE = "c19_model"
TOL = 1e-6


# =====================================================================================================
# numerical evaluation of calculator expressions (mpmath)
# =====================================================================================================
class Unrel(Exception):
    """The value cannot be computed reliably (outside the domain, complex, divergent, too slow ...)."""


def _mk_ctx(dps):
    c = mpmath.MPContext()
    c.dps = dps
    return c


MP_LO = _mk_ctx(20)
MP_HI = _mk_ctx(40)


class NumEval:
    """Evaluate an integral.expr.Expr at a real environment with one mpmath context.

    defs: list of (name, [argnames], rhs Expr) for user defined functions / constants (FuncDef items).
    base: base points for indefinite integrals (the value of `INT x. f` at env is the integral of f from
          base[x] to env[x]; only differences between two environments are ever compared).
    """

    def __init__(self, mp, E, defs=None, base=None, quad_tol=1e-9):
        self.mp = mp
        self.E = E                      # the integral.expr module of the repo under test
        self.defs = defs or {}
        self.base = base or {}
        self.quad_tol = quad_tol
        self.depth = 0

    # -- helpers
    def real(self, v):
        mp = self.mp
        if isinstance(v, mp.mpc):
            if v.imag == 0:
                v = v.real
            else:
                raise Unrel("complex")
        if not isinstance(v, mp.mpf):
            v = mp.mpf(v)
        if mp.isnan(v):
            raise Unrel("nan")
        return v

    def finite(self, v):
        v = self.real(v)
        if self.mp.isinf(v):
            raise Unrel("inf")
        return v

    def is_int(self, v):
        return self.mp.isint(v)

    def ev(self, e, env):
        try:
            return self._ev(e, env)
        except (ZeroDivisionError, OverflowError, ValueError, ArithmeticError, mpmath.libmp.NoConvergence) as ex:
            raise Unrel(type(ex).__name__)
        except RecursionError:
            raise Unrel("recursion")

    def _ev(self, e, env):
        E, mp = self.E, self.mp
        ty = e.ty
        if ty == E.VAR or ty == E.SYMBOL:
            if e.name in env:
                return env[e.name]
            if e.name in self.defs and not self.defs[e.name][0]:
                return self._ev(self.defs[e.name][1], env)
            raise Unrel("unbound:" + e.name)
        if ty == E.CONST:
            v = e.val
            if isinstance(v, Fraction):
                return mp.mpf(v.numerator) / mp.mpf(v.denominator)
            return mp.mpf(v)
        if ty == E.INF:
            return mp.inf if e == E.POS_INF else -mp.inf
        if ty == E.SKOLEMFUNC:
            return mp.mpf(0)
        if ty == E.OP:
            if len(e.args) == 1:
                return -self._ev(e.args[0], env)
            a = self._ev(e.args[0], env)
            b = self._ev(e.args[1], env)
            op = e.op
            if op == "+":
                return self.real(a + b)
            if op == "-":
                return self.real(a - b)
            if op == "*":
                return self.real(a * b)
            if op == "/":
                if b == 0:
                    raise Unrel("div0")
                return self.real(a / b)
            if op == "^":
                if a == 0 and b <= 0:
                    raise Unrel("0^nonpos")
                if a < 0 and not self.is_int(b):
                    raise Unrel("neg^frac")
                return self.real(mp.power(a, b))
            raise Unrel("op:" + op)
        if ty == E.FUN:
            return self._fun(e, env)
        if ty == E.INTEGRAL:
            lo = self.real(self._ev(e.lower, env))
            hi = self.real(self._ev(e.upper, env))
            return self._quad(e.var, e.body, lo, hi, env)
        if ty == E.EVAL_AT:
            return self._at(e, e.upper, env, -1) - self._at(e, e.lower, env, +1)
        if ty == E.DERIV:
            if e.var not in env:
                raise Unrel("deriv-var-unbound")
            x0 = env[e.var]
            env2 = dict(env)

            def f(t):
                env2[e.var] = t
                return self.finite(self._ev(e.body, env2))
            self.depth += 1
            try:
                if self.depth > 2:
                    raise Unrel("nesting")
                return self.real(mp.diff(f, x0))
            finally:
                self.depth -= 1
        if ty == E.LIMIT:
            return self._limit(e.var, e.body, e.lim, e.drt, env)
        if ty == E.SUMMATION:
            return self._sum(e, env)
        if ty == E.INDEFINITEINTEGRAL:
            if e.var not in env or e.var not in self.base:
                raise Unrel("indef-var-unbound")
            return self._quad(e.var, e.body, self.base[e.var], env[e.var], env)
        raise Unrel("ty:%s" % ty)

    def _quad(self, var, body, lo, hi, env):
        mp = self.mp
        if lo == hi:
            return mp.mpf(0)
        env2 = dict(env)

        def f(t):
            env2[var] = t
            return self.finite(self._ev(body, env2))
        self.depth += 1
        try:
            if self.depth > 2:
                raise Unrel("nesting")
            pts = [lo, hi]
            v, err = mp.quad(f, pts, error=True, maxdegree=8 if self.depth == 1 else 6)
        finally:
            self.depth -= 1
        v = self.finite(v)
        if err > self.quad_tol * max(1, abs(v)):
            raise Unrel("quad-err")
        return v

    def _at(self, e, pt, env, side):
        """Value of the body of an EvalAt at one end; one-sided limit when direct evaluation fails."""
        mp = self.mp
        p = self.real(self._ev(pt, env))
        if not mp.isinf(p):
            env2 = dict(env)
            env2[e.var] = p
            try:
                return self.finite(self.ev(e.body, env2))
            except Unrel:
                pass
        return self._limit_num(e.var, e.body, p, side, env)

    def _limit(self, var, body, lim, drt, env):
        mp = self.mp
        p = self.real(self._ev(lim, env))
        if mp.isinf(p):
            return self._limit_num(var, body, p, 0, env)
        if drt == "+":
            return self._limit_num(var, body, p, +1, env)
        if drt == "-":
            return self._limit_num(var, body, p, -1, env)
        a = self._limit_num(var, body, p, +1, env)
        b = self._limit_num(var, body, p, -1, env)
        if abs(a - b) > 1e-9 * max(1, abs(a)):
            raise Unrel("two-sided-limit")
        return a

    def _limit_num(self, var, body, p, side, env):
        mp = self.mp
        env2 = dict(env)

        def f(t):
            env2[var] = t
            return self.finite(self._ev(body, env2))
        self.depth += 1
        try:
            if self.depth > 2:
                raise Unrel("nesting")
            if mp.isinf(p):
                # monotone sequence of sample points; Richardson/Shanks inside mp.limit
                v = mp.limit(lambda n: f(n if p > 0 else -n), mp.inf)
                chk = f(mp.mpf(10) ** 6 if p > 0 else -mp.mpf(10) ** 6)
            else:
                v = mp.limit(f, p, direction=side)   # direction=+1: from above
                chk = f(p + side * mp.mpf(10) ** -8)
        finally:
            self.depth -= 1
        v = self.finite(v)
        # consistency with a plain evaluation near the limit point (guards against wild extrapolation)
        if abs(v - chk) > 1e-3 * max(1, abs(v)):
            raise Unrel("limit-unstable")
        return v

    def _sum(self, e, env):
        mp = self.mp
        lo = self.real(self._ev(e.lower, env))
        hi = self.real(self._ev(e.upper, env))
        if not self.is_int(lo) or (not mp.isinf(hi) and not self.is_int(hi)):
            raise Unrel("sum-bounds")
        env2 = dict(env)

        def f(k):
            env2[e.index_var] = mp.mpf(k)
            return self.finite(self._ev(e.body, env2))
        self.depth += 1
        try:
            if self.depth > 2:
                raise Unrel("nesting")
            if mp.isinf(hi):
                if mp.isinf(lo):
                    raise Unrel("sum-bounds")
                v = mp.nsum(f, [int(lo), mp.inf])
                # plain partial sums must be heading there
                part = sum((f(k) for k in range(int(lo), int(lo) + 400)), mp.mpf(0))
                if abs(part - v) > 2e-2 * max(1, abs(v)):
                    raise Unrel("sum-unstable")
                return self.finite(v)
            if hi - lo > 3000:
                raise Unrel("sum-long")
            return self.finite(sum((f(k) for k in range(int(lo), int(hi) + 1)), mp.mpf(0)))
        finally:
            self.depth -= 1

    def _fun(self, e, env):
        mp = self.mp
        name = e.func_name
        if name in self.defs and len(self.defs[name][0]) == len(e.args):
            params, rhs = self.defs[name]
            vals = [self._ev(a, env) for a in e.args]
            env2 = dict(env)
            env2.update(zip(params, vals))
            self.depth_def = getattr(self, "depth_def", 0) + 1
            try:
                if self.depth_def > 4:
                    raise Unrel("def-nesting")
                return self._ev(rhs, env2)
            finally:
                self.depth_def -= 1
        if len(e.args) == 0:
            if name == "pi":
                return +mp.pi
            if name == "G":
                return +mp.catalan
            raise Unrel("fun0:" + name)
        a = self._ev(e.args[0], env)
        if len(e.args) == 2:
            b = self._ev(e.args[1], env)
            if name == "binom":
                return self.real(mp.binomial(a, b))
            if name == "B":
                return self.real(mp.beta(a, b))
            raise Unrel("fun2:" + name)
        if len(e.args) != 1:
            raise Unrel("funN:" + name)
        if name == "sin":
            return mp.sin(a)
        if name == "cos":
            return mp.cos(a)
        if name == "tan":
            return self.real(mp.tan(a))
        if name == "cot":
            return self.real(mp.cot(a))
        if name == "sec":
            return self.real(mp.sec(a))
        if name == "csc":
            return self.real(mp.csc(a))
        if name == "exp":
            return self.real(mp.exp(a))
        if name == "log":
            if a <= 0:
                raise Unrel("log-domain")
            return self.real(mp.log(a))
        if name == "sqrt":
            if a < 0:
                raise Unrel("sqrt-domain")
            return self.real(mp.sqrt(a))
        if name == "abs":
            return abs(a)
        if name == "atan":
            return self.real(mp.atan(a))
        if name == "acot":
            return self.real(mp.pi / 2 - mp.atan(a))
        if name in ("asin", "acos"):
            if abs(a) > 1:
                raise Unrel("asin-domain")
            return self.real(mp.asin(a) if name == "asin" else mp.acos(a))
        if name == "sinh":
            return self.real(mp.sinh(a))
        if name == "cosh":
            return self.real(mp.cosh(a))
        if name == "tanh":
            return self.real(mp.tanh(a))
        if name == "factorial":
            if a < 0 and self.is_int(a):
                raise Unrel("factorial-domain")
            return self.real(mp.factorial(a))
        if name == "Gamma":
            if a <= 0 and self.is_int(a):
                raise Unrel("gamma-pole")
            return self.real(mp.gamma(a))
        raise Unrel("fun:" + name)


def two_prec(E, e, env, defs=None, base=None, limit_s=20):
    """Value of e at env with two precisions; returns an mpf (HI context) or raises Unrel."""
    out = []
    t_end = time.time() + limit_s
    for mp in (MP_LO, MP_HI):
        envm = {k: mp.mpf(v) if not isinstance(v, Fraction) else mp.mpf(v.numerator) / v.denominator for k, v in env.items()}
        basem = {k: mp.mpf(v) if not isinstance(v, Fraction) else mp.mpf(v.numerator) / v.denominator for k, v in (base or {}).items()}
        ne = NumEval(mp, E, defs, basem)
        try:
            with time_limit(max(0.05, t_end - time.time())):
                out.append(ne.finite(ne.ev(e, envm)))
        except Timeout:
            raise Unrel("slow")
    lo, hi = out
    if abs(MP_HI.mpf(lo) - hi) > 1e-9 * max(1, abs(hi)):
        raise Unrel("precision-unstable")
    return hi


def close(a, b, tol=TOL):
    return abs(a - b) <= tol * max(1, abs(a), abs(b))


# =====================================================================================================
# loading the implementation, quietly
# =====================================================================================================
@contextlib.contextmanager
def quiet():
    """holpy prints diagnostics from several rules; keep the check's output readable."""
    old = sys.stdout
    sys.stdout = io.StringIO()
    try:
        yield
    finally:
        sys.stdout = old


class Impl:
    """The modules of the repo under test (imported after the runner put ctx.repo on sys.path)."""

    def __init__(self):
        import warnings
        warnings.simplefilter("ignore", SyntaxWarning)
        from integral import expr, rules, parser, poly, interval, compstate, context, conditions, limits
        self.expr, self.rules, self.parser, self.poly, self.interval = expr, rules, parser, poly, interval
        self.compstate, self.context, self.conditions, self.limits = compstate, context, conditions, limits

    @contextlib.contextmanager
    def raw_deriv(self):
        """`rules.deriv` calls `normalize` only through the module global `rules.normalize` (closure `normal`);
        replacing that global by the identity exposes the raw case structure.  Restored on exit."""
        old = self.rules.normalize
        self.rules.normalize = lambda e, conds=None: e
        try:
            yield
        finally:
            self.rules.normalize = old


# =====================================================================================================
# sampling of parameter values under stated conditions
# =====================================================================================================
INT_FUNS = ("factorial", "binom")


def integer_vars(E, exprs):
    """Variables that only make sense as integers: arguments of factorial/binom, summation bounds and
    exponents of negative constants ((-1)^n)."""
    out = set()

    def rec(e, under):
        if e.ty == E.VAR:
            if under:
                out.add(e.name)
        elif e.ty in (E.OP, E.FUN):
            u = under or (e.ty == E.FUN and e.func_name in INT_FUNS)
            if e.ty == E.OP and e.op == "^" and len(e.args) == 2:
                b = e.args[0]
                neg = (b.ty == E.CONST and b.val < 0) or (b.ty == E.OP and len(b.args) == 1)
                rec(e.args[0], under)
                rec(e.args[1], under or neg)
                return
            for a in e.args:
                rec(a, u)
        elif e.ty in (E.INTEGRAL, E.EVAL_AT):
            rec(e.lower, under), rec(e.upper, under), rec(e.body, under)
        elif e.ty == E.SUMMATION:
            rec(e.lower, True), rec(e.upper, True), rec(e.body, under)
        elif e.ty == E.LIMIT:
            rec(e.lim, under), rec(e.body, under)
        elif e.ty in (E.DERIV, E.INDEFINITEINTEGRAL, E.DIFFERENTIAL):
            rec(e.body, under)
    for e in exprs:
        rec(e, False)
    return out


def cond_holds(E, cond, env):
    """Numerical truth of one stated condition at env (None when it cannot be evaluated)."""
    if not (cond.ty == E.OP and len(cond.args) == 2 and cond.op in ("=", "!=", "<", "<=", ">", ">=")):
        return None
    ne = NumEval(MP_LO, E)
    envm = {k: MP_LO.mpf(v) for k, v in env.items()}
    try:
        a = ne.finite(ne.ev(cond.args[0], envm))
        b = ne.finite(ne.ev(cond.args[1], envm))
    except Unrel:
        return None
    margin = 1e-3    # stay away from the boundary of the admissible region
    return {"=": abs(a - b) < 1e-12, "!=": abs(a - b) > margin, "<": a < b - margin, "<=": a <= b,
            ">": a > b + margin, ">=": a >= b}[cond.op]


def sample_env(E, rng, names, conds, intvars, tries=300):
    """A random environment for `names` satisfying every stated condition that mentions only them."""
    names = sorted(names)
    for _ in range(tries):
        env = {}
        for n in names:
            if n in intvars:
                env[n] = rng.choice([0, 1, 1, 2, 2, 3, 4])
            else:
                r = rng.random()
                if r < 0.55:
                    env[n] = round(rng.uniform(0.2, 2.5), 3)
                elif r < 0.9:
                    env[n] = round(rng.uniform(-2.5, 2.5), 3)
                else:
                    env[n] = round(rng.uniform(-0.95, 0.95), 3)
        # equalities  v = c  in the conditions pin the variable
        for c in conds:
            if c.ty == E.OP and c.op == "=" and c.args[0].ty == E.VAR and c.args[0].name in env:
                try:
                    ne = NumEval(MP_LO, E)
                    env2 = {k: MP_LO.mpf(v) for k, v in env.items() if k != c.args[0].name}
                    env[c.args[0].name] = float(ne.finite(ne.ev(c.args[1], env2)))
                except Unrel:
                    pass
        ok = True
        for c in conds:
            if c.get_vars() <= set(env):
                h = cond_holds(E, c, env)
                if h is False or h is None:
                    ok = False
                    break
        if ok:
            return env
    return None


# =====================================================================================================
# (ii) recorded calculations of integral/examples/*.json
# =====================================================================================================
def find_book(repo, name):
    """The book a file was recorded with: the `CompFile("<book>", "<name>")` call of tests/integral_test.py when
    there is one, else the book whose `path` entries mention the file (how the application opens it)."""
    import re
    try:
        with open(os.path.join(repo, "integral", "tests", "integral_test.py"), encoding="utf-8") as f:
            for b, n in re.findall(r'CompFile\(\s*"(\w+)"\s*,\s*["\'](\w+)["\']\s*\)', f.read()):
                if n == name:
                    return b
    except Exception:  # noqa
        pass
    ex = os.path.join(repo, "integral", "examples")
    try:
        with open(os.path.join(ex, "index.json"), encoding="utf-8") as f:
            books = json.load(f)["book_list"]
    except Exception:  # noqa
        books = ["base", "interesting"]
    for b in books:
        try:
            with open(os.path.join(ex, b + ".json"), encoding="utf-8") as f:
                info = json.load(f)
        except Exception:  # noqa
            continue
        for it in info.get("content", []):
            if isinstance(it, dict) and it.get("path") == name:
                return b
    return "interesting"


def typed_example_files(repo):
    ex = os.path.join(repo, "integral", "examples")
    out = []
    for p in sorted(glob.glob(os.path.join(ex, "*.json"))):
        try:
            with open(p, encoding="utf-8") as f:
                d = json.load(f)
        except Exception:  # noqa
            continue
        c = d.get("content") if isinstance(d, dict) else None
        if not c or not all(isinstance(x, dict) and x.get("type") in ("Goal", "FuncDef", "Calculation") for x in c):
            continue
        out.append((os.path.basename(p)[:-5], c))
    return out


def walk_calcs(I, item, label):
    """Yield (label, Calculation, is_equation_calc) for every calculation below a parsed StateItem."""
    cs = I.compstate
    if isinstance(item, cs.Calculation):
        yield label, item, False
    elif isinstance(item, cs.Goal):
        if item.proof is not None:
            yield from walk_calcs(I, item.proof, label)
        for k, g in enumerate(item.sub_goals):
            yield from walk_calcs(I, g, label + ".sub%d" % k)
    elif isinstance(item, cs.CalculationProof):
        yield label + ".lhs", item.lhs_calc, False
        yield label + ".rhs", item.rhs_calc, False
    elif isinstance(item, cs.InductionProof):
        yield from walk_calcs(I, item.base_case, label + ".base")
        yield from walk_calcs(I, item.induct_case, label + ".induct")
    elif isinstance(item, cs.CaseProof):
        yield from walk_calcs(I, item.case_1, label + ".case1")
        yield from walk_calcs(I, item.case_2, label + ".case2")
    elif isinstance(item, cs.RewriteGoalProof):
        yield label + ".rewrite", item.begin, True


def defs_of(I, ctx_):
    """User definitions visible in a holpy Context, as name -> ([params], rhs)."""
    E = I.expr
    out = {}
    for ident in ctx_.get_definitions():
        l = ident.lhs
        if l.ty == E.FUN and all(a.ty in (E.SYMBOL, E.VAR) for a in l.args):
            out[l.func_name] = ([a.name for a in l.args], ident.rhs)
        elif l.ty in (E.SYMBOL, E.VAR):
            out[l.name] = ([], ident.rhs)
    return out


def indef_vars(E, e, acc=None):
    """Integration variables of indefinite integrals occurring in e."""
    acc = set() if acc is None else acc
    if e.ty == E.INDEFINITEINTEGRAL:
        acc.add(e.var)
        indef_vars(E, e.body, acc)
    elif e.ty in (E.OP, E.FUN):
        for a in e.args:
            indef_vars(E, a, acc)
    elif e.ty in (E.INTEGRAL, E.EVAL_AT, E.SUMMATION):
        indef_vars(E, e.lower, acc), indef_vars(E, e.upper, acc), indef_vars(E, e.body, acc)
    elif e.ty in (E.DERIV, E.DIFFERENTIAL):
        indef_vars(E, e.body, acc)
    elif e.ty == E.LIMIT:
        indef_vars(E, e.lim, acc), indef_vars(E, e.body, acc)
    return acc


def has_skolem(E, e):
    if e.ty == E.SKOLEMFUNC:
        return True
    if e.ty in (E.OP, E.FUN):
        return any(has_skolem(E, a) for a in e.args)
    if e.ty in (E.INTEGRAL, E.EVAL_AT, E.SUMMATION):
        return has_skolem(E, e.lower) or has_skolem(E, e.upper) or has_skolem(E, e.body)
    if e.ty in (E.DERIV, E.DIFFERENTIAL, E.INDEFINITEINTEGRAL):
        return has_skolem(E, e.body)
    if e.ty == E.LIMIT:
        return has_skolem(E, e.body)
    return False


def is_relation(E, e):
    return e.ty == E.OP and len(e.args) == 2 and e.op in ("=", "!=", "<", "<=", ">", ">=")


class StepJudge:
    """Numerical judgement of  before -> after  for one rule application.

    Plain expressions: same real number at random admissible parameter values.
    Expressions with indefinite integrals / Skolem constants: same function up to an additive constant, i.e. the
    *difference* of the value between two points of the integration variable agrees (other parameters fixed).
    Equations (rewriting of a goal): the residual lhs - rhs of the new equation vanishes wherever the residual of
    the old one does.
    Returns ("ok" | "skip:<why>" | "bad", detail).
    """

    def __init__(self, I, rng, nsamples=2, budget_s=20.0):
        self.I, self.E, self.rng, self.nsamples = I, I.expr, rng, nsamples
        self.budget_s = budget_s
        self.deadline = None

    def left(self):
        """Seconds left for the current step (each evaluation gets what is left, at most 20 s)."""
        r = self.deadline - time.time()
        if r <= 0.05:
            raise Unrel("slow")
        return min(20.0, r)

    def value_fn(self, e, defs, substs):
        """-> (free parameter names, f(env, base) -> mpf)"""
        E = self.E
        if is_relation(E, e):
            raise Unrel("relation")
        return lambda env, base: two_prec(E, e, env, defs, base)

    def resolve(self, env, substs, defs):
        """Extend env with the substitution variables  u = g(x)  (several rounds: g may mention other ones)."""
        E = self.E
        env = dict(env)
        for _ in range(len(substs) + 1):
            for v, g in substs.items():
                if v in env:
                    continue
                if g.get_vars() <= set(env) | set(defs):
                    try:
                        env[v] = float(two_prec(E, g, env, defs, None, 5))
                    except Unrel:
                        pass
        return env

    def judge(self, before, after, conds, defs, substs, intvars, calc_ivars=()):
        """calc_ivars: integration variables of the indefinite integrals of the whole calculation (the variables
        along which "up to an additive constant" is measured; substitution variables are functions of them)."""
        E, rng = self.E, self.rng
        if is_relation(E, before) != is_relation(E, after):
            return "skip:shape", None
        exprs = [before, after]
        free = set()
        for e in exprs:
            free |= e.get_vars()
        free -= set(defs)
        # variables introduced by substitutions are functions of the others
        derived = {v for v in substs if v in free}
        for v in derived:
            free |= substs[v].get_vars()
        free -= derived
        free -= set(defs)
        ivars = set()
        for e in exprs:
            indef_vars(E, e, ivars)
        skolem = any(has_skolem(E, e) for e in exprs)
        updown = bool(ivars) or skolem
        # the variable(s) along which "up to a constant" is measured
        move = set()
        if updown:
            move = set(calc_ivars) | {v for v in ivars if v not in substs}
            free |= move
            if not move:
                return "skip:no-antiderivative-variable", None
        nrel, detail = 0, None
        self.deadline = time.time() + self.budget_s
        for _ in range(self.nsamples * 4):
            if nrel >= self.nsamples or time.time() > self.deadline:
                break
            env = sample_env(E, rng, free, conds, intvars)
            if env is None:
                return "skip:no-admissible-sample", None
            try:
                if updown:
                    env0 = self.resolve(env, substs, defs)
                    env1 = dict(env)
                    for v in move:
                        env1[v] = round(env[v] + rng.choice([-1, 1]) * rng.uniform(0.05, 0.3), 3)
                    if any(cond_holds(E, c, env1) is not True for c in conds if c.get_vars() <= set(env1)):
                        continue
                    env1 = self.resolve(env1, substs, defs)
                    base = dict(env0)
                    vals = []
                    for e in exprs:
                        vals.append(self.val(e, env1, defs, base) - self.val(e, env0, defs, base))
                else:
                    envr = self.resolve(env, substs, defs)
                    vals = [self.val(e, envr, defs, None) for e in exprs]
            except Unrel as u:
                detail = str(u)
                continue
            nrel += 1
            if is_relation(E, before):
                # vals are residuals; the new equation must hold where the old one does
                if abs(vals[0]) <= TOL and abs(vals[1]) > 1e-4 * max(1, abs(vals[1])) and abs(vals[1]) > 1e-4:
                    return "bad", {"env": env, "residual_before": str(vals[0]), "residual_after": str(vals[1])}
                if abs(vals[0]) > TOL:
                    return "skip:premise-not-numerically-true", None
            elif not close(vals[0], vals[1]):
                return "bad", {"env": env, "before": str(vals[0]), "after": str(vals[1]), "up_to_constant": updown}
        if nrel == 0:
            return "skip:unreliable:" + (detail or "?").split(":")[0], None
        return "ok", None

    def val(self, e, env, defs, base):
        E = self.E
        if is_relation(E, e):
            if e.op != "=":
                raise Unrel("inequality")
            return two_prec(E, e.args[0], env, defs, base, self.left()) - two_prec(E, e.args[1], env, defs, base, self.left())
        return two_prec(E, e, env, defs, base, self.left())


def replay_examples(ctx, I, files=None, only=None, budget_s=None):
    """Re-run every recorded step through compstate and judge it numerically."""
    E, cs = I.expr, I.compstate
    rng = ctx.rng("examples")
    judge = StepJudge(I, rng, nsamples=ctx.scale(1, 2), budget_s=budget_s or ctx.scale(3.0, 20.0))
    stats = {}

    def bump(k):
        stats[k] = stats.get(k, 0) + 1
        ctx.count("examples:" + k)

    for name, content in (files if files is not None else typed_example_files(ctx.repo)):
        book = find_book(ctx.repo, name)
        try:
            with quiet():
                file = cs.CompFile(book, name)
                for item in content:
                    file.add_item(cs.parse_item(file, item))
        except Exception as ex:  # noqa
            bump("file-load-error:" + type(ex).__name__)
            ctx.log("examples: cannot load %s: %r" % (name, ex))
            continue
        for idx, item in enumerate(file.content):
            all_exprs = []
            calcs = list(walk_calcs(I, item, "%s#%d" % (name, idx)))
            for _, calc, _ in calcs:
                all_exprs.append(calc.start)
                all_exprs += [s.res for s in calc.steps]
            if isinstance(item, cs.Goal):
                all_exprs.append(item.goal)
            intvars = integer_vars(E, all_exprs)
            item_substs, item_ivars = {}, set()
            for _, calc, _ in calcs:
                for st in calc.steps:
                    item_substs.update(st.rule.get_substs())
            for e in all_exprs:
                indef_vars(E, e, item_ivars)
            item_ivars -= set(item_substs)
            for label, calc, is_eq in calcs:
                conds = list(calc.ctx.get_conds().data)
                defs = defs_of(I, calc.ctx)
                all_substs = {}
                for st in calc.steps:
                    all_substs.update(st.rule.get_substs())
                calc_ivars = set()
                for e in [calc.start] + [st.res for st in calc.steps]:
                    indef_vars(E, e, calc_ivars)
                calc_ivars -= set(all_substs)
                if not calc_ivars:
                    calc_ivars = set(item_ivars)
                for i, step in enumerate(calc.steps):
                    key = "%s/step%d" % (label, i)
                    if only is not None and key != only:
                        continue
                    rname = step.rule.export().get("name", type(step.rule).__name__)
                    before_s = str(calc.start if i == 0 else calc.steps[i - 1].res)
                    recorded = step.res
                    # --- re-run the rule exactly as Calculation.perform_rule does
                    substs = {}
                    hctx = I.context.Context(calc.ctx)
                    for st in calc.steps[:i]:
                        hctx.extend_substs(st.rule.get_substs())
                        substs.update(st.rule.get_substs())
                    substs_after = dict(substs)
                    substs_after.update(step.rule.get_substs())
                    rerun = None
                    t_r = time.time()
                    try:
                        with quiet():
                            before = I.parser.parse_expr(before_s)   # fresh object: some rules mutate their input
                            with time_limit(60):
                                rerun = step.rule.eval(before, hctx)
                    except Timeout:
                        bump("rerun-timeout")
                    except Exception as ex:  # noqa
                        bump("rerun-raises:" + type(ex).__name__)
                    with quiet():
                        before = I.parser.parse_expr(before_s)
                    after = rerun if rerun is not None else recorded
                    if rerun is not None and rerun != recorded:
                        bump("rerun-differs-from-record")
                    ctx.case(("example-step", key), nontrivial=True)
                    bump("rule:" + rname)
                    t0 = time.time()
                    try:
                        verdict, detail = judge.judge(before, after, conds, defs, substs_after, intvars, calc_ivars)
                    except Exception as ex:  # noqa  (evaluator trouble is never a verdict)
                        verdict, detail = "skip:evaluator-error:" + type(ex).__name__, None
                    bump(verdict if verdict != "bad" else "bad")
                    if os.environ.get("C19_DEBUG") and verdict != "ok":
                        ctx.log("   %s %s [%s]: %s  ==>  %s" % (verdict, key, rname, before_s, after))
                    stats.setdefault("_slow", []).append((round(time.time() - t0, 1), round(t0 - t_r, 1), key, verdict))
                    if verdict == "bad":
                        ctx.violation("example-step:" + key,
                                      "recorded step %s (%s) changes the value: %s  ==>  %s  at %s" % (key, rname, before_s, after, detail),
                                      {"kind": "example-step", "key": key, "file": name, "rule": rname, "before": before_s,
                                       "after": str(after), "detail": detail})
    return stats
