"""C19 -- every step of the symbolic integration calculator preserves the value.

Stages (see DESIGN.md 4/C19, SPINE.md):
 1. Lean obligations (Holpy.C19.Props: deriv_correct, interval_encloses, expr_parse_print, linearity/split) + driver.
 2. Correspondence with the Lean model (lean/Holpy/C19/Model.lean):
      deriv   -- integral.rules.deriv with `rules.normalize` replaced by the identity IN THIS PROCESS, compared
                 syntactically with `derivM`;
      print   -- Expr.__str__ compared with the model printer; parser.parse_expr compared with the model parser;
      interval-- Interval + - * / ** on rational endpoints compared exactly.
 3. Property oracle on the implementation (numerical, mpmath: SUPPORTING EVIDENCE, not proof):
      (i) deriv vs numerical differentiation, (ii) every recorded step of integral/examples/*.json re-run through
      compstate and evaluated before/after, (iii) generated Linearity/SplitRegion/IntegrationByParts/Substitution
      applications, (iv) normalize value-preserving + idempotent, (v) interval bounds enclose sampled values,
      (vi) print -> parse round trip on generated expressions and on every expression of the example files.
"""
import contextlib
import copy
import glob
import io
import json
import os
import sys
import time
from fractions import Fraction

import mpmath

from harness.common import sexp
from harness.common.ctx import Timeout, time_limit

EXE = "c19_model"
TOL = 1e-6


# =====================================================================================================
# numerical evaluation of calculator expressions (mpmath)
# =====================================================================================================
class Unrel(Exception):
    """The value cannot be computed reliably (outside the domain, complex, divergent, too slow ...)."""


def _mk_ctx(dps):
    c = mpmath.MPContext()
    c.dps = dps
    return c


MP_LO = _mk_ctx(20)
MP_HI = _mk_ctx(40)


class NumEval:
    """Evaluate an integral.expr.Expr at a real environment with one mpmath context.

    defs: list of (name, [argnames], rhs Expr) for user defined functions / constants (FuncDef items).
    base: base points for indefinite integrals (the value of `INT x. f` at env is the integral of f from
          base[x] to env[x]; only differences between two environments are ever compared).
    """

    def __init__(self, mp, E, defs=None, base=None, quad_tol=1e-9):
        self.mp = mp
        self.E = E                      # the integral.expr module of the repo under test
        self.defs = defs or {}
        self.base = base or {}
        self.quad_tol = quad_tol
        self.depth = 0

    # -- helpers
    def real(self, v):
        mp = self.mp
        if isinstance(v, mp.mpc):
            if v.imag == 0:
                v = v.real
            else:
                raise Unrel("complex")
        if not isinstance(v, mp.mpf):
            v = mp.mpf(v)
        if mp.isnan(v):
            raise Unrel("nan")
        return v

    def finite(self, v):
        v = self.real(v)
        if self.mp.isinf(v):
            raise Unrel("inf")
        return v

    def is_int(self, v):
        return self.mp.isint(v)

    def ev(self, e, env):
        try:
            return self._ev(e, env)
        except (ZeroDivisionError, OverflowError, ValueError, ArithmeticError, mpmath.libmp.NoConvergence) as ex:
            raise Unrel(type(ex).__name__)
        except RecursionError:
            raise Unrel("recursion")

    def _ev(self, e, env):
        E, mp = self.E, self.mp
        ty = e.ty
        if ty == E.VAR or ty == E.SYMBOL:
            if e.name in env:
                return env[e.name]
            if e.name in self.defs and not self.defs[e.name][0]:
                return self._ev(self.defs[e.name][1], env)
            raise Unrel("unbound:" + e.name)
        if ty == E.CONST:
            v = e.val
            if isinstance(v, Fraction):
                return mp.mpf(v.numerator) / mp.mpf(v.denominator)
            return mp.mpf(v)
        if ty == E.INF:
            return mp.inf if e == E.POS_INF else -mp.inf
        if ty == E.SKOLEMFUNC:
            return mp.mpf(0)
        if ty == E.OP:
            if len(e.args) == 1:
                return -self._ev(e.args[0], env)
            a = self._ev(e.args[0], env)
            b = self._ev(e.args[1], env)
            op = e.op
            if op == "+":
                return self.real(a + b)
            if op == "-":
                return self.real(a - b)
            if op == "*":
                return self.real(a * b)
            if op == "/":
                if b == 0:
                    raise Unrel("div0")
                return self.real(a / b)
            if op == "^":
                if a == 0 and b <= 0:
                    raise Unrel("0^nonpos")
                if a < 0 and not self.is_int(b):
                    raise Unrel("neg^frac")
                # astronomically large / small results (e.g. c ^ exp(sqrt(csc(pi)))) take mpmath minutes inside one
                # uninterruptible call and are meaningless for a comparison anyway
                if mp.isinf(a) or mp.isinf(b) or (a != 0 and abs(b) * abs(mp.log(abs(a))) > 5000):
                    raise Unrel("magnitude")
                return self.real(mp.power(a, b))
            raise Unrel("op:" + op)
        if ty == E.FUN:
            return self._fun(e, env)
        if ty == E.INTEGRAL:
            lo = self.real(self._ev(e.lower, env))
            hi = self.real(self._ev(e.upper, env))
            return self._quad(e.var, e.body, lo, hi, env)
        if ty == E.EVAL_AT:
            return self._at(e, e.upper, env, -1) - self._at(e, e.lower, env, +1)
        if ty == E.DERIV:
            if e.var not in env:
                raise Unrel("deriv-var-unbound")
            x0 = env[e.var]
            env2 = dict(env)

            def f(t):
                env2[e.var] = t
                return self.finite(self._ev(e.body, env2))
            self.depth += 1
            try:
                if self.depth > 2:
                    raise Unrel("nesting")
                return self.real(mp.diff(f, x0))
            finally:
                self.depth -= 1
        if ty == E.LIMIT:
            return self._limit(e.var, e.body, e.lim, e.drt, env)
        if ty == E.SUMMATION:
            return self._sum(e, env)
        if ty == E.INDEFINITEINTEGRAL:
            if e.var not in env or e.var not in self.base:
                raise Unrel("indef-var-unbound")
            return self._quad(e.var, e.body, self.base[e.var], env[e.var], env)
        raise Unrel("ty:%s" % ty)

    def _quad(self, var, body, lo, hi, env):
        mp = self.mp
        if lo == hi:
            return mp.mpf(0)
        env2 = dict(env)

        def f(t):
            env2[var] = t
            return self.finite(self._ev(body, env2))
        self.depth += 1
        try:
            if self.depth > 2:
                raise Unrel("nesting")
            pts = [lo, hi]
            v, err = mp.quad(f, pts, error=True, maxdegree=8 if self.depth == 1 else 6)
        finally:
            self.depth -= 1
        v = self.finite(v)
        if err > self.quad_tol * max(1, abs(v)):
            raise Unrel("quad-err")
        return v

    def _at(self, e, pt, env, side):
        """Value of the body of an EvalAt at one end; one-sided limit when direct evaluation fails."""
        mp = self.mp
        p = self.real(self._ev(pt, env))
        if not mp.isinf(p):
            env2 = dict(env)
            env2[e.var] = p
            try:
                return self.finite(self.ev(e.body, env2))
            except Unrel:
                pass
        return self._limit_num(e.var, e.body, p, side, env)

    def _limit(self, var, body, lim, drt, env):
        mp = self.mp
        p = self.real(self._ev(lim, env))
        if mp.isinf(p):
            return self._limit_num(var, body, p, 0, env)
        if drt == "+":
            return self._limit_num(var, body, p, +1, env)
        if drt == "-":
            return self._limit_num(var, body, p, -1, env)
        a = self._limit_num(var, body, p, +1, env)
        b = self._limit_num(var, body, p, -1, env)
        if abs(a - b) > 1e-9 * max(1, abs(a)):
            raise Unrel("two-sided-limit")
        return a

    def _limit_num(self, var, body, p, side, env):
        mp = self.mp
        env2 = dict(env)

        def f(t):
            env2[var] = t
            return self.finite(self._ev(body, env2))
        self.depth += 1
        try:
            if self.depth > 2:
                raise Unrel("nesting")
            if mp.isinf(p):
                # monotone sequence of sample points; Richardson/Shanks inside mp.limit
                v = mp.limit(lambda n: f(n if p > 0 else -n), mp.inf)
                chk = f(mp.mpf(10) ** 6 if p > 0 else -mp.mpf(10) ** 6)
            else:
                v = mp.limit(f, p, direction=side)   # direction=+1: from above
                chk = f(p + side * mp.mpf(10) ** -8)
        finally:
            self.depth -= 1
        v = self.finite(v)
        # consistency with a plain evaluation near the limit point (guards against wild extrapolation)
        if abs(v - chk) > 1e-3 * max(1, abs(v)):
            raise Unrel("limit-unstable")
        return v

    def _sum(self, e, env):
        mp = self.mp
        lo = self.real(self._ev(e.lower, env))
        hi = self.real(self._ev(e.upper, env))
        if not self.is_int(lo) or (not mp.isinf(hi) and not self.is_int(hi)):
            raise Unrel("sum-bounds")
        env2 = dict(env)

        def f(k):
            env2[e.index_var] = mp.mpf(k)
            return self.finite(self._ev(e.body, env2))
        self.depth += 1
        try:
            if self.depth > 2:
                raise Unrel("nesting")
            if mp.isinf(hi):
                if mp.isinf(lo):
                    raise Unrel("sum-bounds")
                v = mp.nsum(f, [int(lo), mp.inf])
                # plain partial sums must be heading there
                part = sum((f(k) for k in range(int(lo), int(lo) + 400)), mp.mpf(0))
                if abs(part - v) > 2e-2 * max(1, abs(v)):
                    raise Unrel("sum-unstable")
                return self.finite(v)
            if hi - lo > 3000:
                raise Unrel("sum-long")
            return self.finite(sum((f(k) for k in range(int(lo), int(hi) + 1)), mp.mpf(0)))
        finally:
            self.depth -= 1

    def _fun(self, e, env):
        mp = self.mp
        name = e.func_name
        if name in self.defs and len(self.defs[name][0]) == len(e.args):
            params, rhs = self.defs[name]
            vals = [self._ev(a, env) for a in e.args]
            env2 = dict(env)
            env2.update(zip(params, vals))
            self.depth_def = getattr(self, "depth_def", 0) + 1
            try:
                if self.depth_def > 4:
                    raise Unrel("def-nesting")
                return self._ev(rhs, env2)
            finally:
                self.depth_def -= 1
        if len(e.args) == 0:
            if name == "pi":
                return +mp.pi
            if name == "G":
                return +mp.catalan
            raise Unrel("fun0:" + name)
        a = self._ev(e.args[0], env)
        if len(e.args) == 2:
            b = self._ev(e.args[1], env)
            if name == "binom":
                return self.real(mp.binomial(a, b))
            if name == "B":
                return self.real(mp.beta(a, b))
            raise Unrel("fun2:" + name)
        if len(e.args) != 1:
            raise Unrel("funN:" + name)
        if name == "sin":
            return mp.sin(a)
        if name == "cos":
            return mp.cos(a)
        if name == "tan":
            return self.real(mp.tan(a))
        if name == "cot":
            return self.real(mp.cot(a))
        if name == "sec":
            return self.real(mp.sec(a))
        if name == "csc":
            return self.real(mp.csc(a))
        if name == "exp":
            if abs(a) > 5000:
                raise Unrel("magnitude")
            return self.real(mp.exp(a))
        if name == "log":
            if a <= 0:
                raise Unrel("log-domain")
            return self.real(mp.log(a))
        if name == "sqrt":
            if a < 0:
                raise Unrel("sqrt-domain")
            return self.real(mp.sqrt(a))
        if name == "abs":
            return abs(a)
        if name == "atan":
            return self.real(mp.atan(a))
        if name == "acot":
            return self.real(mp.pi / 2 - mp.atan(a))
        if name in ("asin", "acos"):
            if abs(a) > 1:
                raise Unrel("asin-domain")
            return self.real(mp.asin(a) if name == "asin" else mp.acos(a))
        if name == "sinh":
            return self.real(mp.sinh(a))
        if name == "cosh":
            return self.real(mp.cosh(a))
        if name == "tanh":
            return self.real(mp.tanh(a))
        if name == "factorial":
            if a < 0 and self.is_int(a):
                raise Unrel("factorial-domain")
            return self.real(mp.factorial(a))
        if name == "Gamma":
            if a <= 0 and self.is_int(a):
                raise Unrel("gamma-pole")
            return self.real(mp.gamma(a))
        raise Unrel("fun:" + name)


def two_prec(E, e, env, defs=None, base=None, limit_s=20):
    """Value of e at env with two precisions; returns an mpf (HI context) or raises Unrel."""
    out = []
    t_end = time.time() + limit_s
    for mp in (MP_LO, MP_HI):
        envm = {k: mp.mpf(v) if not isinstance(v, Fraction) else mp.mpf(v.numerator) / v.denominator for k, v in env.items()}
        basem = {k: mp.mpf(v) if not isinstance(v, Fraction) else mp.mpf(v.numerator) / v.denominator for k, v in (base or {}).items()}
        ne = NumEval(mp, E, defs, basem)
        try:
            with time_limit(max(0.05, t_end - time.time())):
                out.append(ne.finite(ne.ev(e, envm)))
        except Timeout:
            raise Unrel("slow")
    lo, hi = out
    if abs(MP_HI.mpf(lo) - hi) > 1e-9 * max(1, abs(hi)):
        raise Unrel("precision-unstable")
    return hi


def close(a, b, tol=TOL):
    return abs(a - b) <= tol * max(1, abs(a), abs(b))


# =====================================================================================================
# loading the implementation, quietly
# =====================================================================================================
@contextlib.contextmanager
def quiet():
    """holpy prints diagnostics from several rules; keep the check's output readable."""
    old = sys.stdout
    sys.stdout = io.StringIO()
    try:
        yield
    finally:
        sys.stdout = old


class Impl:
    """The modules of the repo under test (imported after the runner put ctx.repo on sys.path)."""

    def __init__(self):
        import warnings
        warnings.simplefilter("ignore", SyntaxWarning)
        from integral import expr, rules, parser, poly, interval, compstate, context, conditions, limits
        self.expr, self.rules, self.parser, self.poly, self.interval = expr, rules, parser, poly, interval
        self.compstate, self.context, self.conditions, self.limits = compstate, context, conditions, limits

    @contextlib.contextmanager
    def raw_deriv(self):
        """`rules.deriv` calls `normalize` through the module global `rules.normalize` (closure `normal`); replacing
        that global (and `poly.normalize`, in case the call is ever written that way) by the identity exposes the raw
        case structure.  Restored on exit.  If a refactoring reaches `normalize` under yet another name the stub is
        silently ineffective: `deriv_stream` therefore never treats a purely structural difference as a failure (it
        falls back to comparing normal forms and then values)."""
        old, oldp = self.rules.normalize, self.poly.normalize
        ident = lambda e, conds=None: e      # noqa: E731
        self.rules.normalize = ident
        self.poly.normalize = ident
        try:
            yield
        finally:
            self.rules.normalize = old
            self.poly.normalize = oldp


# =====================================================================================================
# sampling of parameter values under stated conditions
# =====================================================================================================
INT_FUNS = ("factorial", "binom")


def integer_vars(E, exprs):
    """Variables that only make sense as integers: arguments of factorial/binom, summation bounds and
    exponents of negative constants ((-1)^n)."""
    out = set()

    def rec(e, under):
        if e.ty == E.VAR:
            if under:
                out.add(e.name)
        elif e.ty in (E.OP, E.FUN):
            u = under or (e.ty == E.FUN and e.func_name in INT_FUNS)
            if e.ty == E.OP and e.op == "^" and len(e.args) == 2:
                b = e.args[0]
                neg = (b.ty == E.CONST and b.val < 0) or (b.ty == E.OP and len(b.args) == 1)
                rec(e.args[0], under)
                rec(e.args[1], under or neg)
                return
            for a in e.args:
                rec(a, u)
        elif e.ty in (E.INTEGRAL, E.EVAL_AT):
            rec(e.lower, under), rec(e.upper, under), rec(e.body, under)
        elif e.ty == E.SUMMATION:
            rec(e.lower, True), rec(e.upper, True), rec(e.body, under)
        elif e.ty == E.LIMIT:
            rec(e.lim, under), rec(e.body, under)
        elif e.ty in (E.DERIV, E.INDEFINITEINTEGRAL, E.DIFFERENTIAL):
            rec(e.body, under)
    for e in exprs:
        rec(e, False)
    return out


def cond_holds(E, cond, env):
    """Numerical truth of one stated condition at env (None when it cannot be evaluated)."""
    if not (cond.ty == E.OP and len(cond.args) == 2 and cond.op in ("=", "!=", "<", "<=", ">", ">=")):
        return None
    ne = NumEval(MP_LO, E)
    envm = {k: MP_LO.mpf(v) for k, v in env.items()}
    try:
        a = ne.finite(ne.ev(cond.args[0], envm))
        b = ne.finite(ne.ev(cond.args[1], envm))
    except Unrel:
        return None
    margin = 1e-3    # stay away from the boundary of the admissible region
    return {"=": abs(a - b) < 1e-12, "!=": abs(a - b) > margin, "<": a < b - margin, "<=": a <= b,
            ">": a > b + margin, ">=": a >= b}[cond.op]


def sample_env(E, rng, names, conds, intvars, tries=300, mode="interior"):
    """A random environment for `names` satisfying every stated condition that mentions only them.

    mode "interior": well inside the admissible region; "near": parameters with a stated bound  v < c / v > c  sit
    close to it (0.01 .. 0.06 away), the others close to 0; "wide": larger magnitudes (up to 6)."""
    names = sorted(names)
    # bounds of the form  v < c,  v > c  ... with a numeric c steer the proposal distribution
    hints = {}
    for c in conds:
        if c.ty == E.OP and len(c.args) == 2 and c.op in ("<", "<=", ">", ">=") and c.args[0].ty == E.VAR and c.args[1].ty == E.CONST:
            hints.setdefault(c.args[0].name, []).append((c.op, float(frac_of(c.args[1].val))))
    for _ in range(tries):
        env = {}
        for n in names:
            if n in intvars:
                lo_i = 0
                for op, v in hints.get(n, []):
                    if op in (">", ">="):
                        lo_i = max(lo_i, int(v) + (1 if op == ">" else 0))
                env[n] = lo_i + rng.choice([0, 1, 1, 2, 2, 3, 4])
            elif n in hints and mode == "near":
                lo_h = max([v for op, v in hints[n] if op in (">", ">=")], default=None)
                hi_h = min([v for op, v in hints[n] if op in ("<", "<=")], default=None)
                d = rng.uniform(0.01, 0.06)
                if lo_h is not None and (hi_h is None or rng.random() < 0.5):
                    env[n] = round(lo_h + d, 3)
                else:
                    env[n] = round(hi_h - d, 3)
            elif mode == "near" and rng.random() < 0.6:
                env[n] = round(rng.choice([-1, 1]) * rng.uniform(0.02, 0.12), 3)
            elif mode == "wide" and n not in hints:
                env[n] = round(rng.choice([-1, 1, 1]) * rng.uniform(2.0, 6.0), 3)
            elif n in hints and rng.random() < 0.7:
                lo_h = max([v for op, v in hints[n] if op in (">", ">=")], default=None)
                hi_h = min([v for op, v in hints[n] if op in ("<", "<=")], default=None)
                if lo_h is not None and hi_h is not None and lo_h < hi_h:
                    env[n] = round(rng.uniform(lo_h + 0.05 * (hi_h - lo_h), hi_h - 0.05 * (hi_h - lo_h)), 3)
                elif lo_h is not None:
                    env[n] = round(lo_h + rng.uniform(0.1, 2.0), 3)
                elif hi_h is not None:
                    env[n] = round(hi_h - rng.uniform(0.1, 2.0), 3)
                else:
                    env[n] = round(rng.uniform(0.2, 2.5), 3)
            else:
                r = rng.random()
                if r < 0.55:
                    env[n] = round(rng.uniform(0.2, 2.5), 3)
                elif r < 0.9:
                    env[n] = round(rng.uniform(-2.5, 2.5), 3)
                else:
                    env[n] = round(rng.uniform(-0.95, 0.95), 3)
        # equalities  v = c  in the conditions pin the variable
        for c in conds:
            if c.ty == E.OP and c.op == "=" and c.args[0].ty == E.VAR and c.args[0].name in env:
                try:
                    ne = NumEval(MP_LO, E)
                    env2 = {k: MP_LO.mpf(v) for k, v in env.items() if k != c.args[0].name}
                    env[c.args[0].name] = float(ne.finite(ne.ev(c.args[1], env2)))
                except Unrel:
                    pass
        ok = True
        for c in conds:
            if c.get_vars() <= set(env):
                h = cond_holds(E, c, env)
                if h is False or h is None:
                    ok = False
                    break
        if ok:
            return env
    return None


# =====================================================================================================
# (ii) recorded calculations of integral/examples/*.json
# =====================================================================================================
def find_book(repo, name):
    """The book a file was recorded with: the `CompFile("<book>", "<name>")` call of tests/integral_test.py when
    there is one, else the book whose `path` entries mention the file (how the application opens it)."""
    import re
    try:
        with open(os.path.join(repo, "integral", "tests", "integral_test.py"), encoding="utf-8") as f:
            for b, n in re.findall(r'CompFile\(\s*"(\w+)"\s*,\s*["\'](\w+)["\']\s*\)', f.read()):
                if n == name:
                    return b
    except Exception:  # noqa
        pass
    ex = os.path.join(repo, "integral", "examples")
    try:
        with open(os.path.join(ex, "index.json"), encoding="utf-8") as f:
            books = json.load(f)["book_list"]
    except Exception:  # noqa
        books = ["base", "interesting"]
    for b in books:
        try:
            with open(os.path.join(ex, b + ".json"), encoding="utf-8") as f:
                info = json.load(f)
        except Exception:  # noqa
            continue
        for it in info.get("content", []):
            if isinstance(it, dict) and it.get("path") == name:
                return b
    return "interesting"


def typed_example_files(repo):
    ex = os.path.join(repo, "integral", "examples")
    out = []
    for p in sorted(glob.glob(os.path.join(ex, "*.json"))):
        try:
            with open(p, encoding="utf-8") as f:
                d = json.load(f)
        except Exception:  # noqa
            continue
        c = d.get("content") if isinstance(d, dict) else None
        if not c or not all(isinstance(x, dict) and x.get("type") in ("Goal", "FuncDef", "Calculation") for x in c):
            continue
        out.append((os.path.basename(p)[:-5], c))
    return out


def walk_calcs(I, item, label):
    """Yield (label, Calculation, is_equation_calc) for every calculation below a parsed StateItem."""
    cs = I.compstate
    if isinstance(item, cs.Calculation):
        yield label, item, False
    elif isinstance(item, cs.Goal):
        if item.proof is not None:
            yield from walk_calcs(I, item.proof, label)
        for k, g in enumerate(item.sub_goals):
            yield from walk_calcs(I, g, label + ".sub%d" % k)
    elif isinstance(item, cs.CalculationProof):
        yield label + ".lhs", item.lhs_calc, False
        yield label + ".rhs", item.rhs_calc, False
    elif isinstance(item, cs.InductionProof):
        yield from walk_calcs(I, item.base_case, label + ".base")
        yield from walk_calcs(I, item.induct_case, label + ".induct")
    elif isinstance(item, cs.CaseProof):
        yield from walk_calcs(I, item.case_1, label + ".case1")
        yield from walk_calcs(I, item.case_2, label + ".case2")
    elif isinstance(item, cs.RewriteGoalProof):
        yield label + ".rewrite", item.begin, True


def defs_of(I, ctx_):
    """User definitions visible in a holpy Context, as name -> ([params], rhs)."""
    E = I.expr
    out = {}
    for ident in ctx_.get_definitions():
        l = ident.lhs
        if l.ty == E.FUN and all(a.ty in (E.SYMBOL, E.VAR) for a in l.args):
            out[l.func_name] = ([a.name for a in l.args], ident.rhs)
        elif l.ty in (E.SYMBOL, E.VAR):
            out[l.name] = ([], ident.rhs)
    return out


def indef_vars(E, e, acc=None):
    """Integration variables of indefinite integrals occurring in e."""
    acc = set() if acc is None else acc
    if e.ty == E.INDEFINITEINTEGRAL:
        acc.add(e.var)
        indef_vars(E, e.body, acc)
    elif e.ty in (E.OP, E.FUN):
        for a in e.args:
            indef_vars(E, a, acc)
    elif e.ty in (E.INTEGRAL, E.EVAL_AT, E.SUMMATION):
        indef_vars(E, e.lower, acc), indef_vars(E, e.upper, acc), indef_vars(E, e.body, acc)
    elif e.ty in (E.DERIV, E.DIFFERENTIAL):
        indef_vars(E, e.body, acc)
    elif e.ty == E.LIMIT:
        indef_vars(E, e.lim, acc), indef_vars(E, e.body, acc)
    return acc


def deriv_vars(E, e, acc=None):
    acc = set() if acc is None else acc
    if e.ty == E.DERIV:
        acc.add(str(e.var))
        deriv_vars(E, e.body, acc)
    elif e.ty in (E.OP, E.FUN):
        for a in e.args:
            deriv_vars(E, a, acc)
    elif e.ty in (E.INTEGRAL, E.EVAL_AT, E.SUMMATION):
        deriv_vars(E, e.lower, acc), deriv_vars(E, e.upper, acc), deriv_vars(E, e.body, acc)
    elif e.ty in (E.DIFFERENTIAL, E.INDEFINITEINTEGRAL):
        deriv_vars(E, e.body, acc)
    elif e.ty == E.LIMIT:
        deriv_vars(E, e.lim, acc), deriv_vars(E, e.body, acc)
    return acc


def has_skolem(E, e):
    if e.ty == E.SKOLEMFUNC:
        return True
    if e.ty in (E.OP, E.FUN):
        return any(has_skolem(E, a) for a in e.args)
    if e.ty in (E.INTEGRAL, E.EVAL_AT, E.SUMMATION):
        return has_skolem(E, e.lower) or has_skolem(E, e.upper) or has_skolem(E, e.body)
    if e.ty in (E.DERIV, E.DIFFERENTIAL, E.INDEFINITEINTEGRAL):
        return has_skolem(E, e.body)
    if e.ty == E.LIMIT:
        return has_skolem(E, e.body)
    return False


def is_relation(E, e):
    return e.ty == E.OP and len(e.args) == 2 and e.op in ("=", "!=", "<", "<=", ">", ">=")


class StepJudge:
    """Numerical judgement of  before -> after  for one rule application.

    Plain expressions: same real number at random admissible parameter values.
    Expressions with indefinite integrals / Skolem constants: same function up to an additive constant, i.e. the
    *difference* of the value between two points of the integration variable agrees (other parameters fixed).
    Equations (rewriting of a goal): the residual lhs - rhs of the new equation vanishes wherever the residual of
    the old one does.
    Returns ("ok" | "skip:<why>" | "bad", detail).
    """

    MODES = ("interior", "near", "wide")

    def __init__(self, I, rng, nsamples=3, budget_s=20.0):
        self.I, self.E, self.rng, self.nsamples = I, I.expr, rng, nsamples
        self.budget_s = budget_s
        self.deadline = None
        self.cache = {}          # (expr string, env, base) -> value | Unrel: consecutive steps share an expression
        self.env_seed = None     # when set, environments are a function of (seed, variables, attempt): shared by the steps

    def env_rng(self, free, attempt):
        if self.env_seed is None:
            return self.rng
        import hashlib
        import random
        h = hashlib.sha256(repr((self.env_seed, sorted(free), attempt)).encode()).digest()
        return random.Random(int.from_bytes(h[:8], "big"))

    def left(self):
        """Seconds left for the current step (each evaluation gets what is left, at most 20 s)."""
        r = self.deadline - time.time()
        if r <= 0.05:
            raise Unrel("slow")
        return min(20.0, r)

    def value_fn(self, e, defs, substs):
        """-> (free parameter names, f(env, base) -> mpf)"""
        E = self.E
        if is_relation(E, e):
            raise Unrel("relation")
        return lambda env, base: two_prec(E, e, env, defs, base)

    def resolve(self, env, substs, defs):
        """Extend env with the substitution variables  u = g(x)  (several rounds: g may mention other ones)."""
        E = self.E
        env = dict(env)
        for _ in range(len(substs) + 1):
            for v, g in substs.items():
                if v in env:
                    continue
                if g.get_vars() <= set(env) | set(defs):
                    try:
                        env[v] = float(two_prec(E, g, env, defs, None, 5))
                    except Unrel:
                        pass
        return env

    def judge(self, before, after, conds, defs, substs, intvars, calc_ivars=()):
        """calc_ivars: integration variables of the indefinite integrals of the whole calculation (the variables
        along which "up to an additive constant" is measured; substitution variables are functions of them)."""
        E, rng = self.E, self.rng
        if is_relation(E, before) != is_relation(E, after):
            return "skip:shape", None
        exprs = [before, after]
        free = set()
        for e in exprs:
            free |= e.get_vars()
            free |= deriv_vars(E, e)          # `D a. f(a)` is a function of a
        free -= set(defs)
        # variables introduced by substitutions are functions of the others
        derived = {v for v in substs if v in free}
        for v in derived:
            free |= substs[v].get_vars()
        free -= derived
        free -= set(defs)
        ivars = set()
        for e in exprs:
            indef_vars(E, e, ivars)
        skolem = any(has_skolem(E, e) for e in exprs)
        updown = bool(ivars) or skolem
        # the variable(s) along which "up to a constant" is measured
        move = set()
        if updown:
            move = set(calc_ivars) | {v for v in ivars if v not in substs}
            free |= move
            if not move:
                return "skip:no-antiderivative-variable", None
        nrel, detail = 0, None
        self.deadline = time.time() + self.budget_s
        self.last_nrel = 0
        for attempt in range(self.nsamples * 3):
            if nrel >= self.nsamples or time.time() > self.deadline:
                break
            # one interior point, one near the stated bounds, one of larger magnitude, then repeat
            mode = self.MODES[attempt % 3]
            rng = self.env_rng(free, attempt)
            env = sample_env(E, rng, free, conds, intvars, mode=mode)
            if env is None:
                if attempt == 0:
                    return "skip:no-admissible-sample", None
                continue
            try:
                if updown:
                    env0 = self.resolve(env, substs, defs)
                    env1 = dict(env)
                    for v in move:
                        env1[v] = round(env[v] + rng.choice([-1, 1]) * rng.uniform(0.05, 0.3), 3)
                    if any(cond_holds(E, c, env1) is not True for c in conds if c.get_vars() <= set(env1)):
                        continue
                    env1 = self.resolve(env1, substs, defs)
                    base = dict(env0)
                    vals = []
                    for e in exprs:
                        vals.append(self.val(e, env1, defs, base) - self.val(e, env0, defs, base))
                else:
                    envr = self.resolve(env, substs, defs)
                    vals = [self.val(e, envr, defs, None) for e in exprs]
            except Unrel as u:
                detail = str(u)
                continue
            nrel += 1
            self.last_nrel = nrel
            if is_relation(E, before):
                # vals are residuals; the new equation must hold where the old one does
                if abs(vals[0]) <= TOL and abs(vals[1]) > 1e-4 * max(1, abs(vals[1])) and abs(vals[1]) > 1e-4:
                    return "bad", {"env": env, "residual_before": str(vals[0]), "residual_after": str(vals[1])}
                if abs(vals[0]) > TOL:
                    return "skip:premise-not-numerically-true", None
            elif not close(vals[0], vals[1]):
                return "bad", {"env": env, "before": str(vals[0]), "after": str(vals[1]), "up_to_constant": updown}
        self.last_nrel = nrel
        if nrel == 0:
            return "skip:unreliable:" + (detail or "?").split(":")[0], None
        return "ok", None

    def val(self, e, env, defs, base):
        E = self.E
        if is_relation(E, e):
            if e.op != "=":
                raise Unrel("inequality")
            return self.val(e.args[0], env, defs, base) - self.val(e.args[1], env, defs, base)
        key = (str(e), tuple(sorted(env.items())), tuple(sorted(base.items())) if base else None)
        hit = self.cache.get(key)
        if hit is not None:
            if isinstance(hit, Unrel):
                raise Unrel(str(hit))
            return hit
        try:
            v = two_prec(E, e, env, defs, base, self.left())
        except Unrel as u:
            if str(u) != "slow":          # a time-out says nothing about the next attempt with more time left
                self.cache[key] = u
            raise
        self.cache[key] = v
        return v


def nsteps_of(content):
    n = 0

    def walk(x):
        nonlocal n
        if isinstance(x, dict):
            if x.get("type") == "CalculationStep":
                n += 1
            for v in x.values():
                walk(v)
        elif isinstance(x, list):
            for v in x:
                walk(v)
    walk(content)
    return n


def example_groups(files, k):
    """Split the example files into k groups of about the same number of recorded steps (deterministic)."""
    groups, load = [[] for _ in range(k)], [0] * k
    for name, content in sorted(files, key=lambda f: (-nsteps_of(f[1]), f[0])):
        j = load.index(min(load))
        groups[j].append((name, content))
        load[j] += nsteps_of(content)
    return groups


def load_replayable(ctx):
    """Keys of the recorded steps whose rule re-runs without raising on the unchanged tree (committed list,
    regenerated with C19_REGEN_REPLAYABLE=1 ./check C19)."""
    p = os.path.join(ctx.verif, "corpus", "c19_replayable.json")
    if os.path.exists(p):
        with open(p) as f:
            d = json.load(f)
            return set(d["steps"]) | {"file:" + n for n in d.get("files", [])}
    return set()


def replay_examples(ctx, I, files=None, only=None, budget_s=None, deadline=None, collect=None):
    """Re-run every recorded step through compstate and judge it numerically (>= 3 admissible parameter points per
    step: interior, near the stated bounds, larger magnitude).  collect: list receiving the keys of the steps that
    re-run without raising (no judging then)."""
    E, cs = I.expr, I.compstate
    rng = ctx.rng("examples")
    judge = StepJudge(I, rng, nsamples=3, budget_s=budget_s or ctx.scale(4.0, 20.0))
    replayable = load_replayable(ctx)
    stats = {}

    def bump(k):
        stats[k] = stats.get(k, 0) + 1
        ctx.count("examples:" + k)

    for name, content in (files if files is not None else typed_example_files(ctx.repo)):
        if deadline is not None and time.time() > deadline:
            bump("file-not-reached-in-time-cap")
            continue
        book = find_book(ctx.repo, name)
        try:
            with quiet():
                file = cs.CompFile(book, name)
                for item in content:
                    # compstate.parse_rule deletes the 'loc' key from the dictionary it is given: parse a copy, or a
                    # second pass over the same loaded JSON applies located rules at the top level
                    file.add_item(cs.parse_item(file, copy.deepcopy(item)))
        except Exception as ex:  # noqa
            bump("file-load-error:" + type(ex).__name__)
            ctx.log("examples: cannot load %s: %r" % (name, ex))
            if "file:" + name in replayable:
                ctx.broken("example-load:" + name, "example file %s no longer loads (%r); it loads on the unchanged tree" % (name, ex))
            continue
        for idx, item in enumerate(file.content):
            all_exprs = []
            calcs = list(walk_calcs(I, item, "%s#%d" % (name, idx)))
            for _, calc, _ in calcs:
                all_exprs.append(calc.start)
                all_exprs += [s.res for s in calc.steps]
            if isinstance(item, cs.Goal):
                all_exprs.append(item.goal)
            intvars = integer_vars(E, all_exprs)
            item_substs, item_ivars = {}, set()
            for _, calc, _ in calcs:
                for st in calc.steps:
                    item_substs.update(st.rule.get_substs())
            for e in all_exprs:
                indef_vars(E, e, item_ivars)
            item_ivars -= set(item_substs)
            for label, calc, is_eq in calcs:
                conds = list(calc.ctx.get_conds().data)
                defs = defs_of(I, calc.ctx)
                all_substs = {}
                for st in calc.steps:
                    all_substs.update(st.rule.get_substs())
                calc_ivars = set()
                for e in [calc.start] + [st.res for st in calc.steps]:
                    indef_vars(E, e, calc_ivars)
                calc_ivars -= set(all_substs)
                if not calc_ivars:
                    calc_ivars = set(item_ivars)
                judge.cache.clear()
                judge.env_seed = (ctx.seed, label)      # the steps of one calculation are judged at the same points
                for i, step in enumerate(calc.steps):
                    key = "%s/step%d" % (label, i)
                    if only is not None and key != only:
                        continue
                    if deadline is not None and time.time() > deadline:
                        bump("step-not-reached-in-time-cap")
                        continue
                    rname = step.rule.export().get("name", type(step.rule).__name__)
                    before_s = str(calc.start if i == 0 else calc.steps[i - 1].res)
                    recorded = step.res
                    # --- re-run the rule exactly as Calculation.perform_rule does
                    substs = {}
                    hctx = I.context.Context(calc.ctx)
                    for st in calc.steps[:i]:
                        hctx.extend_substs(st.rule.get_substs())
                        substs.update(st.rule.get_substs())
                    substs_after = dict(substs)
                    substs_after.update(step.rule.get_substs())
                    rerun = None
                    t_r = time.time()
                    printed0 = text_parse(I, before_s)
                    PARSE_DRIFT_CHECKS[0] += 1
                    try:
                        with quiet():
                            before = I.parser.parse_expr(before_s)   # fresh object: some rules mutate their input
                            with time_limit(60):
                                rerun = step.rule.eval(before, hctx)
                    except Timeout:
                        bump("rerun-timeout")
                    except Exception as ex:  # noqa
                        bump("rerun-raises:" + type(ex).__name__)
                        if key in replayable:
                            # the rule no longer applies to a step it was recorded on (and replayed on the unchanged tree)
                            ctx.broken("example-replay:" + key, "%s raises %s: %s on the recorded step %s (%s), which replays on the "
                                       "unchanged tree" % (rname, type(ex).__name__, str(ex)[:200], key, before_s[:200]))
                    note_parse_drift(I, step.rule, before_s, printed0)
                    if collect is not None:
                        if rerun is not None:
                            collect.append(key)
                        continue
                    with quiet():
                        before = I.parser.parse_expr(before_s)
                    after = rerun if rerun is not None else recorded
                    if rerun is not None and rerun != recorded:
                        bump("rerun-differs-from-record")
                    ctx.case(("example-step", key), nontrivial=True)
                    bump("rule:" + rname)
                    t0 = time.time()
                    try:
                        verdict, detail = judge.judge(before, after, conds, defs, substs_after, intvars, calc_ivars)
                    except Exception as ex:  # noqa  (evaluator trouble is never a verdict)
                        verdict, detail = "skip:evaluator-error:" + type(ex).__name__, None
                    bump(verdict if verdict != "bad" else "bad")
                    stats["points"] = stats.get("points", 0) + getattr(judge, "last_nrel", 0)
                    if os.environ.get("C19_DEBUG") and verdict != "ok":
                        ctx.log("   %s %s [%s]: %s  ==>  %s" % (verdict, key, rname, before_s, after))
                    stats.setdefault("_slow", []).append((round(time.time() - t0, 1), round(t0 - t_r, 1), key, verdict))
                    if verdict == "bad":
                        ctx.violation("example-step:" + key,
                                      "recorded step %s (%s) changes the value: %s  ==>  %s  at %s" % (key, rname, before_s, after, detail),
                                      {"kind": "example-step", "key": key, "file": name, "rule": rname, "before": before_s,
                                       "after": str(after), "detail": detail})
    return stats


# =====================================================================================================
# wire format: Expr <-> s-expression (fields read directly, never through the printer)
# =====================================================================================================
def frac_of(v):
    return v if isinstance(v, Fraction) else Fraction(v)


def to_sexp(E, e):
    """Expr -> sexp (nested lists) for the node kinds of the Lean model, else None."""
    ty = e.ty
    if ty == E.VAR:
        return ["v", sexp.enc(e.name)]
    if ty == E.CONST:
        q = frac_of(e.val)
        return ["c", q.numerator, q.denominator]
    if ty == E.OP:
        if len(e.args) == 1:
            a = to_sexp(E, e.args[0])
            return None if a is None else ["neg", a]
        if e.op not in ("+", "-", "*", "/", "^"):
            return None
        a, b = to_sexp(E, e.args[0]), to_sexp(E, e.args[1])
        return None if a is None or b is None else [e.op, a, b]
    if ty == E.FUN:
        if len(e.args) == 0:
            return ["f0", sexp.enc(e.func_name)]
        if len(e.args) == 1:
            a = to_sexp(E, e.args[0])
            return None if a is None else ["f1", sexp.enc(e.func_name), a]
        return None
    if ty in (E.INTEGRAL, E.EVAL_AT):
        lo, hi, b = to_sexp(E, e.lower), to_sexp(E, e.upper), to_sexp(E, e.body)
        if lo is None or hi is None or b is None:
            return None
        return ["int" if ty == E.INTEGRAL else "at", sexp.enc(str(e.var)), lo, hi, b]
    if ty == E.DERIV:
        b = to_sexp(E, e.body)
        return None if b is None else ["d", sexp.enc(str(e.var)), b]
    return None


def canon(x):
    return sexp.dumps(x)


def from_sexp(E, x):
    """sexp (as parsed by sexp.loads) of the Lean model's expression type -> Expr."""
    k = x[0]
    if k == "v":
        return E.Var(sexp.dec(x[1]))
    if k == "c":
        q = Fraction(int(x[1]), int(x[2]))
        return E.Const(q if q.denominator != 1 else int(q))
    if k == "neg":
        return E.Op("-", from_sexp(E, x[1]))
    if k == "f0":
        return E.Fun(sexp.dec(x[1]))
    if k == "f1":
        return E.Fun(sexp.dec(x[1]), from_sexp(E, x[2]))
    if k == "int":
        return E.Integral(sexp.dec(x[1]), from_sexp(E, x[2]), from_sexp(E, x[3]), from_sexp(E, x[4]))
    if k == "at":
        return E.EvalAt(sexp.dec(x[1]), from_sexp(E, x[2]), from_sexp(E, x[3]), from_sexp(E, x[4]))
    if k == "d":
        return E.Deriv(sexp.dec(x[1]), from_sexp(E, x[2]))
    if k in ("+", "-", "*", "/", "^"):
        return E.Op(k, from_sexp(E, x[1]), from_sexp(E, x[2]))
    raise ValueError(k)


# =====================================================================================================
# generators
# =====================================================================================================
FUNS1 = ["sin", "cos", "tan", "cot", "sec", "csc", "exp", "log", "sqrt", "atan", "asin", "acos", "acot", "abs"]


def gen_const(E, rng, small=True):
    """Small constants; integer values are always Python ints (as the parser and the rules produce them)."""
    r = rng.random()
    if r < 0.5:
        return E.Const(rng.choice([0, 1, 2, 3, 4, 5] if small else [0, 1, 2, 3, 7, 10, 12]))
    if r < 0.7:
        return E.Const(-rng.choice([1, 2, 3]))
    if r < 0.9:
        q = Fraction(rng.choice([1, 3, 5]), rng.choice([2, 3, 4]))
    else:
        q = Fraction(-rng.choice([1, 3]), rng.choice([2, 3]))
    return E.Const(q if q.denominator != 1 else int(q))


def gen_expr(E, rng, depth, names=("x", "y", "a"), binders=True, funs=FUNS1, extra_funs=("f",), fold_safe=False):
    """Random expression over the node kinds of the Lean model.

    fold_safe: avoid shapes the parser folds (Const / Const, unary minus of a positive constant) -- the domain of
    the print/parse round trip."""
    def rec(d):
        if d <= 0 or rng.random() < 0.18:
            r = rng.random()
            if r < 0.5:
                return E.Var(rng.choice(names))
            if r < 0.9:
                return gen_const(E, rng)
            return E.Fun(rng.choice(["pi", "pi", "G"]))
        r = rng.random()
        if r < 0.5:
            op = rng.choice(["+", "-", "*", "*", "/", "^", "^"])
            a, b = rec(d - 1), rec(d - 1)
            if fold_safe and op == "/" and a.ty == E.CONST and b.ty == E.CONST:
                a = E.Var(rng.choice(names))
            return E.Op(op, a, b)
        if r < 0.62:
            a = rec(d - 1)
            if fold_safe and a.ty == E.CONST and a.val > 0:
                a = E.Var(rng.choice(names))
            return E.Op("-", a)
        if r < 0.9 or not binders:
            f = rng.choice(list(funs) + list(extra_funs)) if (rng.random() < 0.92 or not extra_funs) else rng.choice(list(extra_funs))
            return E.Fun(f, rec(d - 1))
        k = rng.random()
        t = rng.choice(["t", "u", names[0]])
        if k < 0.55:
            return E.Integral(t, rec(d - 2), rec(d - 2), substvar(E, rng, rec(d - 1), names, t))
        if k < 0.8:
            return E.EvalAt(t, rec(d - 2), rec(d - 2), substvar(E, rng, rec(d - 1), names, t))
        return E.Deriv(t, substvar(E, rng, rec(d - 1), names, t))
    return rec(depth)


def substvar(E, rng, e, names, t):
    """Make the bound variable occur in the body."""
    if rng.random() < 0.8:
        try:
            with quiet():
                return e.subst(rng.choice(names), E.Var(t))
        except NotImplementedError:     # Expr.subst does not know Differential
            return e
    return e


# =====================================================================================================
# stream: deriv  (correspondence with derivM, numerical oracle on the real deriv)
# =====================================================================================================
def run_deriv_impl(I, e, var="x", raw=True):
    hctx = I.context.Context()
    try:
        with quiet():
            if raw:
                with I.raw_deriv():
                    return "ok", I.rules.deriv(var, e, hctx)
            return "ok", I.rules.deriv(var, e, hctx)
    except NotImplementedError:
        return "raises", None
    except Exception as ex:  # noqa
        return "error:" + type(ex).__name__, None


def deriv_corpus(I):
    """Hand-written cases aimed at each branch of deriv (and at the two repaired ones)."""
    P = I.parser.parse_expr
    strs = ["cot(x^2)", "acot(x)", "acot(2*x+1)", "cot(3*x)", "x^3", "x^y", "a^x", "x^x", "(x+1)^(x*y)", "1/x^2", "3/(x+1)^n",
            "y/(2^x)", "a/(x^x)", "sqrt(x)", "sqrt(2)", "sqrt(x^2+1)", "sin(x)*cos(x)", "2*x", "x*2", "x/a", "a/x", "x/(x+1)",
            "x/(x+1)^2", "csc(x)", "sec(2*x)", "tan(x/2)", "log(x^2+1)", "exp(-x^2)", "atan(x/a)", "asin(x/2)", "acos(1-x)",
            "abs(x)", "f(x)", "pi*x", "G*x", "-x", "x-1", "x^(1/2)", "x^(-1/2)", "x^0", "x^1", "(2*x)^(-3)", "y^2", "y*sin(y)",
            "INT t:[0,x]. t*x", "INT t:[x,x^2]. sin(t*x)", "INT x:[0,1]. x*y", "x * (INT t:[0,1]. t)", "a*x/(b*x+1)",
            "exp(x)/x", "log(x)/x^2", "x^2/(1+x^2)", "1/(1+x^2)", "1/sqrt(1-x^2)", "x*exp(a*x)*sin(b*x)"]
    return [P(s) for s in strs]


def deriv_stream(ctx, I, n):
    E = I.expr
    rng = ctx.rng("deriv")
    cases = deriv_corpus(I)
    for _ in range(n):
        d = rng.choice([1, 2, 2, 3, 3, 4])
        cases.append(gen_expr(E, rng, d, names=("x", "x", "y", "n"), binders=(rng.random() < 0.5)))
    for _ in range(max(8, n // 20)):
        # parameter integrals  INT t:[lo(x), hi(x)]. f(x, t)
        f = gen_expr(E, rng, 2, names=("x", "t", "t", "y"), binders=False, funs=("sin", "cos", "exp", "atan"), extra_funs=())
        lo = rng.choice([E.Const(0), E.Const(1), E.Var("y"), E.Var("x")])
        hi = rng.choice([E.Var("x"), E.Var("x"), E.Op("^", E.Var("x"), E.Const(2)), E.Const(2), E.Op("*", E.Const(2), E.Var("x"))])
        cases.append(E.Integral("t", lo, hi, f))
    lines, keep = [], []
    for e in cases:
        sx = to_sexp(E, e)
        if sx is None:
            continue
        keep.append((e, sx))
        lines.append(sexp.dumps(["deriv", "x", sx]))
    out = ctx.lean_driver(EXE, lines)
    ndis = 0
    # canary: with an effective stub the raw derivative of x + x is the unsimplified 1 + 1
    st0, d0 = run_deriv_impl(I, I.parser.parse_expr("x + x"))
    effective = (st0 == "ok" and d0.ty == E.OP)
    ctx.coverage["deriv_normalize_stub_effective"] = effective
    if not effective:
        ctx.log("note: the normalize stub does not reach deriv any more; deriv is compared with derivM on normal forms / values only")
    for k, (e, sx) in enumerate(keep):
        st, d = run_deriv_impl(I, e)
        ctx.case(("deriv", canon(sx)), nontrivial=(e.ty not in (E.VAR, E.CONST) and "x" in e.get_vars()))
        ctx.count("deriv:" + st.split(":")[0])
        if st == "ok":
            dsx = to_sexp(E, d)
            impl = "(ok %s)" % canon(dsx) if dsx is not None else "outside-model"
        else:
            impl = "raises" if st == "raises" else st
        if out is not None and impl != "outside-model":
            if out[k] != impl:
                # A structural difference alone proves nothing (the normalize stub may not have been effective, the
                # code may have been refactored): compare normal forms, then values.
                ctx.coverage["disagreements_checked"] += 1
                how = reconcile_deriv(ctx, I, e, d if st == "ok" else None, out[k], rng)
                ctx.count("deriv:raw-structure-differs:" + how)
                if how == "values-differ":
                    ndis += 1
                    if ndis <= 3:
                        ctx.broken("correspondence:c19:deriv", "e=%s impl=%s model=%s (values differ)" % (e, impl[:300], out[k][:300]))
        # ---- property oracle on the real (normalising) deriv: numerical derivative
        deriv_oracle(ctx, I, e, rng)
    if out is None:
        ctx.broken("correspondence:c19:driver", "model driver unavailable")
    ctx.sample({"deriv_input": str(cases[len(deriv_corpus(I))]) if len(cases) > len(deriv_corpus(I)) else ""})


def reconcile_deriv(ctx, I, e, d, model_line, rng):
    """Implementation result `d` (None: raised) against the model's answer line when they are not identical.
    -> "raise-mismatch" | "same-normal-form" | "same-values" | "values-differ" | "undecided"."""
    E = I.expr
    if d is None or not model_line.startswith("(ok "):
        return "raise-mismatch"
    try:
        m = from_sexp(E, sexp.loads(model_line)[1])
    except Exception:  # noqa
        return "undecided"
    C = I.conditions.Conditions()
    s1, n1 = impl_normalize(I, d, C)
    s2, n2 = impl_normalize(I, m, C)
    if s1 == "ok" and s2 == "ok":
        try:
            if same_expr(E, n1, n2) or n1 == n2:
                return "same-normal-form"
        except Exception:  # noqa
            pass
    if not well_scoped(E, e):
        return "undecided"
    names = d.get_vars() | m.get_vars() | e.get_vars() | deriv_vars(E, d) | deriv_vars(E, m)
    good = 0
    for _ in range(8):
        env = {n: round(rng.uniform(0.15, 1.6) * rng.choice([1, 1, 1, -1]), 3) for n in names}
        try:
            a = two_prec(E, d, env, limit_s=4)
            b = two_prec(E, m, env, limit_s=4)
        except Unrel:
            continue
        good += 1
        if not close(a, b):
            return "values-differ"
        if good >= 2:
            return "same-values"
    return "same-values" if good else "undecided"


def well_scoped(E, e, outer=frozenset()):
    """No binder re-binds a variable that is free in the whole expression or bound further out, and no bound
    variable occurs in its own bounds.  holpy's `subst` is not capture-avoiding and `get_vars` counts the bounds of
    an integral as bound, so expressions outside this class have no agreed meaning; the value oracles skip them
    (the structural correspondence with the model does not)."""
    free = set(e.get_vars())

    def rec(t, bound):
        if t.ty in (E.OP, E.FUN):
            return all(rec(a, bound) for a in t.args)
        if t.ty in (E.INTEGRAL, E.EVAL_AT, E.SUMMATION):
            v = str(t.var if t.ty != E.SUMMATION else t.index_var)
            if v in bound or v in free or v in names_in(E, t.lower) or v in names_in(E, t.upper):
                return False
            return rec(t.lower, bound) and rec(t.upper, bound) and rec(t.body, bound | {v})
        if t.ty in (E.DERIV, E.INDEFINITEINTEGRAL):
            v = str(t.var)
            if v in bound:
                return False
            return rec(t.body, bound | {v})
        if t.ty == E.LIMIT:
            if t.var in bound or t.var in free:
                return False
            return rec(t.lim, bound) and rec(t.body, bound | {t.var})
        if t.ty == E.DIFFERENTIAL:
            return rec(t.body, bound)
        return True
    return rec(e, set(outer))


def names_in(E, e):
    """All variable names occurring in e, bound or free."""
    out = set()

    def rec(t):
        if t.ty == E.VAR:
            out.add(t.name)
        elif t.ty in (E.OP, E.FUN):
            for a in t.args:
                rec(a)
        elif t.ty in (E.INTEGRAL, E.EVAL_AT, E.SUMMATION):
            rec(t.lower), rec(t.upper), rec(t.body)
        elif t.ty in (E.DERIV, E.INDEFINITEINTEGRAL, E.DIFFERENTIAL):
            rec(t.body)
        elif t.ty == E.LIMIT:
            rec(t.lim), rec(t.body)
    rec(e)
    return out


def deriv_oracle(ctx, I, e, rng, var="x"):
    """d/dx by the implementation (with its own normalize) against mpmath.diff at random admissible points."""
    E = I.expr
    if var not in e.get_vars():
        return
    if not well_scoped(E, e):
        ctx.count("deriv-oracle:not-well-scoped")
        return
    st, d = run_deriv_impl(I, e, var, raw=False)
    if st != "ok":
        ctx.count("deriv-oracle:impl-" + st.split(":")[0])
        return
    if has_node(E, d, (E.DERIV,)):
        ctx.count("deriv-oracle:result-has-derivative-nodes")      # judged when they can be evaluated numerically
    names = e.get_vars() | d.get_vars()
    good = 0
    for _ in range(6):
        env = {n: round(rng.uniform(0.15, 1.6) * rng.choice([1, 1, 1, -1]), 3) for n in names}
        try:
            num = two_prec(E, E.Deriv(var, e), env, limit_s=4)
            # the point must be an interior point of the domain: the function is defined on both sides
            for dx in (-1e-4, 1e-4):
                env2 = dict(env)
                env2[var] = env[var] + dx
                two_prec(E, e, env2, limit_s=2)
            sym = two_prec(E, d, env, limit_s=4)
        except Unrel:
            continue
        good += 1
        if not close(num, sym, 1e-6):
            # confirm with a symmetric difference quotient at a second step size before reporting
            try:
                h = 1e-5
                q = (two_prec(E, e, {**env, var: env[var] + h}) - two_prec(E, e, {**env, var: env[var] - h})) / (2 * h)
            except Unrel:
                continue
            if close(q, num, 1e-4) and not close(q, sym, 1e-4):
                ctx.violation("deriv-value:" + str(e), "deriv(%s) = %s has value %s at %s but the derivative is %s" % (e, d, sym, env, num),
                              {"kind": "deriv", "expr": str(e), "var": var, "env": env, "symbolic": str(sym), "numeric": str(num)})
                return
        if good >= 2:
            break
    ctx.count("deriv-oracle:checked" if good else "deriv-oracle:no-admissible-point")


def has_node(E, e, tys):
    if e.ty in tys:
        return True
    if e.ty in (E.OP, E.FUN):
        return any(has_node(E, a, tys) for a in e.args)
    if e.ty in (E.INTEGRAL, E.EVAL_AT, E.SUMMATION):
        return has_node(E, e.lower, tys) or has_node(E, e.upper, tys) or has_node(E, e.body, tys)
    if e.ty in (E.DERIV, E.INDEFINITEINTEGRAL, E.DIFFERENTIAL):
        return has_node(E, e.body, tys)
    if e.ty == E.LIMIT:
        return has_node(E, e.lim, tys) or has_node(E, e.body, tys)
    return False


# =====================================================================================================
# stream: print / parse  (correspondence with pp / ppT / lex / parse; round-trip oracle on the real code)
# =====================================================================================================
KEYWORDS = {"D", "pi", "G", "inf", "oo", "INT", "DIFF", "LIM", "SUM", "SKOLEM_CONST", "SKOLEM_FUNC"}


def roundtrip_domain(E, e):
    """Expressions the parser can produce (the domain of the round-trip property): no Const/Const quotient, no unary
    minus of a positive constant (both are folded by the parser's transformer), integer-valued constants carried as
    int, and no variable/function spelled like a keyword."""
    ok = [True]

    def rec(t):
        if t.ty == E.VAR:
            if t.name in KEYWORDS or t.name.startswith(("oo", "inf")):
                ok[0] = False
        elif t.ty == E.OP:
            if len(t.args) == 1:
                a = t.args[0]
                if a.ty == E.CONST and a.val > 0:
                    ok[0] = False
            elif t.op == "/" and t.args[0].ty == E.CONST and t.args[1].ty == E.CONST:
                ok[0] = False
            for a in t.args:
                rec(a)
        elif t.ty == E.FUN:
            if len(t.args) > 0 and t.func_name in KEYWORDS:
                ok[0] = False
            for a in t.args:
                rec(a)
        elif t.ty in (E.INTEGRAL, E.EVAL_AT, E.SUMMATION):
            rec(t.lower), rec(t.upper), rec(t.body)
        elif t.ty in (E.DERIV, E.INDEFINITEINTEGRAL, E.DIFFERENTIAL):
            rec(t.body)
        elif t.ty == E.LIMIT:
            rec(t.lim), rec(t.body)
    rec(e)
    return ok[0]


def impl_parse(I, s):
    try:
        with quiet():
            return "ok", I.parser.parse_expr(s)
    except Exception as ex:  # noqa
        return "fail:" + type(ex).__name__, None


def mutate_string(rng, s):
    """Human-style variants of a printed expression: spaces removed/added, a pair of brackets dropped, `-x ^ 2`."""
    r = rng.random()
    if r < 0.35:
        return s.replace(" ", "")
    if r < 0.5:
        return s.replace(" ", "  ")
    if r < 0.8 and "(" in s:
        i = rng.choice([k for k, c in enumerate(s) if c == "("])
        depth, j = 0, None
        for k in range(i, len(s)):
            if s[k] == "(":
                depth += 1
            elif s[k] == ")":
                depth -= 1
                if depth == 0:
                    j = k
                    break
        if j is not None and (i == 0 or not (s[i - 1].isalnum() or s[i - 1] == "_")):
            return s[:i] + s[i + 1:j] + s[j + 1:]
    return "-" + s


def print_parse_stream(ctx, I, n, extra_strings=()):
    E = I.expr
    rng = ctx.rng("print")
    exprs = []
    for _ in range(n):
        d = rng.choice([1, 2, 3, 3, 4, 5])
        exprs.append(gen_expr(E, rng, d, names=("x", "y", "a", "x1", "_t"), fold_safe=(rng.random() < 0.8)))
    # ---- printing: implementation vs model
    lines, keep = [], []
    for e in exprs:
        sx = to_sexp(E, e)
        if sx is not None:
            keep.append((e, sx))
            lines.append(sexp.dumps(["print", sx]))
    out = ctx.lean_driver(EXE, lines)
    nd = 0
    strings = []
    for k, (e, sx) in enumerate(keep):
        s = str(e)
        strings.append(s)
        ctx.case(("print", canon(sx)), nontrivial=e.ty not in (E.VAR, E.CONST))
        ctx.count("print")
        if out is not None:
            want = "(str %s T)" % sexp.enc(s)
            if out[k] != want:
                nd += 1
                ctx.coverage["disagreements_checked"] += 1
                if nd <= 3:
                    ctx.broken("correspondence:c19:print", "e=%r impl=%s model=%s" % (e, want[:200], out[k][:200]))
        # ---- property: print -> parse gives the expression back (on the parser's image)
        roundtrip_check(ctx, I, e)
    # ---- parsing: implementation vs model on printed strings, human-style variants and recorded strings
    pstrings = list(strings)
    for s in strings:
        if rng.random() < 0.6:
            pstrings.append(mutate_string(rng, s))
    pstrings += list(extra_strings)
    plines, pkeep = [], []
    for s in pstrings:
        st, e = impl_parse(I, s)
        if st == "ok":
            sx = to_sexp(E, e)
            if sx is None:
                ctx.count("parse:outside-model")
                continue
            impl = "(ok %s)" % canon(sx)
        else:
            impl = "fail"
        pkeep.append((s, impl))
        plines.append(sexp.dumps(["parse", sexp.enc(s)]))
    pout = ctx.lean_driver(EXE, plines)
    nd = 0
    for k, (s, impl) in enumerate(pkeep):
        ctx.case(("parse", s), nontrivial=len(s) > 3)
        ctx.count("parse:" + ("ok" if impl != "fail" else "fail"))
        if pout is not None and pout[k] != impl:
            nd += 1
            ctx.coverage["disagreements_checked"] += 1
            if nd <= 3:
                ctx.broken("correspondence:c19:parse", "s=%r impl=%s model=%s" % (s, impl[:200], pout[k][:200]))
    if out is None or pout is None:
        ctx.broken("correspondence:c19:driver", "model driver unavailable")
    if keep:
        ctx.sample({"print_input": repr(keep[0][0]), "printed": strings[0]})


def roundtrip_check(ctx, I, e, where="generated"):
    """str(e) parses back to an expression equal to e (Python ==), for e in the parser's image."""
    E = I.expr
    if not roundtrip_domain(E, e):
        ctx.count("roundtrip:outside-domain")
        return
    s = str(e)
    st, e2 = impl_parse(I, s)
    ctx.count("roundtrip:checked")
    if st != "ok":
        ctx.violation("print-parse:" + s, "printed form %r of %r does not parse (%s)" % (s, e, st),
                      {"kind": "roundtrip", "expr": ser_expr(E, e), "printed": s, "where": where})
        return
    same = same_expr(E, e, e2)
    if not same:
        ctx.violation("print-parse:" + s, "printed form %r of %r parses to the different expression %r" % (s, e, e2),
                      {"kind": "roundtrip", "expr": ser_expr(E, e), "printed": s, "reparsed": str(ser_expr(E, e2)), "where": where})


def same_expr(E, a, b):
    """Field-by-field identity of two expressions (constants by value).  Not `==`: holpy's `Integral.__eq__` goes
    through `subst`, which raises on Differential and drops the direction of a Limit, so `e == e` can be False."""
    if a.ty != b.ty:
        return False
    ty = a.ty
    if ty in (E.VAR, E.SYMBOL):
        return a.name == b.name
    if ty == E.CONST:
        return frac_of(a.val) == frac_of(b.val)
    if ty == E.INF:
        return a.t == b.t
    if ty == E.OP:
        return a.op == b.op and len(a.args) == len(b.args) and all(same_expr(E, x, y) for x, y in zip(a.args, b.args))
    if ty == E.FUN:
        return a.func_name == b.func_name and len(a.args) == len(b.args) and all(same_expr(E, x, y) for x, y in zip(a.args, b.args))
    if ty in (E.INTEGRAL, E.EVAL_AT):
        return str(a.var) == str(b.var) and same_expr(E, a.lower, b.lower) and same_expr(E, a.upper, b.upper) and same_expr(E, a.body, b.body)
    if ty == E.SUMMATION:
        return a.index_var == b.index_var and same_expr(E, a.lower, b.lower) and same_expr(E, a.upper, b.upper) and same_expr(E, a.body, b.body)
    if ty == E.DERIV:
        return str(a.var) == str(b.var) and same_expr(E, a.body, b.body)
    if ty == E.DIFFERENTIAL:
        return same_expr(E, a.body, b.body)
    if ty == E.INDEFINITEINTEGRAL:
        return a.var == b.var and tuple(a.skolem_args) == tuple(b.skolem_args) and same_expr(E, a.body, b.body)
    if ty == E.LIMIT:
        return a.var == b.var and a.drt == b.drt and same_expr(E, a.lim, b.lim) and same_expr(E, a.body, b.body)
    if ty == E.SKOLEMFUNC:
        return a.name == b.name and len(a.dependent_vars) == len(b.dependent_vars) and \
            all(same_expr(E, x, y) for x, y in zip(a.dependent_vars, b.dependent_vars))
    return False


def example_strings(repo):
    """Every expression string occurring in the example files (all formats)."""
    ex = os.path.join(repo, "integral", "examples")
    keys = {"res", "start", "goal", "eq", "expr", "new_expr", "old_expr", "u", "v", "var_subst", "cond", "lhs", "c", "a",
            "source", "target", "solve_for", "lim", "problem", "text", "f", "g", "rhs", "denom", "parts_u", "parts_v"}
    out = []

    def walk(x):
        if isinstance(x, dict):
            for k, v in x.items():
                if k in keys and isinstance(v, str) and v:
                    out.append(v)
                else:
                    walk(v)
        elif isinstance(x, list):
            for v in x:
                walk(v)
    for p in sorted(glob.glob(os.path.join(ex, "*.json")) + glob.glob(os.path.join(ex, "*", "*.json"))):
        try:
            with open(p, encoding="utf-8") as f:
                walk(json.load(f))
        except Exception:  # noqa
            pass
    return list(dict.fromkeys(out))


def example_roundtrip(ctx, I, limit=None):
    """print -> parse on every expression of the example files (and all their subexpressions' top level)."""
    strs = example_strings(ctx.repo)
    rng = ctx.rng("example-strings")
    if limit is not None and len(strs) > limit:
        strs = rng.sample(strs, limit)
    n = 0
    for s in strs:
        st, e = impl_parse(I, s)
        if st != "ok":
            ctx.count("example-strings:unparsable")
            continue
        n += 1
        ctx.case(("example-expr", s), nontrivial=True)
        roundtrip_check(ctx, I, e, where="examples")
    ctx.count("example-strings", n)
    return strs


# =====================================================================================================
# stream: interval arithmetic (exact, rational endpoints)
# =====================================================================================================
def gen_bound(rng, side):
    r = rng.random()
    if r < 0.12:
        return "-oo" if side == "lo" else "oo"
    return Fraction(rng.choice([-3, -2, -1, -1, 0, 0, 0, 1, 1, 2, 3, 5]), rng.choice([1, 1, 1, 2, 3]))


def gen_ival(rng):
    lo, hi = gen_bound(rng, "lo"), gen_bound(rng, "hi")
    if isinstance(lo, Fraction) and isinstance(hi, Fraction) and lo > hi and rng.random() < 0.9:
        lo, hi = hi, lo
    return (lo, hi, rng.random() < 0.4, rng.random() < 0.4)


def mk_interval(I, iv):
    E = I.expr
    lo, hi, lo_open, hi_open = iv

    def b(x):
        if x == "-oo":
            return E.NEG_INF
        if x == "oo":
            return E.POS_INF
        return E.Const(x if x.denominator != 1 else int(x))
    return I.interval.Interval(b(lo), b(hi), lo_open, hi_open)


def s_bound(x):
    if x in ("-oo", "oo"):
        return x
    return [x.numerator, x.denominator]


def s_ival(iv):
    return [s_bound(iv[0]), s_bound(iv[1]), bool(iv[2]), bool(iv[3])]


def read_interval(I, r):
    """Interval object -> (lo, hi, lopen, ropen) with exact endpoints."""
    E = I.expr

    def b(x):
        if x == E.NEG_INF:
            return "-oo"
        if x == E.POS_INF:
            return "oo"
        v = E.eval_expr(x)
        if isinstance(v, float):
            if v == float("inf"):
                return "oo"
            if v == float("-inf"):
                return "-oo"
            raise ValueError("float endpoint")
        return Fraction(v)
    return (b(r.start), b(r.end), bool(r.left_open), bool(r.right_open))


def ival_apply(I, op, a, b, n):
    A = mk_interval(I, a)
    try:
        with quiet():
            if op == "iadd":
                r = A + mk_interval(I, b)
            elif op == "isub":
                r = A - mk_interval(I, b)
            elif op == "ineg":
                r = -A
            elif op == "imul":
                r = A * mk_interval(I, b)
            elif op == "iinv":
                r = A.inverse()
            elif op == "idiv":
                r = A / mk_interval(I, b)
            else:
                r = A ** I.interval.Interval.point(I.expr.Const(n))
            return "ok", read_interval(I, r)
    except Exception as ex:  # noqa
        return "raises:" + type(ex).__name__, None


def in_ival(iv, x):
    lo, hi, lo_open, hi_open = iv
    if lo == "oo" or hi == "-oo":
        return False
    if lo != "-oo" and (x < lo or (lo_open and x == lo)):
        return False
    if hi != "oo" and (x > hi or (hi_open and x == hi)):
        return False
    return True


def points_of(rng, iv):
    """Rational sample points of an interval, attained endpoints first."""
    lo, hi, lo_open, hi_open = iv
    pts = []
    if lo not in ("-oo", "oo") and not lo_open:
        pts.append(lo)
    if hi not in ("-oo", "oo") and not hi_open:
        pts.append(hi)
    a = lo if lo not in ("-oo", "oo") else (hi - 7 if hi not in ("-oo", "oo") else Fraction(-7))
    b = hi if hi not in ("-oo", "oo") else (a + 9)
    if a < b:
        for t in (Fraction(1, 1000), Fraction(1, 3), Fraction(1, 2), Fraction(4, 5), Fraction(999, 1000)):
            pts.append(a + (b - a) * t)
        pts.append(a + (b - a) * Fraction(rng.randint(1, 96), 97))
        if a < 0 < b:
            pts.append(Fraction(0))
            pts.append(Fraction(1, 1000))
            pts.append(Fraction(-1, 1000))
    return [p for p in dict.fromkeys(pts) if in_ival(iv, p)]


def interval_stream(ctx, I, n):
    rng = ctx.rng("interval")
    ops = ["iadd", "isub", "ineg", "imul", "imul", "imul", "iinv", "idiv", "idiv", "ipow", "ipow"]
    corpus = [("imul", ((Fraction(-1), Fraction(1), False, False)), ((Fraction(-1), Fraction(1), False, True)), 0),
              ("imul", ((Fraction(0), Fraction(1), False, False)), ((Fraction(0), Fraction(1), True, True)), 0),
              ("imul", ((Fraction(0), "oo", False, True)), ((Fraction(1), Fraction(2), True, True)), 0),
              ("iinv", ((Fraction(-1), Fraction(2), False, False)), None, 0),
              ("idiv", ((Fraction(1), Fraction(1), False, False)), ((Fraction(-1), Fraction(2), False, False)), 0),
              ("ipow", ((Fraction(-2), Fraction(1), False, False)), None, 4),
              ("ipow", ((Fraction(-2), Fraction(1), True, False)), None, 6),
              ("ipow", (("-oo", Fraction(-1), True, True)), None, 4)]
    cases = list(corpus)
    for _ in range(n):
        op = rng.choice(ops)
        cases.append((op, gen_ival(rng), gen_ival(rng) if op in ("iadd", "isub", "imul", "idiv") else None, rng.choice([0, 1, 2, 2, 3, 4, 5, 6])))
    interval_cases(ctx, I, cases, rng)
    ctx.sample({"interval_case": [cases[len(corpus)][0], show_ival(cases[len(corpus)][1])]} if len(cases) > len(corpus) else {})


def interval_cases(ctx, I, cases, rng):
    lines = []
    for op, a, b, k in cases:
        if op in ("iadd", "isub", "imul", "idiv"):
            lines.append(sexp.dumps([op, s_ival(a), s_ival(b)]))
        elif op == "ipow":
            lines.append(sexp.dumps([op, s_ival(a), k]))
        else:
            lines.append(sexp.dumps([op, s_ival(a)]))
    out = ctx.lean_driver(EXE, lines)
    nd = 0
    for idx, (op, a, b, k) in enumerate(cases):
        st, r = ival_apply(I, op, a, b, k)
        ctx.case(("ival", op, a, b, k), nontrivial=True)
        ctx.count("interval:%s:%s" % (op, st.split(":")[0]))
        impl = canon(s_ival(r)) if st == "ok" else "raises"
        if out is not None and out[idx] != impl:
            nd += 1
            ctx.coverage["disagreements_checked"] += 1
            if nd <= 3:
                ctx.broken("correspondence:c19:interval", "%s %s %s %s impl=%s (%s) model=%s" % (op, a, b, k, impl, st, out[idx]))
        # ---- property oracle: sampled points (exact rational arithmetic)
        if st != "ok":
            continue
        xs = points_of(rng, a)
        ys = points_of(rng, b) if b is not None else [None]
        bad = None
        for x in xs:
            for y in ys:
                try:
                    if op == "iadd":
                        v = x + y
                    elif op == "isub":
                        v = x - y
                    elif op == "ineg":
                        v = -x
                    elif op == "imul":
                        v = x * y
                    elif op == "iinv":
                        if x == 0:
                            continue
                        v = 1 / x
                    elif op == "idiv":
                        if y == 0:
                            continue
                        v = x / y
                    else:
                        v = x ** k
                except ZeroDivisionError:
                    continue
                if not in_ival(r, v):
                    bad = (x, y, v)
                    break
            if bad:
                break
        if bad:
            ctx.violation("interval:%s:%s:%s:%s" % (op, show_ival(a), show_ival(b) if b else "", k if op == "ipow" else ""),
                          "interval %s of %s%s = %s does not contain %s obtained from x=%s%s" % (
                              op, show_ival(a), (" and " + show_ival(b)) if b else (" ^ %d" % k if op == "ipow" else ""), show_ival(r), bad[2], bad[0],
                              (", y=%s" % bad[1]) if bad[1] is not None else ""),
                          {"kind": "interval", "op": op, "a": ser_ival(a), "b": ser_ival(b) if b else None, "n": k})
    if out is None:
        ctx.broken("correspondence:c19:driver", "model driver unavailable")


def show_ival(iv):
    return ("(" if iv[2] else "[") + str(iv[0]) + "," + str(iv[1]) + (")" if iv[3] else "]")


def ser_ival(iv):
    return [str(iv[0]), str(iv[1]), bool(iv[2]), bool(iv[3])]


def deser_ival(x):
    def b(s):
        return s if s in ("-oo", "oo") else Fraction(s)
    return (b(x[0]), b(x[1]), bool(x[2]), bool(x[3]))


def gen_rich(E, rng, depth, names=("x", "y", "a")):
    """Expressions over *all* node kinds the calculator prints (for the round-trip oracle on the real code)."""
    def rec(d):
        if d <= 0 or rng.random() < 0.15:
            r = rng.random()
            if r < 0.45:
                return E.Var(rng.choice(names))
            if r < 0.85:
                return gen_const(E, rng)
            if r < 0.93:
                return E.Fun(rng.choice(["pi", "G"]))
            return E.SkolemFunc("C", tuple(E.Var(n) for n in rng.sample(list(names), rng.randint(0, 2))))
        r = rng.random()
        if r < 0.42:
            op = rng.choice(["+", "-", "*", "/", "^"])
            a, b = rec(d - 1), rec(d - 1)
            if op == "/" and a.ty == E.CONST and b.ty == E.CONST:
                a = E.Var(rng.choice(names))
            return E.Op(op, a, b)
        if r < 0.5:
            a = rec(d - 1)
            if (a.ty == E.CONST and a.val > 0) or a.ty == E.INF:
                a = E.Var(rng.choice(names))
            return E.Op("-", a)
        if r < 0.66:
            if rng.random() < 0.15:
                return E.Fun(rng.choice(["binom", "B", "h"]), rec(d - 1), rec(d - 1))
            return E.Fun(rng.choice(FUNS1 + ["factorial", "Gamma", "f"]), rec(d - 1))
        t = rng.choice(["t", "u", "k"])
        body = substvar(E, rng, rec(d - 1), names, t)
        k = rng.random()

        def bound(lo):
            q = rng.random()
            if q < 0.15:
                return E.NEG_INF if lo else E.POS_INF
            return rec(d - 2)
        if k < 0.3:
            return E.Integral(t, bound(True), bound(False), body)
        if k < 0.42:
            return E.EvalAt(t, bound(True), bound(False), body)
        if k < 0.52:
            return E.Deriv(t, body)
        if k < 0.68:
            lim = rng.choice([E.POS_INF, E.NEG_INF, E.Const(0), rec(d - 2)])
            drt = None if lim.ty == E.INF else rng.choice([None, "+", "-"])
            return E.Limit(t, lim, body, drt)
        if k < 0.82:
            return E.Summation(t, rec(d - 2), bound(False), body)
        if k < 0.95:
            return E.IndefiniteIntegral(t, body, tuple(rng.sample(list(names), rng.randint(0, 2))))
        return E.Differential(body)
    return rec(depth)


def rich_roundtrip(ctx, I, n):
    E = I.expr
    rng = ctx.rng("rich")
    for _ in range(n):
        e = gen_rich(E, rng, rng.choice([1, 2, 3, 3, 4]))
        if rng.random() < 0.1:
            e = E.Op(rng.choice(["=", "<", "<=", ">", ">=", "!="]), e, gen_rich(E, rng, 2))
        ctx.case(("rich", str(e)), nontrivial=True)
        ctx.count("rich-roundtrip")
        roundtrip_check(ctx, I, e, where="generated-rich")


# =====================================================================================================
# stream: normalize  (value preserving at random admissible points; idempotent)
# =====================================================================================================
NORMALIZE_LIMIT = [20]


def impl_normalize(I, e, conds):
    try:
        with quiet():
            with time_limit(NORMALIZE_LIMIT[0]):
                return "ok", I.poly.normalize(e, conds)
    except Timeout:
        return "timeout", None
    except Exception as ex:  # noqa
        return "raises:" + type(ex).__name__, None


def normalize_stream(ctx, I, n):
    E = I.expr
    rng = ctx.rng("normalize")
    P = I.parser.parse_expr
    corpus = ["sqrt(x^2)", "(x^2)^(1/2)", "atan(tan(x))", "sin(asin(x))", "log(x^2)", "exp(log(x))", "log(exp(x))", "x^2/x", "(x+1)^2/(x+1)",
              "sqrt(x)*sqrt(x)", "x^(1/2)*x^(1/2)", "(x*y)^(1/2)", "sqrt(x*y)", "(x^3)^(1/3)", "abs(x)^2", "x/x", "0^x", "x^0", "1/(1/x)",
              "(-x)^2", "(-x)^(1/2)", "sqrt(-x)", "log(1/x)", "exp(x)^2", "exp(x+y)", "cos(-x)", "sin(pi/2 - x)", "tan(x)*cot(x)",
              "(x^(1/2))^2", "((x-1)^2)^(1/2)", "x^a*x^b", "(x^a)^b", "2^x*2^y", "INT t:[1,0]. t*x", "INT t:[0,1]. (t^2)^(1/2)*x",
              # evaluation at an end point where the body is singular: the one-sided limit from INSIDE the interval is meant
              "[atan(1/t)]_t=0,1", "[atan(1/t)]_t=-1,0", "[exp(-1/t)]_t=0,1", "[abs(t)/t * x]_t=0,2", "[t*log(t)]_t=0,1",
              "[atan(1/(t-1))]_t=1,2", "[atan(1/(t-1)) * x]_t=0,1", "[exp(1/t)]_t=-1,0", "[sin(t)/t]_t=0,1", "[atan(x/t)]_t=0,1"]
    cases = [(P(s), []) for s in corpus]
    # generated evaluations with a jump or an essential singularity at one end
    for _ in range(max(8, n // 60)):
        c = rng.choice([0, 0, 1, -1, 2])
        lo_sing = rng.random() < 0.5
        other = c + rng.choice([1, 2]) if lo_sing else c - rng.choice([1, 2])
        u = "(t - %d)" % c if c > 0 else ("(t + %d)" % -c if c < 0 else "t")
        body = rng.choice(["atan(1/%s)", "exp(-1/%s^2) + atan(2/%s)", "abs(%s)/%s", "atan(1/%s) * x", "%s * log(abs(%s)) + atan(1/%s)",
                           "x / (1 + exp(1/%s))"]).replace("%s", u)
        lo, hi = (c, other) if lo_sing else (other, c)
        cases.append((P("[%s]_t=%d,%d" % (body, lo, hi)), []))
    for _ in range(n):
        e = gen_expr(E, rng, rng.choice([2, 3, 3, 4]), names=("x", "x", "y"), binders=(rng.random() < 0.25), extra_funs=())
        conds = []
        if rng.random() < 0.4:
            conds.append(P("x > 0"))
        if rng.random() < 0.2:
            conds.append(P("y > 0"))
        cases.append((e, conds))
    # a few generated expressions make normalize (or the evaluation of its result) very slow: per-call limit and a
    # budget for the whole stream, so that one seed cannot take ten minutes
    NORMALIZE_LIMIT[0] = ctx.scale(4, 20)
    deadline = time.time() + ctx.scale(40, 420)
    try:
        for e, conds in cases:
            if time.time() > deadline:
                ctx.count("normalize:not-reached-in-time-budget")
                continue
            normalize_check(ctx, I, e, conds, rng)
    finally:
        NORMALIZE_LIMIT[0] = 20
    ctx.sample({"normalize_input": str(cases[len(corpus)][0])} if len(cases) > len(corpus) else {})


def normalize_check(ctx, I, e, conds, rng):
    E = I.expr
    C = I.conditions.Conditions(conds)
    ctx.case(("normalize", str(e), tuple(str(c) for c in conds)), nontrivial=e.ty not in (E.VAR, E.CONST))
    st, n1 = impl_normalize(I, e, C)
    ctx.count("normalize:" + st.split(":")[0])
    if st != "ok":
        return
    if not well_scoped(E, e):
        ctx.count("normalize:not-well-scoped")
        return
    st2, n2 = impl_normalize(I, n1, C)
    second = None
    if st2 == "ok" and not same_expr(E, n1, n2):
        try:
            equal = (n1 == n2)
        except Exception:  # noqa
            equal = False
        if not equal:
            second = n2
    names = e.get_vars() | n1.get_vars()
    good = 0
    for _ in range(8 if names else 1):
        env = sample_env(E, rng, names, conds, set())
        if env is None:
            break
        try:
            a = two_prec(E, e, env, limit_s=3)
            b = two_prec(E, n1, env, limit_s=3)
        except Unrel:
            continue
        good += 1
        if not close(a, b):
            ctx.violation("normalize-value:" + str(e) + (" | " + ", ".join(str(c) for c in conds) if conds else ""),
                          "normalize(%s) = %s under [%s]: value %s becomes %s at %s" % (e, n1, ", ".join(str(c) for c in conds), a, b, env),
                          {"kind": "normalize", "expr": str(e), "conds": [str(c) for c in conds], "what": "value", "env": env})
            return
        if good >= 2:
            break
    ctx.count("normalize-oracle:checked" if good else "normalize-oracle:no-admissible-point")
    if second is not None:
        # Not idempotent.  If the second pass changes the value it is a value violation of its own; if it only
        # changes the form, it is the (known, design-level) lack of a fixed point.
        for _ in range(6):
            env = sample_env(E, rng, n1.get_vars() | second.get_vars(), conds, set())
            if env is None:
                break
            try:
                a = two_prec(E, n1, env, limit_s=3)
                b = two_prec(E, second, env, limit_s=3)
            except Unrel:
                continue
            if not close(a, b):
                ctx.violation("normalize-value:" + str(n1), "second normalize pass changes the value: %s -> %s at %s" % (n1, second, env),
                              {"kind": "normalize", "expr": str(n1), "conds": [str(c) for c in conds], "what": "value", "env": env})
                return
            break
        ctx.violation("normalize-idempotent:second-pass-changes-form-only",
                      "normalize is not idempotent (the second pass reorders / distributes / simplifies further without changing the "
                      "value), e.g. %s -> %s -> %s" % (e, n1, second),
                      {"kind": "normalize", "expr": str(e), "conds": [str(c) for c in conds], "what": "idempotent"})


# =====================================================================================================
# stream: generated applications of Linearity / SplitRegion / IntegrationByParts / Substitution
# =====================================================================================================
ATOMS_POS = ["x", "x ^ 2", "x ^ 3", "sqrt(x)", "1 / x", "exp(x)", "exp(-x)", "log(x)", "sin(x)", "cos(x)", "1 / (x ^ 2 + 1)", "x ^ a",
             "exp(a * x)", "sin(a * x)", "x / (x + 1)", "log(x + 1)", "x * exp(x)", "atan(x)", "tan(x / 2)", "sqrt(x + 1)", "x ^ (1/3)",
             "1 / sqrt(x)", "cos(x) ^ 2", "(INT t:[0,x]. t * cos(t))"]
COEFFS = ["2", "3", "-1", "1/2", "a", "b", "a * b", "pi", "(a + 1)", "-3/2", "sqrt(2)"]


def gen_integrand(I, rng, depth=2):
    P = I.parser.parse_expr
    E = I.expr

    def rec(d):
        if d <= 0 or rng.random() < 0.25:
            return P(rng.choice(ATOMS_POS))
        r = rng.random()
        if r < 0.3:
            return E.Op(rng.choice(["+", "-"]), rec(d - 1), rec(d - 1))
        if r < 0.5:
            return E.Op("*", P(rng.choice(COEFFS)), rec(d - 1))
        if r < 0.6:
            return E.Op("*", rec(d - 1), P(rng.choice(COEFFS)))
        if r < 0.7:
            return E.Op("/", rec(d - 1), P(rng.choice(COEFFS)))
        if r < 0.78:
            return E.Op("/", P(rng.choice(COEFFS)), P(rng.choice(["x", "x ^ 2 + 1", "exp(x)", "sqrt(x)", "(x + a ^ 2)"])))
        if r < 0.86:
            return E.Op("-", rec(d - 1))
        return E.Op("*", rec(d - 1), rec(d - 1))
    return rec(depth)


def gen_bounds(I, rng):
    lo = Fraction(rng.randint(1, 8), 8)
    hi = lo + Fraction(rng.randint(1, 10), 8)
    c = lo + (hi - lo) * Fraction(rng.randint(1, 7), 8)
    def K(q):
        return I.expr.Const(q if q.denominator != 1 else int(q))
    return K(lo), K(hi), K(c), (lo, hi, c)


def apply_rule(I, rule, e, hctx=None, limit=30):
    text = str(e)
    printed = text_parse(I, text)
    PARSE_DRIFT_CHECKS[0] += 1
    try:
        try:
            with quiet():
                with time_limit(limit):
                    return "ok", rule.eval(e, hctx if hctx is not None else I.context.Context())
        except Timeout:
            return "timeout", None
        except AssertionError:
            return "rejected", None
        except Exception as ex:  # noqa
            return "raises:" + type(ex).__name__, None
    finally:
        note_parse_drift(I, rule, text, printed)


def rules_stream(ctx, I, n):
    E, R = I.expr, I.rules
    P = I.parser.parse_expr
    rng = ctx.rng("rules")
    judge = StepJudge(I, rng, nsamples=3, budget_s=ctx.scale(4.0, 10.0))
    conds = [P("a > 0"), P("b > 0")]
    hctx = I.context.Context()
    for c in conds:
        hctx.add_condition(c)
    for k in range(n):
        kind = rng.choice(["lin", "lin", "lin", "lin-sum", "lin-indef", "split", "split", "parts", "parts", "subst", "subst", "subst-inv",
                           "exchange", "expand"])
        lo, hi, c, (qlo, qhi, qc) = gen_bounds(I, rng)
        before = after = None
        rule = None
        calc_ivars = set()
        try:
            with quiet():
                if kind == "lin":
                    before = E.Integral("x", lo, hi, gen_integrand(I, rng, rng.choice([1, 2, 3])))
                    rule = R.Linearity()
                elif kind == "lin-sum":
                    body = gen_integrand(I, rng, 2).subst("x", E.Var("k"))
                    before = E.Summation("k", E.Const(1), E.Const(rng.randint(2, 6)), body)
                    rule = R.Linearity()
                elif kind == "lin-indef":
                    before = E.IndefiniteIntegral("x", gen_integrand(I, rng, 2), tuple())
                    rule = R.Linearity()
                    calc_ivars = {"x"}
                elif kind == "split":
                    before = E.Integral("x", lo, hi, gen_integrand(I, rng, 2))
                    if rng.random() < 0.2:
                        c = E.Const(Fraction(rng.randint(1, 24), 8))      # also points outside [lo, hi]
                    rule = R.SplitRegion(c)
                elif kind == "parts":
                    u = P(rng.choice(["x", "log(x)", "x ^ 2", "exp(x)", "sin(x)", "atan(x)", "x + a", "log(x) ^ 2", "cos(a * x)"]))
                    v = P(rng.choice(["x", "x ^ 2 / 2", "exp(x)", "-cos(x)", "sin(x)", "x ^ 3 / 3", "log(x)", "exp(a * x) / a", "x ^ (a + 1) / (a + 1)"]))
                    dv = R.deriv("x", v, hctx)
                    before = E.Integral("x", lo, hi, I.poly.normalize(u * dv, hctx.get_conds()))
                    rule = R.IntegrationByParts(u, v)
                elif kind == "subst":
                    g = P(rng.choice(["x ^ 2", "2 * x + 1", "exp(x)", "log(x)", "sin(x)", "sqrt(x)", "x ^ 2 + 1", "a * x", "x + a", "1 / x", "x ^ 3"]))
                    f = P(rng.choice(["u", "u ^ 2", "exp(u)", "1 / (u + 1)", "sqrt(u + 1)", "sin(u)", "log(u + 2)", "u * exp(u)", "1 / (u ^ 2 + 1)"]))
                    dg = R.deriv("x", g, hctx)
                    before = E.Integral("x", lo, hi, f.subst("u", g) * dg)
                    rule = R.Substitution("u", g)
                elif kind == "expand":
                    facs = ["(x + 1)", "(x - 2)", "(2 * x + a)", "(x ^ 2 + 1)", "(x - a)", "(1 - x)", "(x + b) ^ 2", "(x - 1) ^ 3", "x",
                            "(a * x + b)", "exp(x)", "(sin(x) + 1)"]
                    body = P(" * ".join(rng.sample(facs, rng.randint(2, 3))) + rng.choice(["", " / x", " / (a + 1)", " ^ 2"]))
                    before = E.Integral("x", lo, hi, body) if rng.random() < 0.7 else body
                    rule = R.ExpandPolynomial()
                elif kind == "exchange":
                    f = P(rng.choice(["x ^ a", "exp(a * x)", "sin(a * x)", "cos(a * x) * x", "log(x + a)", "1 / (x + a)", "atan(a * x)",
                                      "x ^ 2 * exp(-(a * x))", "sqrt(x + a ^ 2)"]))
                    if rng.random() < 0.5:
                        before = E.Integral("x", lo, hi, E.Deriv("a", f))
                    else:
                        before = E.Deriv("a", E.Integral("x", lo, hi, f))
                    rule = R.DerivIntExchange()
                else:
                    g = P(rng.choice(["2 * u", "u ^ 2", "sin(u)", "exp(u)", "u + 1", "tan(u)", "1 / u"]))
                    before = E.Integral("x", lo, hi, gen_integrand(I, rng, 1))
                    rule = R.SubstitutionInverse("u", g)
        except Exception as ex:  # noqa
            ctx.count("rules:%s:setup-%s" % (kind, type(ex).__name__))
            continue
        rule_case(ctx, I, kind, before, rule, rng, judge, calc_ivars, k == 0)


def rule_case(ctx, I, kind, before, rule, rng, judge=None, calc_ivars=None, sample=False):
    E = I.expr
    P = I.parser.parse_expr
    if judge is None:
        judge = StepJudge(I, rng, nsamples=1, budget_s=20.0)
    if calc_ivars is None:
        calc_ivars = indef_vars(E, before)
    with quiet():
        conds = [P("a > 0"), P("b > 0")]
    hctx = I.context.Context()
    for c in conds:
        hctx.add_condition(c)
    k = 0 if sample else 1
    for _ in range(1):
        before_s = str(before)
        st, after = apply_rule(I, rule, I.parser.parse_expr(before_s) if roundtrip_domain(E, before) else before, hctx)
        ctx.case(("rule", kind, before_s, str(rule)), nontrivial=True)
        ctx.count("rules:%s:%s" % (kind, "applied" if st == "ok" else st.split(":")[0]))
        if st != "ok":
            continue
        try:
            verdict, detail = judge.judge(before, after, conds, {}, {}, set(), calc_ivars)
        except Exception as ex:  # noqa
            verdict, detail = "skip:evaluator-error:" + type(ex).__name__, None
        ctx.count("rules:%s:%s" % (kind, verdict if verdict in ("ok", "bad") else "skip"))
        if verdict == "bad":
            ctx.violation("rule-value:%s:%s:%s" % (type(rule).__name__, before_s, rule),
                          "%s on %s gives %s: value changes %s" % (rule, before_s, after, detail),
                          {"kind": "rule", "rule": kind, "before": before_s, "rule_str": str(rule), "params": rule.export(), "detail": detail})
        if k == 0:
            ctx.sample({"rule_case": [kind, before_s, str(rule), str(after)]})


# =====================================================================================================
# stream: Linearity / SplitRegion against linearityM / splitM (structural), value judged as well
# =====================================================================================================
def linearity_stream(ctx, I, n):
    E, R = I.expr, I.rules
    P = I.parser.parse_expr
    rng = ctx.rng("linearity")
    corpus = ["INT x:[0,1]. 2 * x + 3 * x ^ 2", "INT x:[0,1]. a * x / b", "INT x:[0,1]. -(a * x) - x / (a * x)", "INT x:[0,1]. 2",
              "INT x:[0,1]. 1", "INT x:[0,1]. pi * 2", "INT x:[0,1]. a", "INT x:[0,1]. x * (a + x) * 2", "INT x:[0,1]. 2 * (x + 1)",
              "INT x:[0,1]. x / 1", "INT x:[0,1]. 1 / x", "INT x:[0,1]. a / (b * x) / c", "INT x:[0,1]. -x * -a", "INT x:[1,2]. a * (b * (x + c * x))",
              "INT x:[0,1]. (a * x) ^ 2", "INT x:[0,y]. y * x", "INT x:[0,1]. x * (INT y:[0,x]. a * y)", "INT x:[0,1]. -(-(2 * x))",
              "INT x:[0,1]. a / b", "INT x:[0,1]. sin(a) * cos(x)", "x + 1", "2 * (INT x:[0,1]. 2 * x)"]
    cases = []
    for s_ in corpus:
        cases.append(P(s_))
    for _ in range(n):
        lo, hi, c, _q = gen_bounds(I, rng)
        if rng.random() < 0.5:
            body = gen_integrand(I, rng, rng.choice([1, 2, 3]))
        else:
            body = gen_expr(E, rng, rng.choice([1, 2, 3, 4]), names=("x", "x", "a", "b"), binders=(rng.random() < 0.2), extra_funs=())
        cases.append(E.Integral("x", lo, hi, body))
    lines, keep = [], []
    for e in cases:
        sx = to_sexp(E, e)
        if sx is None:
            continue
        if rng.random() < 0.3 and e.ty == E.INTEGRAL:
            c = gen_const(E, rng) if rng.random() < 0.5 else P(rng.choice(["1/2", "a", "pi / 4", "x0 + 1"]))
            keep.append(("split", e, c))
            lines.append(sexp.dumps(["split", to_sexp(E, c), sx]))
        else:
            keep.append(("lin", e, None))
            lines.append(sexp.dumps(["lin", sx]))
    out = ctx.lean_driver(EXE, lines)
    judge = StepJudge(I, rng, nsamples=1, budget_s=3.0)
    nd = 0
    with quiet():
        conds = [P("a > 0"), P("b > 0")]
    for k, (kind, e, c) in enumerate(keep):
        rule = R.Linearity() if kind == "lin" else R.SplitRegion(c)
        st, r = apply_rule(I, rule, P(str(e)) if roundtrip_domain(E, e) else e)
        ctx.case(("linearity", kind, str(e), str(c)), nontrivial=e.ty == E.INTEGRAL)
        ctx.count("linearity:%s:%s" % (kind, "applied" if st == "ok" else st.split(":")[0]))
        if st != "ok":
            continue
        if kind == "split" and has_node(E, r, (E.LIMIT,)):
            ctx.count("linearity:split:principal-value-branch")      # not modelled
            continue
        rsx = to_sexp(E, r)
        if out is None or rsx is None:
            continue
        if out[k] != canon(rsx):
            # structural difference: decide by value (a refactoring that reorders factors is harmless)
            ctx.coverage["disagreements_checked"] += 1
            try:
                m = from_sexp(E, sexp.loads(out[k]))
                verdict, detail = judge.judge(r, m, conds, {}, {}, set(), set())
            except Exception:  # noqa
                verdict, detail = "skip", None
            ctx.count("linearity:structure-differs:" + verdict.split(":")[0])
            if verdict == "bad":
                nd += 1
                if nd <= 3:
                    ctx.broken("correspondence:c19:linearity", "%s on %s: impl=%s model=%s (values differ: %s)" % (kind, e, r, out[k][:300], detail))
    if out is None:
        ctx.broken("correspondence:c19:driver", "model driver unavailable")


# =====================================================================================================
# streams: Substitution / IntegrationByParts / DefiniteIntegralIdentity against substM / partsM / ftcM
# (structural comparison up to the implementation's own normalize, then re-judged by value before reporting)
# =====================================================================================================
def model_vs_impl(ctx, I, stream, what, real, model_line, judge, conds, norm=None):
    """real: Expr returned by the rule; model_line: the driver's answer.  Counts how they agree; only a difference of
    VALUE is reported (ctx.broken)."""
    E = I.expr
    rsx = to_sexp(E, real)
    if rsx is not None and canon(rsx) == model_line:
        ctx.count("%s:identical" % stream)
        return
    try:
        m = from_sexp(E, sexp.loads(model_line))
    except Exception:  # noqa
        ctx.count("%s:model-output-unreadable" % stream)
        return
    if norm is not None:
        try:
            with quiet():
                if same_expr(E, norm(real), norm(m)):
                    ctx.count("%s:same-normal-form" % stream)
                    return
        except Exception:  # noqa
            pass
    ctx.coverage["disagreements_checked"] += 1
    try:
        verdict, detail = judge.judge(real, m, conds, {}, {}, set(), set())
    except Exception:  # noqa
        verdict, detail = "skip", None
    ctx.count("%s:structure-differs:%s" % (stream, verdict.split(":")[0]))
    if verdict == "bad":
        ctx.broken("correspondence:c19:" + stream, "%s: impl=%s model=%s (values differ: %s)" % (what, real, model_line[:300], detail))


def norm_pieces(I, conds):
    """Normalise the bodies and bounds of integrals / evaluations without evaluating them (the rules normalise piecewise)."""
    E = I.expr
    C = I.conditions.Conditions(conds)
    N = I.poly.normalize

    def rec(e):
        if e.ty == E.INTEGRAL:
            return E.Integral(e.var, N(e.lower, C), N(e.upper, C), N(e.body, C))
        if e.ty == E.EVAL_AT:
            return E.EvalAt(e.var, N(e.lower, C), N(e.upper, C), N(e.body, C))
        if e.ty == E.OP:
            return E.Op(e.op, *[rec(a) for a in e.args])
        return N(e, C)
    return rec


def rule_models_stream(ctx, I, n):
    E, R = I.expr, I.rules
    P = I.parser.parse_expr
    rng = ctx.rng("rule-models")
    judge = StepJudge(I, rng, nsamples=2, budget_s=4.0)
    with quiet():
        conds = [P("a > 0"), P("b > 0")]
    hctx = I.context.Context()
    for c in conds:
        hctx.add_condition(c)
    bctx = I.context.Context()
    try:
        with quiet():
            bctx.load_book("base")
    except Exception:  # noqa
        pass
    norm = norm_pieces(I, conds)
    jobs = []        # (kind, what, real, driver line)
    for k in range(n):
        kind = rng.choice(["subst", "subst", "parts", "parts", "ftc"])
        lo, hi, c, _q = gen_bounds(I, rng)
        try:
            with quiet():
                if kind == "subst":
                    g = P(rng.choice(["x ^ 2", "2 * x + 1", "exp(x)", "log(x)", "sin(x)", "sqrt(x)", "x ^ 2 + 1", "a * x", "x + a", "1 / x", "x ^ 3",
                                      "cos(x)", "-x", "1 - x", "exp(-x)"]))
                    f = P(rng.choice(["u", "u ^ 2", "exp(u)", "1 / (u + 1)", "sqrt(u + 1)", "sin(u)", "log(u + 2)", "u * exp(u)", "1 / (u ^ 2 + 1)",
                                      "a * u", "cos(u) ^ 2"]))
                    dg = R.deriv("x", g, hctx)
                    before = E.Integral("x", lo, hi, f.subst("u", g) * dg)
                    rule = R.Substitution("u", g)
                    # record what the rule's `normalize(body / deriv(g))` returns
                    rec = []
                    orig = R.normalize

                    def spy(e_, conds_=None, _orig=orig, _rec=rec):
                        r_ = _orig(e_, conds_)
                        _rec.append((e_, r_))
                        return r_
                    R.normalize = spy
                    try:
                        st, real = apply_rule(I, rule, P(str(before)), hctx)
                    finally:
                        R.normalize = orig
                    ctx.count("rule-models:subst:" + ("applied" if st == "ok" else st.split(":")[0]))
                    if st != "ok":
                        continue
                    body0 = P(str(before)).body
                    qs = [r_ for (e_, r_) in rec if e_.ty == E.OP and e_.op == "/" and len(e_.args) == 2 and same_expr(E, e_.args[0], body0)]
                    if not qs:
                        ctx.count("rule-models:subst:quotient-not-observed")
                        continue
                    q = qs[0]
                    # the rule swaps the bounds when it finds the new lower one numerically above the new upper one
                    try:
                        ga = two_prec(E, g.subst("x", lo), {"a": 1.3, "b": 0.7}, limit_s=2)
                        gb = two_prec(E, g.subst("x", hi), {"a": 1.3, "b": 0.7}, limit_s=2)
                        swap = bool(ga > gb) and not (g.get_vars() - {"x"})
                    except Unrel:
                        swap = False
                    sq, sg, sb = to_sexp(E, q), to_sexp(E, g), to_sexp(E, P(str(before)))
                    if sq is None or sg is None or sb is None:
                        continue
                    jobs.append(("subst", "substitute u for %s on %s" % (g, before), real, sexp.dumps(["subst", "u", sg, sq, swap, sb]), before))
                elif kind == "parts":
                    u = P(rng.choice(["x", "log(x)", "x ^ 2", "exp(x)", "sin(x)", "atan(x)", "x + a", "log(x) ^ 2", "cos(a * x)", "sqrt(x)"]))
                    v = P(rng.choice(["x", "x ^ 2 / 2", "exp(x)", "-cos(x)", "sin(x)", "x ^ 3 / 3", "log(x)", "exp(a * x) / a", "x ^ (a + 1) / (a + 1)"]))
                    dv = R.deriv("x", v, hctx)
                    # half of the integrands as a user would type them (dv * u, not in normal form): the rule normalises
                    # its input in place before comparing
                    before = E.Integral("x", lo, hi, I.poly.normalize(u * dv, hctx.get_conds()) if rng.random() < 0.5 else dv * u)
                    rule = R.IntegrationByParts(u, v)
                    st, real = apply_rule(I, rule, P(str(before)), hctx)
                    ctx.count("rule-models:parts:" + ("applied" if st == "ok" else st.split(":")[0]))
                    if st != "ok":
                        continue
                    su, sv, sb = to_sexp(E, u), to_sexp(E, v), to_sexp(E, P(str(before)))
                    if su is None or sv is None or sb is None:
                        continue
                    jobs.append(("parts", "parts u=%s v=%s on %s" % (u, v, before), real, sexp.dumps(["parts", su, sv, sb]), before))
                    # the acceptance test stands for  body = u * dv : check that numerically where it accepted
                    try:
                        verdict, detail = judge.judge(before.body, E.Op("*", u, I.parser.parse_expr(str(dv))), conds, {}, {}, set(), set())
                    except Exception:  # noqa
                        verdict, detail = "skip", None
                    ctx.count("rule-models:parts:accept-" + verdict.split(":")[0])
                    if verdict == "bad":
                        ctx.violation("parts-accept:%s:%s:%s" % (before, u, v), "IntegrationByParts(%s, %s) accepted the integrand %s, which is not u * dv: %s" % (
                            u, v, before.body, detail), {"kind": "rule", "rule": "parts", "before": str(before), "params": rule.export()})
                else:
                    body = P(rng.choice(["x ^ 2", "x ^ 3", "sin(x)", "cos(x)", "exp(x)", "1 / x", "1 / (x ^ 2 + 1)", "x", "sqrt(x)", "1 / sqrt(x)",
                                         "sec(x) ^ 2", "exp(a * x)", "sin(a * x)", "cos(a * x)", "x ^ a", "1 / (x + a)", "log(x)", "x ^ (1/3)"]))
                    before = E.Integral("x", lo, hi, body)
                    rule = R.DefiniteIntegralIdentity()
                    bh = I.context.Context(bctx)
                    for c_ in conds:
                        bh.add_condition(c_)
                    st, real = apply_rule(I, rule, P(str(before)), bh)
                    if st != "ok" or real.ty != E.EVAL_AT:
                        ctx.count("rule-models:ftc:" + ("no-table-entry" if st == "ok" else st.split(":")[0]))
                        continue
                    ctx.count("rule-models:ftc:applied")
                    sF, sb = to_sexp(E, real.body), to_sexp(E, P(str(before)))
                    if sF is None or sb is None:
                        continue
                    jobs.append(("ftc", "table antiderivative %s for %s" % (real.body, before), real, sexp.dumps(["ftc", sF, sb]), before))
                    ftc_hypothesis(ctx, I, "x", real.body, body, (lo, hi), conds, rng, "generated")
        except Timeout:
            raise
        except Exception as ex:  # noqa
            ctx.count("rule-models:%s:setup-%s" % (kind, type(ex).__name__))
            continue
    out = ctx.lean_driver(EXE, [j[3] for j in jobs]) if jobs else []
    if out is None:
        ctx.broken("correspondence:c19:driver", "model driver unavailable")
        return
    for (kind, what, real, line, before), ans in zip(jobs, out):
        ctx.case(("rule-model", kind, what), nontrivial=True)
        if kind == "subst" and same_expr(E, from_sexp(E, sexp.loads(ans)), before):
            ctx.count("rule-models:subst:branch-not-modelled")       # the rule went on to solve g = u for x
            continue
        model_vs_impl(ctx, I, "rule-models:" + kind, what, real, ans, judge, conds, norm)


def ftc_hypothesis(ctx, I, x, F, f, bounds, conds, rng, where):
    """`deriv_eq` of FtcOK on the real table: the derivative of the antiderivative the table gave is the integrand
    (normal forms first, then values at points of the interval)."""
    E = I.expr
    hctx = I.context.Context()
    for c in conds:
        hctx.add_condition(c)
    st, dF = run_deriv_impl(I, F, x, raw=False)
    if st != "ok":
        ctx.count("ftc-hypothesis:deriv-" + st.split(":")[0])
        return
    C = I.conditions.Conditions(conds)
    s1, n1 = impl_normalize(I, dF, C)
    s2, n2 = impl_normalize(I, f, C)
    if s1 == "ok" and s2 == "ok" and same_expr(E, n1, n2):
        ctx.count("ftc-hypothesis:same-normal-form")
        return
    names = (dF.get_vars() | f.get_vars()) - {x}
    good = 0
    for _ in range(8):
        env = sample_env(E, rng, names, conds, set())
        if env is None:
            break
        if bounds is not None:
            try:
                lo = float(two_prec(E, bounds[0], env, limit_s=2))
                hi = float(two_prec(E, bounds[1], env, limit_s=2))
            except Unrel:
                continue
            env[x] = lo + (hi - lo) * rng.uniform(0.05, 0.95)
        else:
            env[x] = round(rng.uniform(0.2, 1.5), 3)
        try:
            a = two_prec(E, dF, env, limit_s=3)
            b = two_prec(E, f, env, limit_s=3)
        except Unrel:
            continue
        good += 1
        if not close(a, b):
            ctx.violation("ftc-table:%s" % F, "the table antiderivative %s of %s does not have the integrand as derivative (%s): %s vs %s at %s" % (
                F, f, where, a, b, env), {"kind": "ftc", "F": ser_expr(E, F), "f": ser_expr(E, f), "conds": [str(c) for c in conds]})
            return
        if good >= 3:
            break
    ctx.count("ftc-hypothesis:" + ("same-values" if good else "undecided"))


def ftc_table_check(ctx, I):
    """Every indefinite-integral identity of the base book: D F = f."""
    E = I.expr
    rng = ctx.rng("ftc-table")
    bctx = I.context.Context()
    try:
        with quiet():
            bctx.load_book("base")
            idents = bctx.get_indefinite_integrals()
    except Exception as ex:  # noqa
        ctx.count("ftc-table:load-" + type(ex).__name__)
        return

    def unsym(e):
        """pattern symbols -> variables of the same name"""
        if e.ty == E.SYMBOL:
            return E.Var(e.name)
        if e.ty == E.OP:
            return E.Op(e.op, *[unsym(a) for a in e.args])
        if e.ty == E.FUN:
            return E.Fun(e.func_name, *[unsym(a) for a in e.args])
        if e.ty == E.INDEFINITEINTEGRAL:
            return E.IndefiniteIntegral(e.var, unsym(e.body), e.skolem_args)
        return e
    for ident in idents:
        try:
            lhs, rhs = unsym(ident.lhs), unsym(ident.rhs)
            if not (rhs.ty == E.OP and rhs.op == "+" and rhs.args[1].ty == E.SKOLEMFUNC):
                continue
            conds = [unsym(c) for c in (ident.conds.data if ident.conds is not None else [])]
            ctx.case(("ftc-table", str(lhs)), nontrivial=True)
            ctx.count("ftc-table:entries")
            ftc_hypothesis(ctx, I, lhs.var, rhs.args[0], lhs.body, None, conds, rng, "base book")
        except Exception as ex:  # noqa
            ctx.count("ftc-table:skip-" + type(ex).__name__)


# =====================================================================================================
# stream: Interval.sqrt / exp / log / contained_in / intersection against the model
# =====================================================================================================
def sbound_value(x):
    import math
    if x in ("-oo", "oo"):
        return float("-inf") if x == "-oo" else float("inf")
    if x[0] == "app":
        q = Fraction(int(x[2]), int(x[3]))
        return {"sqrt": math.sqrt, "exp": math.exp, "log": math.log}[x[1]](q)
    return float(Fraction(int(x[0]), int(x[1])))


def endpoint_float(I, e):
    """Value of a constant endpoint expression (expr.eval_expr does not know log)."""
    E = I.expr
    if e == E.POS_INF:
        return float("inf")
    if e == E.NEG_INF:
        return float("-inf")
    ne = NumEval(MP_HI, E)
    return float(ne.real(ne.ev(e, {})))


def interval_fun_stream(ctx, I, n):
    import math
    E = I.expr
    rng = ctx.rng("interval-fun")
    cases = [("isqrt", (Fraction(-1), Fraction(4), True, False), None), ("isqrt", (Fraction(0), Fraction(2), True, True), None),
             ("ilog", (Fraction(0), Fraction(2), True, False), None), ("iexp", ("-oo", Fraction(1), True, False), None),
             ("icontained", (Fraction(0), Fraction(1), False, False), (Fraction(0), Fraction(1), True, False)),
             ("icontained", ("-oo", Fraction(1), False, False), ("-oo", Fraction(1), True, False)),
             ("iinter", (Fraction(0), Fraction(3), False, False), (Fraction(1), "oo", True, True))]
    for _ in range(n):
        op = rng.choice(["isqrt", "iexp", "ilog", "icontained", "icontained", "iinter", "iinter"])
        a = gen_ival(rng)
        if op == "isqrt" and (a[1] == "-oo" or (a[1] != "oo" and a[1] < 0)):
            continue
        if op == "ilog" and (a[1] == "-oo" or (a[1] != "oo" and a[1] <= 0)):
            continue
        b = gen_ival(rng) if op in ("icontained", "iinter") else None
        if b is not None and rng.random() < 0.3:
            b = (a[0], a[1], rng.random() < 0.5, rng.random() < 0.5)       # equal endpoints, flags differ
        cases.append((op, a, b))
    interval_fun_cases(ctx, I, cases, rng)


def interval_fun_cases(ctx, I, cases, rng):
    import math
    E = I.expr
    lines = [sexp.dumps([op, s_ival(a)] + ([s_ival(b)] if b is not None else [])) for op, a, b in cases]
    out = ctx.lean_driver(EXE, lines)
    if out is None:
        ctx.broken("correspondence:c19:driver", "model driver unavailable")
        return
    nd = 0
    for (op, a, b), ans in zip(cases, out):
        ctx.case(("ival-fun", op, a, b), nontrivial=True)
        A = mk_interval(I, a)
        try:
            with quiet():
                if op == "isqrt":
                    r = A.sqrt()
                elif op == "iexp":
                    r = A.exp()
                elif op == "ilog":
                    r = A.log()
                elif op == "icontained":
                    r = A.contained_in(mk_interval(I, b))
                else:
                    r = A.intersection(mk_interval(I, b))
        except Exception as ex:  # noqa
            ctx.count("interval-fun:%s:raises" % op)
            continue
        ctx.count("interval-fun:%s:ok" % op)
        m = sexp.loads(ans)
        if op == "icontained":
            # The theorem is  model True => inclusion; what must transfer to the code is  impl True => model True.
            # The implementation may answer False where the exact model says True: it compares Fractions with
            # floats shifted by its tolerance (e.g. [5/3,5).contained_in([5/3,5)) is False because
            # Fraction(5,3) < float(5/3) - 1e-16 == float(5/3)); that is the safe direction and only counted.
            agree = (m == "T") or not r
            if m == "T" and not r:
                ctx.count("interval-fun:icontained:impl-more-conservative")
            impl_s = str(r)
        elif op == "iinter":
            impl_s = canon(s_ival(read_interval(I, r)))
            agree = (ans == impl_s)
        else:
            # endpoints are unevaluated constants on both sides: compare their values and the flags
            lo_i, hi_i = endpoint_float(I, r.start), endpoint_float(I, r.end)
            lo_m, hi_m = sbound_value(m[0]), sbound_value(m[1])
            same = lambda p, q: p == q or abs(p - q) <= 1e-12 * max(1.0, abs(p))      # noqa: E731
            agree = same(lo_i, lo_m) and same(hi_i, hi_m) and (m[2] == "T") == bool(r.left_open) and (m[3] == "T") == bool(r.right_open)
            impl_s = "%s" % r
        if not agree:
            nd += 1
            ctx.coverage["disagreements_checked"] += 1
            if nd <= 3:
                ctx.broken("correspondence:c19:interval-fun", "%s %s %s impl=%s model=%s" % (op, show_ival(a), show_ival(b) if b else "", impl_s, ans))
        # ---- property oracle on the implementation: sampled points
        if op in ("isqrt", "iexp", "ilog"):
            fn = {"isqrt": math.sqrt, "iexp": math.exp, "ilog": math.log}[op]
            lo_i, hi_i = endpoint_float(I, r.start), endpoint_float(I, r.end)
            for x in points_of(rng, a):
                if (op == "isqrt" and x < 0) or (op == "ilog" and x <= 0):
                    continue
                try:
                    y = fn(x)
                except (OverflowError, ValueError):
                    continue
                tol = 1e-12 * max(1.0, abs(y))
                exact_end = (op == "isqrt" and x == 0) or (op == "iexp" and x == 0) or (op == "ilog" and x == 1) or \
                    (a[0] not in ("-oo", "oo") and x == a[0]) or (a[1] not in ("-oo", "oo") and x == a[1])
                bad = y < lo_i - tol or y > hi_i + tol or \
                    (exact_end and ((r.left_open and y == lo_i) or (r.right_open and y == hi_i)) and (
                        (a[0] not in ("-oo", "oo") and x == a[0] and not a[2]) or (a[1] not in ("-oo", "oo") and x == a[1] and not a[3]) or
                        (op == "isqrt" and x == 0)))
                if bad:
                    ctx.violation("interval:%s:%s" % (op, show_ival(a)), "interval %s of %s = %s does not contain %s(%s) = %s" % (op, show_ival(a), r, op[1:], x, y),
                                  {"kind": "interval-fun", "op": op, "a": ser_ival(a)})
                    break
        elif op == "icontained" and r:
            Bv = b
            for x in points_of(rng, a):
                if not in_ival(Bv, x):
                    ctx.violation("interval:icontained:%s:%s" % (show_ival(a), show_ival(b)), "%s.contained_in(%s) is True but %s lies in the first only" % (
                        show_ival(a), show_ival(b), x), {"kind": "interval-fun", "op": op, "a": ser_ival(a), "b": ser_ival(b)})
                    break
        elif op == "iinter":
            ri = read_interval(I, r)
            for x in points_of(rng, a) + points_of(rng, b):
                if in_ival(ri, x) != (in_ival(a, x) and in_ival(b, x)):
                    ctx.violation("interval:iinter:%s:%s" % (show_ival(a), show_ival(b)), "intersection of %s and %s = %s is wrong at %s" % (
                        show_ival(a), show_ival(b), show_ival(ri), x), {"kind": "interval-fun", "op": op, "a": ser_ival(a), "b": ser_ival(b)})
                    break


# =====================================================================================================
# stream: HISTORIES on Calculation objects (going back to an earlier step, re-used substitution variables)
# =====================================================================================================
def judge_history_step(ctx, I, judge, calc, i, what, key, conds, ivars, hist=None):
    """Step i of a live calculation: the value of its result against the calculation's start, with the substitutions
    recorded by steps 0..i in force (up to an additive constant when antiderivatives are involved)."""
    E = I.expr
    substs = {}
    for st in calc.steps[:i + 1]:
        substs.update(st.rule.get_substs())
    try:
        with quiet():
            start = I.parser.parse_expr(str(calc.start))
        verdict, detail = judge.judge(start, calc.steps[i].res, conds, {}, substs, set(), ivars)
    except Exception as ex:  # noqa
        verdict, detail = "skip:evaluator-error:" + type(ex).__name__, None
    ctx.count("history:step:" + verdict.split(":")[0])
    if verdict == "bad":
        ctx.violation(key, "%s: step %d (%s) of the calculation starting at %s has the result %s, which no longer has the value of "
                      "the start: %s" % (what, i, calc.steps[i].rule, calc.start, calc.steps[i].res, detail),
                      {"kind": "history", "what": what, "key": key, "history": hist})
    return verdict


def history_rule(I, p):
    R, P = I.rules, I.parser.parse_expr
    if p[0] == "Substitution":
        return R.Substitution(p[1], P(p[2]))
    if p[0] == "IndefiniteIntegralIdentity":
        return R.IndefiniteIntegralIdentity()
    if p[0] == "FullSimplify":
        return R.FullSimplify()
    return R.ReplaceSubstitution()


def run_history(I, start, script):
    """script: list of ["do", item] | ["back", j, item] (item = ["Substitution", name, g] | [rule name]): perform_rule at the
    end / on step j (which cuts off the later steps, what the UI does through CalculationStep.perform_rule).  Returns
    the live Calculation."""
    script = [(op[0], (lambda it=op[1]: history_rule(I, it))) if op[0] == "do" else
              (op[0], op[1], (lambda it=op[2]: history_rule(I, it))) for op in script]
    cs = I.compstate
    with quiet():
        file = cs.CompFile("base", "c19_history")
        calc = file.add_calculation(start)
        for op in script:
            rule = op[1]() if op[0] == "do" else op[2]()
            cur = calc.last_expr if op[0] == "do" else calc.steps[op[1]].res
            if isinstance(rule, I.rules.Substitution):
                # re-using a name that still occurs (free, or as the variable of an integral not yet evaluated) is a
                # mistake of the user, not of the calculator: stop the history here
                nm = rule.var_name
                if nm in cur.get_vars() or nm in indef_vars(I.expr, cur):
                    break
            if op[0] == "do":
                calc.perform_rule(rule)
            else:
                calc.steps[op[1]].perform_rule(rule)
    return calc


def history_stream(ctx, I, n):
    """Generated histories:  sum of antiderivatives, each solved by  substitute u -> table -> replace substitution  with
    the SAME variable name u every time, interleaved with going back to an earlier step and re-doing the rule that was
    applied there (or `replace substitution`).  Every step of every history is judged against the start."""
    E, R = I.expr, I.rules
    P = I.parser.parse_expr
    rng = ctx.rng("history")
    judge = StepJudge(I, rng, nsamples=2, budget_s=4.0)
    outer = [("cos(%s)", "sin"), ("exp(%s)", "exp"), ("sin(%s)", "cos"), ("1 / (%s)", "log"), ("(%s) ^ 2", "pow")]
    for k in range(n):
        m = rng.choice([2, 2, 3])
        gs, parts = [], []
        while len(gs) < m:
            g = "%d * x + %d" % (rng.choice([1, 2, 3, 4, 5]), rng.choice([1, 2, 3]))
            if g.startswith("1 * "):
                g = g[4:]
            if g not in gs:
                gs.append(g)
        for g in gs:
            parts.append("(INT x. %s)" % (rng.choice(outer)[0] % g))
        start = " + ".join(parts)
        names = ["u"] * m if rng.random() < 0.75 else ["u", "v", "w"][:m]
        # forward plan: for each summand  substitute, table, replace substitution
        plan = []
        for g, nm in zip(gs, names):
            plan.append(("Substitution", nm, g))
            if not g.startswith("x"):
                plan.append(("FullSimplify",))          # moves the factor 1/a out so that the table applies
            plan.append(("IndefiniteIntegralIdentity",))
            plan.append(("ReplaceSubstitution",))

        # history: go forward some way, jump back to an earlier step and redo what was done there (or replace substitution)
        upto = rng.randint(3, len(plan))
        plan = [list(p) for p in plan]
        script = [["do", p] for p in plan[:upto]]
        back_to = rng.randint(0, upto - 2)
        redo = plan[back_to + 1] if rng.random() < 0.7 else ["ReplaceSubstitution"]
        script.append(["back", back_to, redo])
        tail = plan[back_to + 2:back_to + 2 + rng.randint(0, 3)] if redo == plan[back_to + 1] else []
        script += [["do", p] for p in tail]
        what = "start %s; forward %s; back to step %d and %s; then %s" % (
            start, [p[0] + (":" + p[2] if len(p) > 2 else "") for p in plan[:upto]], back_to, redo[0], [p[0] for p in tail])
        ctx.case(("history", what), nontrivial=True)
        try:
            with time_limit(60):
                calc = run_history(I, start, script)
                fwd = run_history(I, start, [["do", p] for p in plan[:back_to + 2 + len(tail)]]) if redo == plan[back_to + 1] else None
        except Timeout:
            ctx.count("history:timeout")
            continue
        except Exception as ex:  # noqa
            ctx.count("history:raises:" + type(ex).__name__)
            continue
        ctx.count("history:generated")
        # (1) redoing the same rule at an earlier step gives what the forward calculation gives
        if fwd is not None and len(fwd.steps) == len(calc.steps):
            for i, (a, b) in enumerate(zip(calc.steps, fwd.steps)):
                if not same_expr(E, a.res, b.res):
                    ctx.count("history:differs-from-forward")
        # (2) every step keeps the value of the start
        for i in range(len(calc.steps)):
            v = judge_history_step(ctx, I, judge, calc, i, what, "history:%s|back=%d|%s|step%d" % (start, back_to, redo[0], i), [], {"x"},
                                   {"start": start, "script": script})
            if v == "bad":
                break
    ctx.sample({"history": what} if n else {})


def example_histories(ctx, I, files, deadline=None, per_calc=2):
    """Histories from the recorded calculations: with all recorded steps in place, go back to step j and re-apply the
    recorded rule of step j+1 through CalculationStep.perform_rule; the result must be what the forward replay gives
    (same expression, else same value)."""
    E, cs = I.expr, I.compstate
    rng = ctx.rng("example-histories")
    judge = StepJudge(I, rng, nsamples=2, budget_s=4.0)
    for name, content in files:
        if deadline is not None and time.time() > deadline:
            ctx.count("example-histories:file-not-reached")
            continue
        book = find_book(ctx.repo, name)
        try:
            with quiet():
                file = cs.CompFile(book, name)
                for item in content:
                    file.add_item(cs.parse_item(file, copy.deepcopy(item)))
        except Exception:  # noqa
            continue
        for idx, item in enumerate(file.content):
            for label, calc, is_eq in walk_calcs(I, item, "%s#%d" % (name, idx)):
                nst = len(calc.steps)
                if nst < 2:
                    continue
                recorded = [st.res for st in calc.steps]
                exports = [copy.deepcopy(st.rule.export()) for st in calc.steps]
                has_substs = any(st.rule.get_substs() for st in calc.steps)
                for trial in range(per_calc + (1 if has_substs else 0)):
                    j = rng.randint(0, nst - 2)
                    # extra probe for calculations with substitutions: go back and apply `replace substitution`, which
                    # reads the table of substitutions in force
                    probe = has_substs and trial == per_calc
                    if probe:
                        exports_j1 = {"name": "ReplaceSubstitution", "str": "replace substitution"}
                    else:
                        exports_j1 = exports[j + 1]
                    key = "%s/back-to-step%d%s" % (label, j, "/replace-substitution" if probe else "")
                    ctx.case(("example-history", key), nontrivial=True)
                    # forward reference: rule j+1 in the context of steps 0..j (what Calculation.perform_rule builds)
                    saved = list(calc.steps)
                    try:
                        with quiet():
                            with time_limit(60):
                                hctx = I.context.Context(calc.ctx)
                                for st in saved[:j + 1]:
                                    hctx.extend_substs(st.rule.get_substs())
                                ref = mk_rule(I, copy.deepcopy(exports_j1)).eval(I.parser.parse_expr(str(recorded[j])), hctx)
                                # the history: all recorded steps present, go back to step j
                                calc.steps[j].perform_rule(mk_rule(I, copy.deepcopy(exports_j1)))
                                got = calc.steps[j + 1].res
                    except Timeout:
                        ctx.count("example-histories:timeout")
                        continue
                    except Exception as ex:  # noqa
                        ctx.count("example-histories:raises")
                        continue
                    finally:
                        calc.steps = saved
                    if same_expr(E, ref, got):
                        ctx.count("example-histories:same-as-forward")
                        continue
                    ctx.count("example-histories:differs-from-forward")
                    substs = {}
                    for st in saved[:j + 2]:
                        substs.update(st.rule.get_substs())
                    try:
                        verdict, detail = judge.judge(ref, got, list(calc.ctx.get_conds().data), defs_of(I, calc.ctx), substs, set(), set())
                    except Exception:  # noqa
                        verdict, detail = "skip", None
                    if verdict == "bad":
                        ctx.violation("example-history:" + key, "going back to step %d of %s and re-applying the recorded rule %s gives %s, the "
                                      "forward calculation gives %s: %s" % (j, label, exports_j1.get("name"), got, ref, detail),
                                      {"kind": "example-history", "file": name, "key": key})


# =====================================================================================================
# stream: Equation / SubstitutionInverse / IntegrateByEquation against equationM / substInvM / getCoeff, ibeM
# =====================================================================================================
def spy_normalize(I):
    """Context manager recording the (argument, result) pairs of rules.normalize."""
    @contextlib.contextmanager
    def cm():
        R = I.rules
        rec = []
        orig = R.normalize

        def spy(e_, conds_=None):
            r_ = orig(e_, conds_)
            rec.append((e_, r_))
            return r_
        R.normalize = spy
        try:
            yield rec
        finally:
            R.normalize = orig
    return cm()


def rule_models2_stream(ctx, I, n):
    E, R = I.expr, I.rules
    P = I.parser.parse_expr
    rng = ctx.rng("rule-models2")
    judge = StepJudge(I, rng, nsamples=2, budget_s=4.0)
    with quiet():
        conds = [P("a > 0"), P("b > 0")]
    hctx = I.context.Context()
    for c in conds:
        hctx.add_condition(c)
    norm = norm_pieces(I, conds)
    pairs = [("x + x", "2 * x"), ("sin(x) ^ 2 + cos(x) ^ 2", "1"), ("(x + 1) ^ 2", "x ^ 2 + 2 * x + 1"), ("x * x", "x ^ 2"),
             ("a * x + b * x", "(a + b) * x"), ("exp(x) * exp(a)", "exp(x + a)"), ("1 / x + 1", "(x + 1) / x"), ("x - x", "0"),
             ("2 * (x + a)", "2 * x + 2 * a"), ("x ^ 2 - 1", "(x - 1) * (x + 1)"), ("x + x", "3 * x"), ("x * x", "x ^ 3")]
    frames = ["OLD", "sin(OLD) + OLD", "INT x:[1,2]. OLD * exp(x)", "(INT x:[1,2]. cos(OLD)) + OLD", "a * OLD / (1 + OLD ^ 2)",
              "INT x:[OLD,3]. x", "[OLD * x]_x=1,2", "1 + x", "log(2 + (OLD) ^ 2) - (OLD)", "INT x:[1,2]. INT y:[0,x]. y * (OLD)"]
    jobs = []
    for k in range(n):
        kind = rng.choice(["equation", "equation", "substinv", "ibe"])
        try:
            with quiet():
                if kind == "equation":
                    old_s, new_s = rng.choice(pairs)
                    e = P(rng.choice(frames).replace("OLD", "(" + old_s + ")"))
                    old, new = P(old_s), P(new_s)
                    rule = R.Equation(old, new)
                    st, real = apply_rule(I, rule, P(str(e)), hctx)
                    ctx.count("rule-models2:equation:" + ("applied" if st == "ok" else st.split(":")[0]))
                    if st not in ("ok", "rejected"):
                        continue
                    so, sn, se = to_sexp(E, old), to_sexp(E, new), to_sexp(E, P(str(e)))
                    if so is None or sn is None or se is None:
                        continue
                    found = len(P(str(e)).find_subexpr(old)) > 0
                    accepted = (st == "ok")
                    jobs.append(("equation", "rewrite %s to %s in %s" % (old, new, e), real, sexp.dumps(["equation", so, sn, accepted or not found, se]), e))
                    if accepted:
                        # the acceptance test stands for  old = new (under the conditions): judge it
                        try:
                            verdict, detail = judge.judge(old, new, conds, {}, {}, set(), set())
                        except Exception:  # noqa
                            verdict, detail = "skip", None
                        ctx.count("rule-models2:equation:accept-" + verdict.split(":")[0])
                        if verdict == "bad":
                            ctx.violation("equation-accept:%s:%s" % (old, new), "Equation accepted rewriting %s to %s, which have different values: %s" % (
                                old, new, detail), {"kind": "rule", "rule": "equation", "before": str(e), "params": rule.export()})
                elif kind == "substinv":
                    lo, hi, c, _q = gen_bounds(I, rng)
                    h = P(rng.choice(["2 * u", "u ^ 2", "sin(u)", "exp(u)", "u + 1", "tan(u)", "1 / u", "3 * u - 1", "u / 2", "sqrt(u)"]))
                    body = gen_integrand(I, rng, rng.choice([0, 1, 1, 2]))
                    before = E.Integral("x", lo, hi, body)
                    rule = R.SubstitutionInverse("u", h)
                    st, real = apply_rule(I, rule, P(str(before)), hctx)
                    ctx.count("rule-models2:substinv:" + ("applied" if st == "ok" else st.split(":")[0]))
                    if st != "ok":
                        continue
                    swap = real.ty == E.OP and len(real.args) == 1
                    it = real.args[0] if swap else real
                    if it.ty != E.INTEGRAL:
                        continue
                    lo2, hi2 = (it.upper, it.lower) if swap else (it.lower, it.upper)
                    sx = [to_sexp(E, t) for t in (h, lo2, hi2, P(str(before)))]
                    if any(t is None for t in sx):
                        continue
                    jobs.append(("substinv", "x = %s on %s" % (h, before), real, sexp.dumps(["substinv", "u", sx[0], sx[1], sx[2], swap, sx[3]]), before))
                    # hypotheses lo_eq / hi_eq of SubstInvOK: the computed bounds are mapped to the old ones
                    for newb, oldb, nm in ((lo2, lo, "lower"), (hi2, hi, "upper")):
                        try:
                            verdict, detail = judge.judge(h.subst("u", newb), oldb, conds, {}, {}, set(), set())
                        except Exception:  # noqa
                            verdict, detail = "skip", None
                        ctx.count("rule-models2:substinv:bound-" + verdict.split(":")[0])
                        if verdict == "bad":
                            ctx.violation("substinv-bounds:%s:%s" % (before, h), "SubstitutionInverse(u, %s) on %s computed the %s bound %s, which h does not map "
                                          "to %s: %s" % (h, before, nm, newb, oldb, detail),
                                          {"kind": "rule", "rule": "subst-inv", "before": str(before), "params": rule.export()})
                else:
                    L = P(rng.choice(["INT x:[0,1]. exp(x) * sin(x)", "INT x:[0,pi]. exp(-x) * cos(x)", "INT x:[1,2]. sin(log(x))",
                                      "INT x:[0,1]. exp(a * x) * cos(b * x)"]))
                    c1 = rng.choice(["exp(1) * sin(1)", "2", "a + 1", "-(exp(1) * cos(1)) + 1", "pi / 2"])
                    form = rng.choice(["%s - L", "%s - 2 * L", "%s + L / 2", "-(3 * L) + %s", "%s - a * L", "(%s - L) / 2", "%s + 1/3 * L - L"])
                    e = P((form % c1).replace("L", "(" + str(L) + ")"))
                    rule = R.IntegrateByEquation(L)
                    with spy_normalize(I) as rec:
                        st, real = apply_rule(I, rule, P(str(e)), hctx)
                    ctx.count("rule-models2:ibe:" + ("applied" if st == "ok" else st.split(":")[0]))
                    if st != "ok" or len(rec) < 3:
                        continue
                    ne, Ln, cn = rec[0][1], rec[1][1], rec[2][1]
                    sx = [to_sexp(E, t) for t in (Ln, ne, cn)]
                    if any(t is None for t in sx):
                        continue
                    jobs.append(("getcoeff", "coefficient of %s in %s" % (Ln, ne), cn, sexp.dumps(["getcoeff", sx[0], sx[1]]), e))
                    jobs.append(("ibe", "solve %s = %s" % (L, e), real, sexp.dumps(["ibe", sx[0], sx[1], sx[2]]), e))
        except Timeout:
            raise
        except Exception as ex:  # noqa
            ctx.count("rule-models2:%s:setup-%s" % (kind, type(ex).__name__))
            continue
    out = ctx.lean_driver(EXE, [j[3] for j in jobs]) if jobs else []
    if out is None:
        ctx.broken("correspondence:c19:driver", "model driver unavailable")
        return
    for (kind, what, real, line, before), ans in zip(jobs, out):
        ctx.case(("rule-model2", kind, what), nontrivial=True)
        if kind == "equation":
            if real is None or ans == "raises":
                if (real is None) != (ans == "raises"):
                    ctx.count("rule-models2:equation:raise-mismatch")
                else:
                    ctx.count("rule-models2:equation:both-decline")
                continue
            ans = sexp.dumps(sexp.loads(ans)[1])
        model_vs_impl(ctx, I, "rule-models2:" + kind, what, real, ans, judge, conds, norm)


# =====================================================================================================
# parsing must not depend on what rules did to earlier parse results (rules such as IntegrationByParts rewrite
# their input in place: harmless as long as every parse returns a fresh expression)
# =====================================================================================================
PARSE_DRIFT = []


def text_parse(I, text):
    try:
        with quiet():
            return str(I.parser.parse_expr(text))
    except Exception:  # noqa
        return None


def note_parse_drift(I, rule, text, before_print):
    """After a rule application: parsing the text of its input again must print as it did before."""
    if before_print is None:
        return
    again = text_parse(I, text)
    if again is not None and again != before_print and len(PARSE_DRIFT) < 20:
        try:
            params = rule.export()
        except Exception:  # noqa
            params = {"name": type(rule).__name__}
        PARSE_DRIFT.append({"text": text, "before": before_print, "after": again, "rule": str(rule), "params": params})


def report_parse_drift(ctx):
    for d in PARSE_DRIFT:
        ctx.violation("parse-drift:%s" % d["text"], "after applying '%s', parse_expr(%r) gives %s (it gave %s before): the parser hands out an "
                      "expression that a rule has rewritten in place" % (d["rule"], d["text"], d["after"], d["before"]),
                      {"kind": "parse-drift", "text": d["text"], "params": d["params"]})
    ctx.count("parse-drift:checked-applications", PARSE_DRIFT_CHECKS[0])
    del PARSE_DRIFT[:]


PARSE_DRIFT_CHECKS = [0]


# =====================================================================================================
# stream: identities with several side conditions are applied only when ALL of them follow from the calculation's
# conditions (DefiniteIntegralIdentity on book identities and on goals of the file stated under conditions)
# =====================================================================================================
def negate_cond(E, c):
    flip = {">": "<", "<": ">", ">=": "<", "<=": ">", "!=": "="}
    if c.ty == E.OP and c.op in flip:
        return E.Op(flip[c.op], c.args[0], c.args[1])
    return None


def identity_conditions_stream(ctx, I, n):
    E, R, cs = I.expr, I.rules, I.compstate
    P = I.parser.parse_expr
    rng = ctx.rng("identity-conds")

    def unsym(e):
        if e.ty == E.SYMBOL:
            return E.Var(e.name)
        if e.ty == E.OP:
            return E.Op(e.op, *[unsym(a) for a in e.args])
        if e.ty == E.FUN:
            return E.Fun(e.func_name, *[unsym(a) for a in e.args])
        if e.ty == E.INTEGRAL:
            return E.Integral(e.var, unsym(e.lower), unsym(e.upper), unsym(e.body))
        return e
    # (1) the book's identities, (2) goals of a file stated under several conditions (they enter the context of later
    # items through CompFile.get_context)
    idents = []
    try:
        with quiet():
            bctx = I.context.Context()
            bctx.load_book("base")
            file = cs.CompFile("base", "c19_identity_conditions")
            file.add_goal("(INT x:[0,oo]. exp(-(a * x)) * sin(b * x)) = b / (a ^ 2 + b ^ 2)", conds=["a > 0", "b > 0"])
            file.add_goal("(INT x:[0,1]. x ^ (p - 1) * (1 - x) ^ (q - 1)) = Gamma(p) * Gamma(q) / Gamma(p + q)", conds=["p > 0", "q > 0"])
            file.add_goal("(INT x:[1,oo]. x ^ (-s) * log(x) ^ k) = factorial(k) / (s - 1) ^ (k + 1)", conds=["s > 1", "k >= 0"])
            fctx = file.get_context()
        for src, c in (("base book", bctx), ("goals of the file", fctx)):
            for ident in c.get_definite_integrals():
                if ident.conds is not None and len(ident.conds.data) >= 2:
                    idents.append((src, c, ident))
    except Exception as ex:  # noqa
        ctx.count("identity-conds:setup-" + type(ex).__name__)
        return
    seen = set()
    idents = [t for t in idents if not (str(t[2].lhs) in seen or seen.add(str(t[2].lhs)))]
    ctx.count("identity-conds:identities", len(idents))
    rule = R.DefiniteIntegralIdentity()
    for src, c, ident in idents:
        e = unsym(ident.lhs)
        iconds = [unsym(x) for x in ident.conds.data]
        # every way of keeping / negating / dropping the identity's conditions as conditions of the calculation
        import itertools
        combos = list(itertools.product(("keep", "negate", "drop"), repeat=len(iconds)))
        rng.shuffle(combos)
        for combo in combos[:max(3, n)]:
            calc_conds = []
            for how, cnd in zip(combo, iconds):
                if how == "keep":
                    calc_conds.append(cnd)
                elif how == "negate":
                    nc = negate_cond(E, cnd)
                    if nc is not None:
                        calc_conds.append(nc)
            hctx = I.context.Context(c)
            for cnd in calc_conds:
                hctx.add_condition(cnd)
            st, r = apply_rule(I, rule, P(str(e)), hctx)
            key = "%s | %s" % (e, ", ".join(str(x) for x in calc_conds))
            ctx.case(("identity-conds", key), nontrivial=True)
            if st != "ok":
                ctx.count("identity-conds:" + st.split(":")[0])
                continue
            applied = not same_expr(E, r, P(str(e)))
            ctx.count("identity-conds:" + ("applied" if applied else "declined"))
            if not applied:
                continue
            # applied: every side condition of the identity must hold wherever the calculation's conditions do
            names = set()
            for x in iconds + calc_conds:
                names |= x.get_vars()
            bad = None
            for attempt in range(12):
                env = sample_env(E, rng, names, calc_conds, integer_vars(E, [e, unsym(ident.rhs)]),
                                 mode=("interior", "near", "wide")[attempt % 3])
                if env is None:
                    break
                for cnd in iconds:
                    if cond_holds(E, cnd, env) is False and cond_holds(E, negate_cond(E, cnd) or cnd, env) is True:
                        bad = (cnd, env)
                        break
                if bad:
                    break
            if bad:
                ctx.violation("identity-conds:" + key,
                              "DefiniteIntegralIdentity rewrote %s to %s using an identity (%s) stated under [%s], in a calculation whose "
                              "conditions [%s] admit %s, where the side condition %s fails" % (
                                  e, r, src, ", ".join(str(x) for x in iconds), ", ".join(str(x) for x in calc_conds), bad[1], bad[0]),
                              {"kind": "identity-conds", "expr": str(e), "calc_conds": [str(x) for x in calc_conds], "source": src})


# =====================================================================================================
# stream: bounds of expressions under interval conditions (Conditions.get_bounds_for_expr)
# =====================================================================================================
def gen_bounded_expr(E, rng, depth):
    """+ - * / natural powers, sqrt/exp/log/sin/cos: the operations interval.py propagates bounds through."""
    def rec(d):
        if d <= 0 or rng.random() < 0.25:
            return E.Var(rng.choice(["x", "y"])) if rng.random() < 0.65 else gen_const(E, rng)
        r = rng.random()
        if r < 0.55:
            return E.Op(rng.choice(["+", "-", "*", "*", "/"]), rec(d - 1), rec(d - 1))
        if r < 0.65:
            return E.Op("-", rec(d - 1))
        if r < 0.85:
            return E.Op("^", rec(d - 1), E.Const(rng.choice([0, 1, 2, 2, 3, 4, 5, 6])))
        return E.Fun(rng.choice(["exp", "sin", "cos", "sqrt", "log"]), rec(d - 1))
    return rec(depth)


def bounds_stream(ctx, I, n):
    E = I.expr
    rng = ctx.rng("bounds")
    mp = MP_LO
    for _ in range(n):
        ivs = {v: gen_ival(rng) for v in ("x", "y")}
        conds = []
        for v, (lo, hi, lo_open, hi_open) in ivs.items():
            if lo != "-oo":
                conds.append(E.Op(">" if lo_open else ">=", E.Var(v), E.Const(lo if lo.denominator != 1 else int(lo))))
            if hi != "oo":
                conds.append(E.Op("<" if hi_open else "<=", E.Var(v), E.Const(hi if hi.denominator != 1 else int(hi))))
        e = gen_bounded_expr(E, rng, rng.choice([1, 2, 2, 3]))
        bounds_case(ctx, I, e, conds, rng, ivs)


def ivs_of_conds(E, conds):
    ivs = {"x": ["-oo", "oo", True, True], "y": ["-oo", "oo", True, True]}
    for c in conds:
        v, q = c.args[0].name, frac_of(c.args[1].val)
        if c.op in (">", ">="):
            ivs[v][0], ivs[v][2] = q, c.op == ">"
        else:
            ivs[v][1], ivs[v][3] = q, c.op == "<"
    return {k: tuple(v) for k, v in ivs.items()}


def bounds_case(ctx, I, e, conds, rng, ivs=None):
    E = I.expr
    mp = MP_LO
    if ivs is None:
        ivs = ivs_of_conds(E, conds)
    for _ in range(1):
        ctx.case(("bounds", str(e), tuple(str(c) for c in conds)), nontrivial=e.ty not in (E.VAR, E.CONST))
        try:
            with quiet():
                with time_limit(20):
                    r = I.conditions.Conditions(conds).get_bounds_for_expr(e)
                    lo_f, hi_f = float(E.eval_expr(r.start)), float(E.eval_expr(r.end))
        except Timeout:
            ctx.count("bounds:timeout")
            continue
        except Exception as ex:  # noqa
            ctx.count("bounds:raises")
            continue
        ctx.count("bounds:ok")
        px = points_of(rng, ivs["x"]) or [None]
        py = points_of(rng, ivs["y"]) or [None]
        if px == [None] or py == [None]:
            continue
        checked = 0
        for x in px:
            for y in py:
                env = {"x": mp.mpf(x.numerator) / x.denominator, "y": mp.mpf(y.numerator) / y.denominator}
                ne = NumEval(mp, E)
                try:
                    v = ne.finite(ne.ev(e, env))
                    ok_domain = domain_ok(E, ne, e, env)
                except Unrel:
                    continue
                if not ok_domain:
                    continue
                checked += 1
                tol = 1e-9 * max(1, abs(v))
                out = (v < lo_f - tol) or (v > hi_f + tol) or (r.left_open and abs(v - lo_f) <= 0 and exactly(E, e, x, y, r.start)) \
                    or (r.right_open and abs(v - hi_f) <= 0 and exactly(E, e, x, y, r.end))
                if out:
                    ctx.violation("bounds:%s | %s" % (e, ", ".join(str(c) for c in conds)),
                                  "get_bounds_for_expr(%s) under [%s] = %s does not contain the value %s at x=%s, y=%s" % (
                                      e, ", ".join(str(c) for c in conds), r, v, x, y),
                                  {"kind": "bounds", "expr": ser_expr(E, e), "conds": [ser_expr(E, c) for c in conds], "x": str(x), "y": str(y)})
                    break
            else:
                continue
            break
        ctx.count("bounds:points", checked)


def domain_ok(E, ne, e, env):
    """Every sqrt/log argument non-negative/positive and every divisor non-zero at env, and no 0 ^ 0 (the enclosure is
    claimed for points where the expression is defined)."""
    if e.ty in (E.OP, E.FUN):
        for a in e.args:
            if not domain_ok(E, ne, a, env):
                return False
        if e.ty == E.OP and e.op == "/" and ne.ev(e.args[1], env) == 0:
            return False
        if e.ty == E.FUN and e.func_name == "sqrt" and ne.ev(e.args[0], env) < 0:
            return False
        if e.ty == E.FUN and e.func_name == "log" and ne.ev(e.args[0], env) <= 0:
            return False
    return True


def exact_eval(E, e, env):
    """Exact rational value of a + - * / ^nat expression (None when a transcendental function occurs)."""
    if e.ty == E.VAR:
        return env[e.name]
    if e.ty == E.CONST:
        return frac_of(e.val)
    if e.ty == E.OP:
        if len(e.args) == 1:
            a = exact_eval(E, e.args[0], env)
            return None if a is None else -a
        a, b = exact_eval(E, e.args[0], env), exact_eval(E, e.args[1], env)
        if a is None or b is None:
            return None
        if e.op == "+":
            return a + b
        if e.op == "-":
            return a - b
        if e.op == "*":
            return a * b
        if e.op == "/":
            return None if b == 0 else a / b
        if e.op == "^" and b.denominator == 1 and b >= 0:
            return a ** int(b)
    if e.ty == E.FUN and e.func_name == "sqrt" and len(e.args) == 1:
        a = exact_eval(E, e.args[0], env)
        if a is not None and a >= 0:
            import math
            n, d = math.isqrt(a.numerator), math.isqrt(a.denominator)
            if n * n == a.numerator and d * d == a.denominator:
                return Fraction(n, d)
    return None


def exactly(E, e, x, y, endpoint):
    """The exact value equals an (open) endpoint -- decided in rational arithmetic only."""
    v = exact_eval(E, e, {"x": x, "y": y})
    try:
        ep = E.eval_expr(endpoint)
    except Exception:  # noqa
        return False
    if v is None or isinstance(ep, float):
        return False
    return v == Fraction(ep)


# =====================================================================================================
# serialisation of arbitrary expressions for replay files
# =====================================================================================================
def ser_expr(E, e):
    ty = e.ty
    if ty == E.VAR:
        return ["var", e.name]
    if ty == E.CONST:
        q = frac_of(e.val)
        return ["const", q.numerator, q.denominator]
    if ty == E.INF:
        return ["inf", e == E.POS_INF]
    if ty == E.OP:
        return ["op", e.op] + [ser_expr(E, a) for a in e.args]
    if ty == E.FUN:
        return ["fun", e.func_name] + [ser_expr(E, a) for a in e.args]
    if ty == E.INTEGRAL:
        return ["integral", e.var, ser_expr(E, e.lower), ser_expr(E, e.upper), ser_expr(E, e.body)]
    if ty == E.EVAL_AT:
        return ["evalat", e.var, ser_expr(E, e.lower), ser_expr(E, e.upper), ser_expr(E, e.body)]
    if ty == E.SUMMATION:
        return ["sum", e.index_var, ser_expr(E, e.lower), ser_expr(E, e.upper), ser_expr(E, e.body)]
    if ty == E.DERIV:
        return ["deriv", e.var, ser_expr(E, e.body)]
    if ty == E.DIFFERENTIAL:
        return ["diff", ser_expr(E, e.body)]
    if ty == E.INDEFINITEINTEGRAL:
        return ["indef", e.var, list(e.skolem_args), ser_expr(E, e.body)]
    if ty == E.LIMIT:
        return ["limit", e.var, ser_expr(E, e.lim), e.drt, ser_expr(E, e.body)]
    if ty == E.SKOLEMFUNC:
        return ["skolem", e.name] + [ser_expr(E, a) for a in e.dependent_vars]
    return ["?", str(e)]


def deser_expr(E, x):
    k = x[0]
    if k == "var":
        return E.Var(x[1])
    if k == "const":
        q = Fraction(x[1], x[2])
        return E.Const(q if q.denominator != 1 else int(q))
    if k == "inf":
        return E.POS_INF if x[1] else E.NEG_INF
    if k == "op":
        return E.Op(x[1], *[deser_expr(E, a) for a in x[2:]])
    if k == "fun":
        return E.Fun(x[1], *[deser_expr(E, a) for a in x[2:]])
    if k == "integral":
        return E.Integral(x[1], deser_expr(E, x[2]), deser_expr(E, x[3]), deser_expr(E, x[4]))
    if k == "evalat":
        return E.EvalAt(x[1], deser_expr(E, x[2]), deser_expr(E, x[3]), deser_expr(E, x[4]))
    if k == "sum":
        return E.Summation(x[1], deser_expr(E, x[2]), deser_expr(E, x[3]), deser_expr(E, x[4]))
    if k == "deriv":
        return E.Deriv(x[1], deser_expr(E, x[2]))
    if k == "diff":
        return E.Differential(deser_expr(E, x[1]))
    if k == "indef":
        return E.IndefiniteIntegral(x[1], deser_expr(E, x[3]), tuple(x[2]))
    if k == "limit":
        return E.Limit(x[1], deser_expr(E, x[2]), deser_expr(E, x[4]), x[3])
    if k == "skolem":
        return E.SkolemFunc(x[1], tuple(deser_expr(E, a) for a in x[2:]))
    raise ValueError(k)


# =====================================================================================================
# main
# =====================================================================================================
def load_corpus(ctx):
    p = os.path.join(ctx.verif, "corpus", "c19.json")
    if os.path.exists(p):
        with open(p) as f:
            return json.load(f)
    return []


def run_corpus(ctx, I):
    """Minimised past failures (the inputs of the repaired defects), replayed first."""
    for rp in load_corpus(ctx):
        replay_one(ctx, I, rp)
        ctx.count("corpus")


def run(ctx):
    ctx.coverage["rule"] = (
        "deriv: hand-written branch corpus + random expressions (depth<=4) over Var/Const(int, negative, fraction)/+ - * / ^/unary -/"
        "sin cos tan cot sec csc exp log sqrt atan asin acos acot abs/unknown f/pi G/Integral EvalAt Deriv, variable x among x,y,n; "
        "non-trivial = contains x and is not an atom. print/parse: the same generator (depth<=5) + human-style variants (spaces, dropped "
        "brackets, leading minus) + every expression string of integral/examples; rich round trip adds Limit(+-)/Summation/"
        "IndefiniteIntegral/Skolem/oo/relations. interval: random intervals with small rational or infinite endpoints and open/closed "
        "flags, operations + - neg * inverse / ^n (n<=6), every result also judged on rational sample points (attained endpoints, interior, "
        "near zero) in exact arithmetic; bounds: get_bounds_for_expr on + - * / ^n sqrt exp log sin cos expressions under interval "
        "conditions. normalize: corpus (incl. evaluations at singular end points) + random expressions, with/without x>0,y>0. "
        "poly: polynomial / rational-function fragment expressions (corpus of cancellation / zero-division / zero-power shapes + random, "
        "depth<=4, exponents -3..4, near-miss exponents) under 11 condition sets and the fragment subexpressions of integral/examples, "
        "real normalize vs normalizeM structurally + exact rational oracle. goalctx: case-split / induction histories on live Goal objects. "
        "linearity: Linearity / SplitRegion on corpus + generated definite integrals against linearityM / splitM. rule-models: generated "
        "Substitution / IntegrationByParts / DefiniteIntegralIdentity applications against substM / partsM / ftcM (normalize's result "
        "recorded from the real run), every base-book antiderivative differentiated; interval-fun: sqrt/exp/log/contained_in/"
        "intersection on random intervals against the model and on sampled points. rules: generated "
        "Linearity (integral, finite sum, antiderivative), SplitRegion, IntegrationByParts, Substitution, SubstitutionInverse, "
        "DerivIntExchange on integrands built from 24 atoms, rational bounds in [1/8, 9/4]. examples: recorded steps of the typed "
        "example files re-run through compstate and judged at >= 3 parameter points (interior / near the stated bounds / larger "
        "magnitude); thorough: all files; quick: the file group `seed mod 4` (a quarter of the steps) within a time cap -- see "
        "example_steps.coverage for what this run reached. distinct = by canonical input string.")
    use_module_findings(ctx)
    proofs_ok = ctx.lean_props(["Holpy.C19.Props", "Holpy.C19.Props2", "Holpy.C19.Props3", "Holpy.C19.Props4", "Holpy.C19.Props5"], exes=[EXE])
    if ctx.tier == "thorough" and proofs_ok:
        ctx.lean_check_modules(["Holpy.C19.Props", "Holpy.C19.Props2", "Holpy.C19.Props3", "Holpy.C19.Props4", "Holpy.C19.Props5"])
    ctx.coverage["trusted_base"] += [
        "Mathlib v4.33 analysis modules imported by the proof files (SpecialFunctions.*Deriv, Pow.Deriv, Sqrt, IntervalIntegral)",
        "correspondence harness harness/props/c19.py: generators, s-expression writer, replacement of rules.normalize by the identity "
        "in the harness process while observing deriv",
        "numerical oracle (mpmath quad/diff/limit/nsum at 20 and 40 digits): SUPPORTING EVIDENCE for the rules that no theorem covers; "
        "a step is judged only when both sides evaluate reliably at both precisions",
        "Lark's LALR construction and contextual lexer (the parser model was written against observed parse trees)"]
    ctx.assumptions += [
        "den interprets x ^ y as Real.rpow and division/log/sqrt outside their domain by Lean's conventions; DiffOK restricts to the domain",
        "Const values that are integers are Python ints (the a/b special case of Op.__str__ tests isinstance(val, int))",
        "print/parse round trip is claimed on the parser's image: no Const/Const quotient, no unary minus of a positive constant, "
        "no identifier spelled like a keyword or starting with oo/inf",
        "normalize_value reads division by zero by Lean's convention x / 0 = 0 and assumes the recorded is_nonzero answers true (NzOK) "
        "and no 0 ^ (non-positive) in the input (PowOK)",
        "normalize outside the polynomial fragment, limits, series, Substitution(Inverse), identities, definitions, FullSimplify, IntegrateByEquation etc. are judged by "
        "the numerical oracle only (recorded + generated applications), not by a theorem",
        "steps that fix a Skolem constant from a boundary value, divergent/oscillatory improper integrals and slowly converging "
        "series/limits are counted as skipped"]
    I = Impl()
    t0 = time.time()
    run_corpus(ctx, I)
    deriv_stream(ctx, I, ctx.scale(400, 6000))
    ctx.log("deriv stream done")
    ex_strings = example_roundtrip(ctx, I)
    rng = ctx.rng("example-parse")
    extra = ex_strings if ctx.tier == "thorough" else rng.sample(ex_strings, min(500, len(ex_strings)))
    print_parse_stream(ctx, I, ctx.scale(1200, 12000), extra_strings=extra)
    rich_roundtrip(ctx, I, ctx.scale(1500, 20000))
    ctx.log("print/parse streams done")
    interval_stream(ctx, I, ctx.scale(3000, 60000))
    bounds_stream(ctx, I, ctx.scale(1500, 20000))
    ctx.log("interval streams done")
    normalize_stream(ctx, I, ctx.scale(500, 8000))
    ctx.log("normalize stream done")
    from harness.props import c19_poly
    c19_poly.poly_model_stream(ctx, I, sys.modules[__name__], ctx.scale(700, 8000))
    c19_poly.poly_examples_stream(ctx, I, sys.modules[__name__], ex_strings, ctx.scale(400, 5000))
    ctx.log("normalize model (polynomial fragment) streams done")
    linearity_stream(ctx, I, ctx.scale(300, 4000))
    rule_models_stream(ctx, I, ctx.scale(60, 900))
    rule_models2_stream(ctx, I, ctx.scale(60, 900))
    identity_conditions_stream(ctx, I, ctx.scale(6, 9))
    ftc_table_check(ctx, I)
    interval_fun_stream(ctx, I, ctx.scale(1500, 30000))
    rules_stream(ctx, I, ctx.scale(80, 900))
    history_stream(ctx, I, ctx.scale(30, 400))
    from harness.props import c19_goalctx
    c19_goalctx.goal_context_stream(ctx, I, sys.modules[__name__], ctx.scale(40, 400))
    ctx.log("generated histories done")
    ctx.log("generated rule applications done")
    files = typed_example_files(ctx.repo)
    if os.environ.get("C19_REGEN_REPLAYABLE"):
        keys = []
        replay_examples(ctx, I, files, collect=keys)
        with open(os.path.join(ctx.verif, "corpus", "c19_replayable.json"), "w") as f:
            json.dump({"comment": "recorded steps whose rule re-runs without raising on the unchanged tree; "
                                  "regenerate with C19_REGEN_REPLAYABLE=1 ./check C19", "steps": sorted(keys),
                       "files": sorted({k.split("#")[0] for k in keys})}, f, indent=0)
        ctx.log("wrote corpus/c19_replayable.json (%d steps)" % len(keys))
    groups = example_groups(files, 4)
    if ctx.tier == "quick":
        # one quarter of the files per seed (seeds 0..3 together cover every file); the rest only if time is left
        g = ctx.seed % 4
        order = groups[g] + [f for k in range(1, 4) for f in groups[(g + k) % 4]]
        nsel = sum(nsteps_of(c) for _, c in groups[g])
    else:
        order = [f for grp in groups for f in grp]
        nsel = sum(nsteps_of(c) for _, c in order)
    example_histories(ctx, I, order, deadline=time.time() + ctx.scale(15, 120), per_calc=ctx.scale(1, 3))
    stats = replay_examples(ctx, I, order, deadline=time.time() + ctx.scale(95, 900))
    stats.pop("_slow", None)
    ntotal = sum(nsteps_of(c) for _, c in files)
    judged = sum(v for k, v in stats.items() if k in ("ok", "bad") or k.startswith("skip:"))
    stats["coverage"] = ("%d of the %d recorded steps reached this run (%d judged ok at %d parameter points in all, the others "
                         "skipped as unreliable); quick tier: the file group of seed %% 4 first (%d steps), all files over seeds 0-3"
                         % (judged, ntotal, stats.get("ok", 0), stats.get("points", 0), nsel))
    ctx.coverage["example_steps"] = stats
    ctx.log("recorded calculations done: %s" % {k: v for k, v in stats.items() if not k.startswith("rule:")})
    report_parse_drift(ctx)
    ctx.coverage["oracle_note"] = ("numerical judgements (mpmath) are supporting evidence, not proof; counts of skipped steps are in "
                                   "example_steps / histogram")


def mk_rule(I, params):
    """Rebuild a rule object from its `export()` dictionary."""
    R, P = I.rules, I.parser.parse_expr
    n = params.get("name")
    if n == "Linearity":
        return R.Linearity()
    if n == "DerivIntExchange":
        return R.DerivIntExchange()
    if n == "ExpandPolynomial":
        return R.ExpandPolynomial()
    if n == "SplitRegion":
        return R.SplitRegion(P(params["c"]))
    if n == "IntegrationByParts":
        return R.IntegrationByParts(P(params["u"]), P(params["v"]))
    if n == "Substitution":
        return R.Substitution(params["var_name"], P(params["var_subst"]))
    if n == "SubstitutionInverse":
        return R.SubstitutionInverse(params["var_name"], P(params["var_subst"]))
    return I.compstate.parse_rule(params)


def replay_one(ctx, I, rp):
    """Re-run one recorded failing input through the same oracle."""
    E = I.expr
    P = I.parser.parse_expr
    k = rp.get("kind")
    rng = ctx.rng("replay")
    if k == "deriv":
        with quiet():
            e = P(rp["expr"])
        deriv_oracle(ctx, I, e, rng, rp.get("var", "x"))
    elif k == "roundtrip":
        roundtrip_check(ctx, I, deser_expr(E, rp["expr"]), where="replay")
    elif k == "interval":
        a = deser_ival(rp["a"])
        b = deser_ival(rp["b"]) if rp.get("b") else None
        interval_cases(ctx, I, [(rp["op"], a, b, int(rp.get("n") or 0))], rng)
    elif k == "bounds":
        bounds_case(ctx, I, deser_expr(E, rp["expr"]), [deser_expr(E, c) for c in rp["conds"]], rng)
    elif k == "goalctx":
        from harness.props import c19_goalctx
        c19_goalctx.replay_goalctx(ctx, I, sys.modules[__name__], rp)
    elif k == "normalize":
        with quiet():
            e = P(rp["expr"])
            conds = [P(c) for c in rp.get("conds", [])]
        normalize_check(ctx, I, e, conds, rng)
        from harness.props import c19_poly
        c19_poly.poly_cases(ctx, I, sys.modules[__name__], [(e, conds)], rng, stream="poly-replay")
    elif k == "rule":
        with quiet():
            before = P(rp["before"])
            rule = mk_rule(I, dict(rp["params"]))
        rule_case(ctx, I, rp["rule"], before, rule, rng)
    elif k == "history":
        h = rp["history"]
        calc = run_history(I, h["start"], h["script"])
        judge = StepJudge(I, rng, nsamples=2, budget_s=10.0)
        for i in range(len(calc.steps)):
            if judge_history_step(ctx, I, judge, calc, i, rp.get("what", ""), rp["key"], [], {"x"}, h) == "bad":
                break
    elif k == "example-history":
        files = [f for f in typed_example_files(ctx.repo) if f[0] == rp["file"]]
        example_histories(ctx, I, files, per_calc=8)
    elif k == "parse-drift":
        with quiet():
            e0 = P(rp["text"])
            rule = mk_rule(I, dict(rp["params"]))
        with quiet():
            hc = I.context.Context()
            hc.add_condition(P("a > 0"))
            hc.add_condition(P("b > 0"))
        apply_rule(I, rule, e0, hc)
        report_parse_drift(ctx)
    elif k == "identity-conds":
        identity_conditions_stream(ctx, I, 9)
    elif k == "no-crash":
        # a rule may decline (AssertionError) or succeed, but must not die of a TypeError/AttributeError/...
        with quiet():
            before = P(rp["before"])
            rule = mk_rule(I, dict(rp["params"]))
        st, _r = apply_rule(I, rule, before)
        ctx.count("corpus:no-crash:" + st.split(":")[0])
        if st.startswith("raises:"):
            ctx.violation(rp["key"], "%s on %s dies with %s instead of declining" % (rule, rp["before"], st[7:]),
                          {"kind": "no-crash", "key": rp["key"], "before": rp["before"], "params": rp["params"]})
    elif k == "interval-fun":
        interval_fun_cases(ctx, I, [(rp["op"], deser_ival(rp["a"]), deser_ival(rp["b"]) if rp.get("b") else None)], rng)
    elif k == "ftc":
        ftc_hypothesis(ctx, I, "x", deser_expr(E, rp["F"]), deser_expr(E, rp["f"]), None, [P(c) for c in rp.get("conds", [])], rng, "replay")
    elif k == "example-step":
        files = [f for f in typed_example_files(ctx.repo) if f[0] == rp["file"]]
        replay_examples(ctx, I, files, only=rp["key"], budget_s=30)


def use_module_findings(ctx):
    """known_findings.json is generated from FINDINGS below; until it has been regenerated the list of this module
    is authoritative (same keys, so nothing is suppressed that the generated file would not suppress)."""
    have = {f["key"] for f in ctx.findings}
    ctx.findings += [dict(f, property=ctx.prop) for f in FINDINGS if f["key"] not in have]


def replay(ctx, rp):
    """Re-run one recorded failing input on the implementation; returns True if it still fails."""
    use_module_findings(ctx)
    I = Impl()
    replay_one(ctx, I, rp["replay"])
    for v in ctx.violations:
        print("still fails:", v[1][:500])
    for key, what in ctx.known_hits.items():
        print("still fails (listed as known):", what[:300])
    return bool(ctx.violations) or bool(ctx.known_hits)


MANIFEST = {
    "text": "Lean theorems (Mathlib analysis) about executable models of the calculator's logic cores, every model function compared "
            "with the real Python on generated inputs on every run. PROVED: deriv_correct / deriv_correct_fixed (every case of rules.deriv on the closed-form "
            "fragment, under the domain predicate DiffOK; deriv_fix_agrees: the function after fix C19-13, which regards D x. f as "
            "depending on x and is what the driver runs, coincides with the earlier model on expressions without derivative nodes); linearity_value (linearityM = Linearity.eval on definite integrals, under "
            "interval integrability of the parts); split_value (splitM = SplitRegion.eval without principal value); "
            "substitution_value (substM = Substitution.eval on a definite integral, branch where replacing g by u clears the old "
            "variable; the rule's normalize(body / deriv g) result and its bound-swap decision are oracle arguments recorded from the "
            "real run and the theorem holds for all of them; hypotheses SubstOK: u fresh, g differentiable with continuous non-vanishing "
            "derivative on the interval, the recorded quotient has the value of body/g', new integrand continuous on the image - the "
            "code checks none of these); parts_value (partsM = IntegrationByParts.eval after its acceptance test, which is replaced by "
            "the fact it stands for, body = u * deriv v; u, v differentiable, derivatives integrable); ftc_value ([F]_a^b = INT_a^b f "
            "when deriv F = f, the shape DefiniteIntegralIdentity produces from its table; the harness checks deriv F = f for every "
            "indefinite-integral identity of the base book and every one it sees used); substitution_inverse_value (substInvM = "
            "SubstitutionInverse.eval with the rule's computed bounds as oracle arguments; SubstInvOK: u fresh, h differentiable with "
            "continuous derivative, integrand continuous on the image, h maps the new bounds to the old ones - the harness checks the "
            "last numerically on every generated application); integrate_by_equation_value (ibeM = IntegrateByEquation.eval before its "
            "last normalize, given that the current expression has the value of L and the coefficient is not 1; the code does not test "
            "that: a numeric coefficient 1 makes its normalize raise ZeroDivisionError, a symbolic one is silently assumed != 1); "
            "equation_value_partial (equationM = Equation.eval: the first occurrence of old in find_subexpr order is replaced; value "
            "preserved when both sides have equal value in every environment; PARTIAL: the acceptance test - normal-form equality - is "
            "an oracle flag, and equality only under the conditions / inside the range of an enclosing integral is not covered); "
            "interval_encloses_add/neg/sub/mul/inverse/div/"
            "pow/sqrt/exp/log, interval_contained_in_sound, interval_intersection_mem (Interval arithmetic with open/closed flags and "
            "infinite endpoints; contained_in on exact endpoints); expr_parse_print_partial (token-level round trip of the printer's "
            "bracket rules through a model of the Lark grammar; lexing of the printed string is checked per case at run time, not "
            "proved); normalize_value, to_poly_value, from_poly_value, collect_pairs_power_value (poly.normalize = from_poly o to_poly "
            "on the POLYNOMIAL / RATIONAL-FUNCTION FRAGMENT - variables, rational constants, + - * /, unary minus, ^ with an integer "
            "constant exponent: normalizeM (Poly.lean) mirrors Expr.__lt__, collect_pairs_power, collect_pairs, Monomial/Polynomial "
            "construction and + - * / ** , to_const_poly on rational constants, to_poly, from_mono, from_poly statement by statement; "
            "Conditions.is_nonzero is an oracle list nz recorded from the real run; for EVERY expression on which the model returns, "
            "every nz and every environment where the members of nz are non-zero and no power has base value 0 with a non-positive "
            "exponent value (PowOK), the value of the result under den equals the value of the input; "
            "normalize_zero_pow_zero_counterexample: PowOK is needed, (x - x) ^ 0 is rewritten to 0). The model answers "
            "`unsupported` where the code leaves the fragment (fractional / symbolic exponents, functions, integrals, a literal "
            "0 ^ k with k <= 0): nothing is proved there. den is total (x / 0 = 0): the theorem does not say that the result is free of "
            "division by zero where the input is. "
            "Structural differences between model and code are re-judged on normal forms and values before anything is "
            "reported (the polynomial-fragment stream compares structurally and reports any difference). NOT PROVED (numerical oracle only; mpmath at two precisions, >= 3 admissible parameter points per step: "
            "interior, near the stated bounds, larger magnitude): normalize/Simplify/FullSimplify OUTSIDE the polynomial fragment "
            "(functions, roots and fractional powers, symbolic exponents, abs, trigonometric reductions, integrals, limits, "
            "evaluations, sums), idempotence of normalize, soundness of Conditions.is_nonzero, Substitution's second branch "
            "(solving g = u) and its computation of bounds by limits, SubstitutionInverse's bound computation, ApplyIdentity, the "
            "acceptance tests of Equation, ExpandPolynomial (to_poly arithmetic), limits, series, ElimInfInterval, LimitEquation, "
            "definitions, the other equation rules, DerivIntExchange, the Leibniz integral case of deriv, get_bounds_for_expr, "
            "Interval.sin/cos/from_condition and powers with an interval or non-natural exponent. Recorded steps of integral/examples: "
            "thorough re-runs all loadable recorded steps (time cap 15 min), quick one quarter of the files per run (group seed mod 4, "
            "95 s cap; seeds 0-3 together cover every file); about 15% of the steps cannot be evaluated reliably and are counted as "
            "skipped. A recorded step whose rule starts raising (corpus/c19_replayable.json) is reported. HISTORIES: generated "
            "calculations on live compstate.Calculation objects (substitute / table / replace substitution with re-used variable "
            "names, going back to an earlier step through CalculationStep.perform_rule and re-doing a rule there) have every step "
            "judged against the start with the substitutions in force, and every recorded calculation is re-done from a random "
            "earlier step and compared with the forward replay. After every rule application of every stream the text of the "
            "rule's input is parsed again and must print as before (rules such as IntegrationByParts rewrite their input in place, which "
            "is harmless only while every parse returns a fresh expression). Identities with several side conditions (base book and "
            "goals of a file stated under conditions) are applied under every keep/negate/drop combination of their conditions as "
            "conditions of the calculation; an application is reported when the calculation's conditions admit parameter values at "
            "which a side condition of the identity fails. POLYNOMIAL FRAGMENT STREAMS (c19_poly.py): generated fragment "
            "expressions (adversarial corpus: x / x, x * x ^ (-1), (x - x) ^ 0, 1 / (y - y), cancelling terms, nested powers, near "
            "misses with fractional / symbolic exponents) under 11 condition sets, and every maximal fragment subexpression of the "
            "expression strings recorded in integral/examples (inputs and outputs of the recorded Simplify steps among them): the real "
            "normalize result or ZeroDivisionError is compared STRUCTURALLY with normalizeM run on the recorded is_nonzero answers, "
            "Expr.__lt__ is compared with ltE on pairs, and the real result is judged in EXACT rational arithmetic at rational points "
            "satisfying the conditions (where the input is defined the output must be defined and equal). GOAL HISTORIES "
            "(c19_goalctx.py): goals with a parameter split by proof-by-cases (nested, or inside an induction step), branches visited in "
            "random order, Simplify / FullSimplify / ExpandPolynomial applied in each branch and every step judged at parameter "
            "values satisfying only the conditions stated for that branch and its enclosing goals.",
    "note": "Trusted: Lean kernel + propext/Classical.choice/Quot.sound, Mathlib analysis library, the harness generators and the numerical "
            "oracle (mpmath quadrature/differentiation/limits), Lark. The theorems about substM take normalize's output as given "
            "(value hypothesis qval) - normalize is proved value-preserving on the polynomial fragment only (normalize_value, with "
            "Conditions.is_nonzero's answers as an oracle assumed true: NzOK) and judged numerically elsewhere; SubstOK/PartsOK/FtcOK/LinOK spell out the analytic "
            "hypotheses the code does not check (differentiability, continuity, non-vanishing derivative, integrability, freshness of "
            "the new variable). deriv_correct excludes the Leibniz integral case. Conditions.get_bounds_for_expr as a whole, "
            "Interval.sin/cos, from_condition and ** with interval / fractional / negative exponents are unproved (oracle only). "
            "normalize's idempotence does not hold on the pinned tree (known finding).",
    "design_ref": "DESIGN.md 4/C19, 8.19",
}
FINDINGS = [
    {"status": "fixed", "key": "deriv-value:cot(x ^ 2)", "commit": "10bdfb1",
     "what": "deriv of cot(u) lacked the chain-rule factor: D x. cot(x^2) = -(csc(x^2)^2)"},
    {"status": "fixed", "key": "deriv-value:acot(x)", "commit": "83dd326",
     "what": "deriv of acot(x) evaluated to -1/(1+x)^2 (Python ^ binds weaker than +)"},
    {"status": "fixed", "key": "interval:imul:[0,1]:(0,1):", "commit": "f07c6ba",
     "what": "interval product flags: [0,1]*(0,1) = (0,1) excludes the attained 0; [-1,1]*[-1,1) = [-1,1) excludes the attained 1"},
    {"status": "fixed", "key": "interval:iinv:[-1,2]::", "commit": "2b6bed2",
     "what": "Interval.inverse of an interval with 0 inside returned [1/hi, 1/lo] (bounds 1/x on [-1,2] by [-1,1/2])"},
    {"status": "fixed", "key": "interval:ipow:[-2,1]::4", "commit": "2f4ff0d",
     "what": "Interval power with an even exponent other than 2 ignored the sign of the base: [-2,1]^4 = [16,1]"},
    {"status": "fixed", "key": "normalize-value:sqrt(-2 * x)", "commit": "f8fcda5",
     "what": "normalize dropped the coefficient under an even root of a negative-coefficient monomial: sqrt(-2*x) -> sqrt(-x)"},
    {"status": "fixed", "key": "normalize-value:atan(tan(x))", "commit": "0a2107d",
     "what": "normalize rewrote atan(tan(x)) to x without a branch condition"},
    {"status": "fixed", "key": "rule-value:DerivIntExchange:INT x:[0,1]. D a. sin(a * x):exchange derivative and integral",
     "commit": "8e6bc59",
     "what": "DerivIntExchange on INT x:[a,b]. D t. f swapped the bounds: D t. INT x:[b,a]. f (value negated)"},
    {"status": "fixed", "key": "bounds:sqrt(x) | x > -1, x <= 4", "commit": "fb1b50f",
     "what": "Interval.sqrt of an interval reaching below zero kept the open flag at 0: sqrt(x) for x in (-1,4] bounded by (0,2]"},
    {"status": "fixed", "key": "bounds:x ^ y | x >= 1/4, x <= 1/2, y >= 1, y <= 2", "commit": "0aa781a",
     "what": "Interval power with an interval exponent used [lo^elo, hi^ehi] also for bases below 1: [1/4,1/2]^[1,2] = [1/4,1/4]"},
    {"status": "fixed", "key": "crash:norm.minus_normal_definite_integral", "commit": "b74ba79",
     "what": "norm.minus_normal_definite_integral called to_poly without conds: Equation raised TypeError instead of declining "
             "(e.g. rewriting (INT x:[0,1]. x^2) - (INT y:[0,1]. y) to INT x:[0,1]. (x - 1) * x)"},
    {"status": "fixed", "key": "history:replace-substitution-under-open-integral", "commit": "bc85788",
     "what": "ReplaceSubstitution rewrote the bound variable of an integral still to be evaluated: (x + 3) ^ 3 / 3 + (INT u. 1/2 * u ^ 2) "
             "became ... + (INT u. 1/2 * (2 * x + 1) ^ 2) (value changed)"},
    {"status": "fixed", "key": "deriv-value:a ^ (D x. x ^ 2)", "commit": "3c72e0d",
     "what": "deriv treated a sub-expression D x. f as constant in x (get_vars counts the variable of a derivative as bound): "
             "deriv(a ^ (D x. x ^ 2)) = 0, deriv(x * (D x. x ^ 2)) = D x. x ^ 2"},
    {"status": "known", "key": "normalize-idempotent:second-pass-changes-form-only",
     "what": "normalize is not idempotent: a second pass reorders factors, distributes a rational coefficient or simplifies constants "
             "further (e.g. (x - y) / 5 -> 1/5 * (x - y) -> 1/5 * x - 1/5 * y); the value is unchanged (checked on every instance)"},
]
