"""C10 -- conversions prove equations about the given term; normal forms are canonical.

Stages (see `run`):
 1. Lean obligations (Holpy.C10.Props) + model driver `c10_model`.
 2. PROPERTY ORACLE on the implementation.  Every `Conv` subclass defined in logic/conv.py,
    data/nat.py, data/integer.py, data/real.py, data/proplogic.py and logic/logic.py is found by
    introspection; each has a generator of terms in its documented domain.  For a generated `t`:
    `get_proof_term(t)` either raises one of holpy's own exceptions (fine) or returns `pt` with
    `pt.prop` an equation, `pt.prop.lhs == t`, `pt.hyps` within the hypotheses of the supplied
    conditions, `theory.check_proof(pt.export())` accepting the same sequent, and -- where the
    class overrides `eval` -- `eval(t)` equal to `pt.th`.
 3. Canonicity / idempotence of the normalisers on pairs (t, t') where t' is a random
    rearrangement (assoc / comm / distribution / unit laws / duplicated members) of t.
 4. Correspondence of the Lean model (nat polynomial normaliser, conj/disj normaliser,
    combinators over toy rewrite rules) with the implementation on the same inputs.
"""
import inspect
import functools
import json
import os
from fractions import Fraction

from harness.common import sexp
from harness.common.ctx import Timeout, time_limit

EXE = "c10_model"
THEORY = "realintegral"
MODULES = ["logic.conv", "data.nat", "data.integer", "data.real", "data.proplogic", "logic.logic"]
VARS = {"m": "nat", "n": "nat", "k": "nat", "i": "int", "j": "int", "l": "int",
        "x": "real", "y": "real", "z": "real", "A": "bool", "B": "bool", "C": "bool", "D": "bool",
        "f": "nat => nat", "g": "nat => nat => nat", "P": "nat => bool", "h": "real => real",
        "fi": "int => int"}


# ====================================================================== environment
class Env:
    """Imports of the implementation (after the runner put ctx.repo on sys.path)."""

    def __init__(self, ctx):
        import importlib
        from kernel import term, theory, report, term_ord
        from kernel.type import NatType, IntType, RealType, BoolType, TFun
        from kernel.proofterm import ProofTerm, refl
        from kernel.thm import Thm
        from logic import basic, context
        from syntax import parser
        self.term, self.theory, self.report, self.term_ord = term, theory, report, term_ord
        self.ProofTerm, self.refl, self.Thm = ProofTerm, refl, Thm
        self.parser = parser
        self.mods = {name: importlib.import_module(name) for name in MODULES}
        self.conv, self.nat, self.integer = self.mods["logic.conv"], self.mods["data.nat"], self.mods["data.integer"]
        self.real, self.proplogic, self.logic = self.mods["data.real"], self.mods["data.proplogic"], self.mods["logic.logic"]
        from logic import auto
        self.auto = auto
        context.set_context(THEORY, vars=VARS)
        self.context = context
        self.T = {"nat": NatType, "int": IntType, "real": RealType, "bool": BoolType}
        self.TFun = TFun
        self.v = {nm: term.Var(nm, parser.parse_type(ty)) for nm, ty in VARS.items()}
        self.Conv = self.conv.Conv
        repo = os.path.realpath(ctx.repo)
        self.repo = repo

    def classes(self):
        """(module name, class name, class) for every Conv subclass defined in MODULES."""
        out = []
        for mn, m in self.mods.items():
            for n, c in inspect.getmembers(m, inspect.isclass):
                if issubclass(c, self.Conv) and c is not self.Conv and c.__module__ == mn:
                    out.append((mn, n, c))
        return out

    def own_error(self, e):
        """holpy's own failure signal: an exception class defined in the repo, AssertionError or
        NotImplementedError.  Everything else that is a builtin exception is a crash."""
        if isinstance(e, (AssertionError, NotImplementedError)):
            return True
        return type(e).__module__ != "builtins"


# ====================================================================== term <-> json
def tj(t):
    if t.is_var():
        return ["var", t.name, str(t.T)]
    if t.is_svar():
        return ["svar", t.name, str(t.T)]
    if t.is_const():
        return ["const", t.name, str(t.T)]
    if t.is_comb():
        return ["comb", tj(t.fun), tj(t.arg)]
    if t.is_abs():
        return ["abs", t.var_name, str(t.var_T), tj(t.body)]
    if t.is_bound():
        return ["bound", t.n]
    raise TypeError


def jt(env, j):
    T = env.term
    pt = env.parser.parse_type
    k = j[0]
    if k == "var":
        return T.Var(j[1], pt(j[2]))
    if k == "svar":
        return T.SVar(j[1], pt(j[2]))
    if k == "const":
        return T.Const(j[1], pt(j[2]))
    if k == "comb":
        return T.Comb(jt(env, j[1]), jt(env, j[2]))
    if k == "abs":
        return T.Abs(j[1], pt(j[2]), jt(env, j[3]))
    if k == "bound":
        return T.Bound(j[1])
    raise TypeError


# ====================================================================== arithmetic ASTs
# ('v', name) ('c', number) ('+',a,b) ('*',a,b) ('-',a,b) ('neg',a) ('S',a) ('^',a,k) ('/',a,c) ('app',fname,a)
def to_term(env, a, ty):
    T = env.term
    k = a[0]
    if k == "v":
        return env.v[a[1]]
    if k == "c":
        return T.Number(env.T[ty], a[1])
    if k == "+":
        return to_term(env, a[1], ty) + to_term(env, a[2], ty)
    if k == "*":
        return to_term(env, a[1], ty) * to_term(env, a[2], ty)
    if k == "-":
        return to_term(env, a[1], ty) - to_term(env, a[2], ty)
    if k == "neg":
        return -to_term(env, a[1], ty)
    if k == "S":
        return env.nat.Suc(to_term(env, a[1], ty))
    if k == "^":
        return to_term(env, a[1], ty) ** a[2]
    if k == "/":
        return to_term(env, a[1], ty) / T.Number(env.T[ty], a[2])
    if k == "^e":       # exponent given as a closed nat expression (e.g. 3 - 3)
        return to_term(env, a[1], ty) ** to_term(env, a[2], "nat")
    if k == "app":
        return env.v[a[1]](to_term(env, a[2], ty))
    raise TypeError(a)


TYVARS = {"nat": ["m", "n", "k"], "int": ["i", "j", "l"], "real": ["x", "y", "z"]}
TYFUN = {"nat": "f", "int": "fi", "real": "h"}


def gen_num(rng, ty, small=False):
    r = rng.random()
    if ty == "nat":
        return rng.choice([0, 1, 1, 2, 2, 3, 4, 5, 7, 10, 12]) if r < 0.9 else rng.randint(13, 40)
    if ty == "int":
        return rng.choice([0, 1, 1, 2, 3, 5, -1, -1, -2, -3, 6, -7])
    if r < 0.7 or small:
        return rng.choice([0, 1, 1, 2, 3, 5, -1, -2, -3, 4])
    return Fraction(rng.choice([1, -1, 2, 3, -3, 5]), rng.choice([2, 3, 4, 5]))


def gen_arith(rng, ty, depth, closed=False, ops="+*", atoms=True):
    """Random arithmetic AST.  ops: subset of + * - n(eg) S ^ / ; atoms: allow f(..) atoms."""
    if depth <= 0 or rng.random() < 0.22:
        r = rng.random()
        if closed or r < 0.3:
            return ("c", gen_num(rng, ty))
        if atoms and r > 0.93:
            return ("app", TYFUN[ty], ("v", rng.choice(TYVARS[ty])))
        return ("v", rng.choice(TYVARS[ty]))
    op = rng.choice(ops)
    if op == "+":
        return ("+", gen_arith(rng, ty, depth - 1, closed, ops, atoms), gen_arith(rng, ty, depth - 1, closed, ops, atoms))
    if op == "*":
        return ("*", gen_arith(rng, ty, depth - 1, closed, ops, atoms), gen_arith(rng, ty, depth - 1, closed, ops, atoms))
    if op == "-":
        return ("-", gen_arith(rng, ty, depth - 1, closed, ops, atoms), gen_arith(rng, ty, depth - 1, closed, ops, atoms))
    if op == "n":
        return ("neg", gen_arith(rng, ty, depth - 1, closed, ops, atoms))
    if op == "S":
        return ("S", gen_arith(rng, ty, depth - 1, closed, ops, atoms))
    if op == "^":
        base = ("v", rng.choice(TYVARS[ty])) if (ty != "real" or rng.random() < 0.5) and not closed \
            else gen_arith(rng, ty, min(depth - 1, 1), closed, ops.replace("^", "") or "+", atoms)
        return ("^", base, rng.choice([0, 1, 2, 2, 3]))
    if op == "/":
        c = gen_num(rng, ty)
        return ("/", gen_arith(rng, ty, depth - 1, closed, ops, atoms), c if c != 0 else 2)
    raise ValueError(op)


def rearrange(rng, a, ty, p=0.5):
    """A random expression equal to `a` as a polynomial: commutativity, associativity,
    distribution, unit laws, numeral splitting, doubling, Suc/+1, minus/neg unfolding.
    Opaque parts (nat subtraction, nat powers, function atoms) are left untouched."""
    k = a[0]
    if k in ("v", "app"):
        b = a
    elif k == "c":
        b = a
        n = a[1]
        if isinstance(n, int) and n >= 2 and rng.random() < p * 0.6:
            if rng.random() < 0.5:
                s = rng.randint(1, n - 1)
                b = ("+", ("c", s), ("c", n - s))
            else:
                ds = [d for d in range(2, n) if n % d == 0]
                if ds:
                    d = rng.choice(ds)
                    b = ("*", ("c", d), ("c", n // d))
        return b
    elif k in ("+", "*"):
        x, y = rearrange(rng, a[1], ty, p), rearrange(rng, a[2], ty, p)
        r = rng.random()
        if r < p * 0.45:
            x, y = y, x
        b = (k, x, y)
        r = rng.random()
        if r < p * 0.4 and y[0] == k:
            b = (k, (k, x, y[1]), y[2])
        elif r < p * 0.8 and x[0] == k:
            b = (k, x[1], (k, x[2], y))
        elif k == "*" and r < p * 1.2 and y[0] == "+":
            b = ("+", ("*", x, y[1]), ("*", x, y[2]))
        elif k == "*" and r < p * 1.5 and x[0] == "+":
            b = ("+", ("*", x[1], y), ("*", x[2], y))
        elif k == "+" and r < p * 1.2 and y == ("c", 1) and ty == "nat":
            b = ("S", x)
        elif k == "*" and x[0] == "c" and x[1] == 2 and r < p * 1.6:
            b = ("+", y, y)
    elif k == "S":
        x = rearrange(rng, a[1], ty, p)
        b = ("+", x, ("c", 1)) if rng.random() < p else ("S", x)
    elif k == "-":
        if ty == "nat":
            return a
        x, y = rearrange(rng, a[1], ty, p), rearrange(rng, a[2], ty, p)
        r = rng.random()
        b = ("+", x, ("neg", y)) if r < p * 0.4 else ("+", x, ("*", ("c", -1), y)) if r < p * 0.8 else ("-", x, y)
    elif k == "neg":
        x = rearrange(rng, a[1], ty, p)
        r = rng.random()
        b = ("*", ("c", -1), x) if r < p * 0.5 else ("neg", x)
    elif k == "^":
        if ty == "nat":
            return a
        base = a[1] if ty == "int" else rearrange(rng, a[1], ty, p)
        r = rng.random()
        if a[2] >= 2 and r < p * 0.6:
            b = ("*", base, ("^", a[1], a[2] - 1)) if a[2] > 2 else ("*", base, a[1])
        else:
            b = ("^", base, a[2])
    elif k == "^e":
        b = ("^e", a[1] if ty != "real" else rearrange(rng, a[1], ty, p), a[2])
    elif k == "/":
        x = rearrange(rng, a[1], ty, p)
        b = ("*", x, ("c", Fraction(1, 1) / a[2])) if ty == "real" and rng.random() < p * 0.5 else ("/", x, a[2])
    else:
        raise TypeError(a)
    r = rng.random()
    if r < p * 0.08:
        b = ("+", b, ("c", 0))
    elif r < p * 0.16:
        b = ("*", ("c", 1), b)
    elif r < p * 0.22:
        b = ("+", ("c", 0), b)
    elif r < p * 0.28:
        b = ("*", b, ("c", 1))
    return b


# ====================================================================== propositional ASTs
# ('a', name) ('t',) ('f',) ('not',p) ('and',p,q) ('or',p,q) ('imp',p,q) ('iff',p,q) ('le', m, n) nat atoms
def to_prop(env, a):
    T = env.term
    k = a[0]
    if k == "a":
        return env.v[a[1]]
    if k == "t":
        return T.true
    if k == "f":
        return T.false
    if k == "not":
        return T.Not(to_prop(env, a[1]))
    if k == "and":
        return T.And(to_prop(env, a[1]), to_prop(env, a[2]))
    if k == "or":
        return T.Or(to_prop(env, a[1]), to_prop(env, a[2]))
    if k == "imp":
        return T.Implies(to_prop(env, a[1]), to_prop(env, a[2]))
    if k == "iff":
        return T.Eq(to_prop(env, a[1]), to_prop(env, a[2]))
    if k == "P":
        return env.v["P"](env.v[a[1]])
    raise TypeError(a)


def gen_patom(rng, consts=0.0):
    r = rng.random()
    if r < consts:
        return rng.choice([("t",), ("f",)])
    if r > 0.9:
        return ("P", rng.choice(["m", "n"]))
    return ("a", rng.choice("ABCD"))


def gen_prop(rng, depth, ops=("not", "and", "or", "imp", "iff"), consts=0.08):
    if depth <= 0 or rng.random() < 0.25:
        return gen_patom(rng, consts)
    op = rng.choice(ops)
    if op == "not":
        return ("not", gen_prop(rng, depth - 1, ops, consts))
    return (op, gen_prop(rng, depth - 1, ops, consts), gen_prop(rng, depth - 1, ops, consts))


def gen_literal(rng, consts=0.0):
    a = gen_patom(rng, consts)
    return ("not", a) if rng.random() < 0.35 and a[0] not in "tf" else a


def build_assoc(rng, op, members):
    """Random binary tree with the given leaves in the given order."""
    if len(members) == 1:
        return members[0]
    s = rng.randint(1, len(members) - 1)
    return (op, build_assoc(rng, op, members[:s]), build_assoc(rng, op, members[s:]))


def right_assoc(op, members):
    if len(members) == 1:
        return members[0]
    return (op, members[0], right_assoc(op, members[1:]))


def shuffle_members(rng, members):
    """Same member set: permuted, with duplicates inserted."""
    ms = list(members)
    for _ in range(rng.choice([0, 0, 1, 2])):
        ms.append(rng.choice(members))
    rng.shuffle(ms)
    return ms


# ====================================================================== conversion expressions
def cond_pts(env, conds, kind):
    ts = [jt(env, c) for c in conds]
    if kind == "assume":
        return [env.ProofTerm.assume(t) for t in ts]
    return [env.ProofTerm.sorry(env.Thm(t)) for t in ts]


def build_cv(env, ce, hyps):
    """Conv object from a JSON conversion expression; hypotheses that the supplied conditions
    carry are added to `hyps` (a set of terms)."""
    C = env.conv
    k = ce[0]
    sub = lambda c: build_cv(env, c, hyps)  # noqa
    if k == "all":
        return C.all_conv()
    if k == "no":
        return C.no_conv()
    if k == "beta":
        return C.beta_conv()
    if k == "beta_norm":
        return C.beta_norm_conv()
    if k == "eta":
        return C.eta_conv()
    if k == "rewr":
        pts = cond_pts(env, ce[3], ce[4])
        for p in pts:
            hyps.update(p.hyps)
        return C.rewr_conv(ce[1], sym=ce[2], conds=pts)
    if k == "rewrh":        # ["rewrh", name | ["pt", eq, [hyp..]], sym, [[prop, [hyp..]] ..]]: conditions `hyps |- prop`
        pts = [env.ProofTerm.sorry(env.Thm(jt(env, c[0]), *[jt(env, h) for h in c[1]])) for c in ce[3]]
        for p in pts:
            hyps.update(p.hyps)
        rule = ce[1]
        if not isinstance(rule, str):
            rule = env.ProofTerm.sorry(env.Thm(jt(env, rule[1]), *[jt(env, h) for h in rule[2]]))
            hyps.update(rule.hyps)
        return C.rewr_conv(rule, sym=ce[2], conds=pts)
    if k == "replace":
        eq = env.term.Eq(jt(env, ce[1]), jt(env, ce[2]))
        if ce[3] == "assume":
            pt = env.ProofTerm.assume(eq)
            hyps.update(pt.hyps)
        else:
            pt = env.ProofTerm.sorry(env.Thm(eq))
        return (env.real.replace_conv if len(ce) > 4 and ce[4] == "real" else C.replace_conv)(pt)
    if k == "comb":
        return C.combination_conv(sub(ce[1]), sub(ce[2]))
    if k == "then":
        return C.then_conv(sub(ce[1]), sub(ce[2]))
    if k == "else":
        return C.else_conv(sub(ce[1]), sub(ce[2]))
    if k == "abs":
        return C.abs_conv(sub(ce[1]))
    if k == "try":
        return C.try_conv(sub(ce[1]))
    if k == "comb1":
        return C.comb_conv(sub(ce[1]))
    if k == "arg":
        return C.arg_conv(sub(ce[1]))
    if k == "fun":
        return C.fun_conv(sub(ce[1]))
    if k == "arg1":
        return C.arg1_conv(sub(ce[1]))
    if k == "binop":
        return C.binop_conv(sub(ce[1]))
    if k == "every":
        return C.every_conv(*[sub(c) for c in ce[1:]])
    if k == "repeat":
        return C.repeat_conv(sub(ce[1]))
    if k == "argn":
        return C.argn_conv(ce[1], sub(ce[2]))
    if k == "assums":
        return C.assums_conv(sub(ce[1]))
    if k == "sub":
        return C.sub_conv(sub(ce[1]))
    if k == "bottom":
        return C.bottom_conv(sub(ce[1]))
    if k == "top":
        return C.top_conv(*[sub(c) for c in ce[1:]])
    if k == "top_sweep":
        return C.top_sweep_conv(sub(ce[1]))
    if k == "cls":          # ["cls", "module.Class", {kwargs}?]
        mn, cn = ce[1].rsplit(".", 1)
        cls = getattr(env.mods[mn], cn)
        kw = ce[2] if len(ce) > 2 else {}
        return cls(**kw)
    if k == "clsc":         # class taking a list of condition proof terms
        mn, cn = ce[1].rsplit(".", 1)
        pts = cond_pts(env, ce[2], ce[3])
        for p in pts:
            hyps.update(p.hyps)
        return getattr(env.mods[mn], cn)(pts)
    if k == "auto":
        pts = cond_pts(env, ce[1], ce[2])
        for p in pts:
            hyps.update(p.hyps)
        return env.auto.auto_conv(pts)
    raise ValueError(ce)


def overrides_eval(env, cv):
    return type(cv).eval is not env.Conv.eval


class Outcome:
    __slots__ = ("kind", "rhs", "detail", "pt")

    def __init__(self, kind, rhs=None, detail="", pt=None):
        self.kind, self.rhs, self.detail, self.pt = kind, rhs, detail, pt


def judge(env, ctx, label, ce, t, in_domain=True, limit=20, record=True):
    """Run one conversion on one term and judge the first sentence of the property.
    Returns an Outcome; violations are recorded on ctx (when `record`)."""
    hyps = set()
    replay = {"kind": "conv", "label": label, "ce": ce, "term": tj(t), "in_domain": in_domain}

    def viol(defect, what):
        if record:
            ctx.violation("%s:%s" % (label, defect), "%s on %s: %s" % (label, t, what), replay)
        return Outcome("violation:" + defect, detail=what)

    try:
        cv = build_cv(env, ce, hyps)
    except Exception as e:  # noqa  constructing the conversion is not what is judged
        return Outcome("construct-failed", detail=repr(e))
    try:
        with time_limit(limit):
            pt = cv.get_proof_term(t)
    except Timeout:
        return Outcome("timeout")
    except Exception as e:  # noqa
        if env.own_error(e):
            # the fast evaluation, where the class has one, must not report an equation the
            # conversion cannot prove: "eval succeeds, get_proof_term raises" is a disagreement
            if overrides_eval(env, cv):
                try:
                    with time_limit(limit):
                        th2 = cv.eval(t)
                    return viol("eval-without-proof", "eval reports %s but get_proof_term raises %s" % (th2, type(e).__name__))
                except Timeout:
                    pass
                except Exception:  # noqa   both refuse
                    pass
            return Outcome("own-error:" + type(e).__name__)
        if in_domain:
            return viol("crash:" + type(e).__name__, "get_proof_term raised %r" % (e,))
        return Outcome("crash-off-domain:" + type(e).__name__)
    if not isinstance(pt, env.ProofTerm):
        return viol("not-a-proofterm", "returned %r" % (pt,))
    prop = pt.prop
    if not prop.is_equals():
        return viol("not-equation", "returned %s" % pt.th)
    if prop.lhs != t:
        return viol("lhs-differs", "returned %s" % pt.th)
    if not set(pt.hyps) <= hyps:
        return viol("hyp-leak", "hypotheses %s not among the supplied %s" % ([str(h) for h in pt.hyps], [str(h) for h in hyps]))
    try:
        with time_limit(max(limit, 60)):
            rpt = env.report.ProofReport()
            th = env.theory.check_proof(pt.export(), rpt, check_level=0)
    except Timeout:
        return Outcome("timeout-check", rhs=prop.rhs, pt=pt)
    except Exception as e:  # noqa
        return viol("proof-rejected", "check_proof raised %s: %s" % (type(e).__name__, str(e)[:200]))
    if th != pt.th:
        return viol("checked-sequent-differs", "checker concluded %s, conversion claimed %s" % (th, pt.th))
    if overrides_eval(env, cv):
        try:
            with time_limit(limit):
                th2 = cv.eval(t)
        except Timeout:
            return Outcome("timeout", rhs=prop.rhs, pt=pt)
        except Exception as e:  # noqa
            return viol("eval-differs", "get_proof_term proved %s but eval raised %r" % (pt.th, e))
        if th2 != pt.th:
            return viol("eval-differs", "eval reports %s, get_proof_term proves %s" % (th2, pt.th))
    return Outcome("ok", rhs=prop.rhs, pt=pt)


# ====================================================================== terms with binders (combinator stream)
class BGen:
    """Random well-typed terms over nat/bool with lambda, quantifiers, beta- and eta-redexes and
    instances of the left sides of the toy rewrite rules."""

    def __init__(self, env, rng):
        self.env, self.rng = env, rng
        self.T = env.term
        self.nat = env.T["nat"]
        self.fresh = 0

    def bvar(self):
        self.fresh += 1
        return self.T.Var(self.rng.choice("uvw") + (str(self.fresh) if self.rng.random() < 0.5 else ""), self.nat)

    def N(self, d, scope=()):
        rng, T, env = self.rng, self.T, self.env
        if d <= 0 or rng.random() < 0.2:
            r = rng.random()
            if scope and r < 0.45:
                return rng.choice(scope)
            if r < 0.75:
                return env.v[rng.choice("mnk")]
            return T.Nat(rng.choice([0, 0, 1, 2, 3, 5]))
        c = rng.randint(0, 11)
        if c == 0:
            return self.N(d - 1, scope) + self.N(d - 1, scope)
        if c == 1:
            return self.N(d - 1, scope) * self.N(d - 1, scope)
        if c == 2:
            return env.nat.Suc(self.N(d - 1, scope))
        if c == 3:
            return env.v["f"](self.N(d - 1, scope))
        if c == 4:
            return env.v["g"](self.N(d - 1, scope), self.N(d - 1, scope))
        if c == 5:
            return self.F(d - 1, scope)(self.N(d - 1, scope))
        if c == 6:
            return env.logic.mk_if(self.B(d - 1, scope), self.N(d - 1, scope), self.N(d - 1, scope))
        if c == 7:
            return T.Nat(0) + self.N(d - 1, scope)
        if c == 8:
            return self.N(d - 1, scope) + T.Nat(0)
        if c == 9:
            return env.nat.Suc(self.N(d - 1, scope)) + self.N(d - 1, scope)
        if c == 10:
            return T.Nat(1) * self.N(d - 1, scope)
        return T.Const("min", env.TFun(self.nat, self.nat, self.nat))(self.N(d - 1, scope), self.N(d - 1, scope))

    def F(self, d, scope=()):
        rng, T, env = self.rng, self.T, self.env
        c = rng.randint(0, 5)
        if c == 0:
            return env.v["f"]
        if c == 1:
            return env.v["g"](self.N(d - 1, scope))
        if c == 2:      # eta-redex
            u = self.bvar()
            return T.Lambda(u, env.v["f"](u))
        if c == 3:
            return env.nat.plus(self.N(d - 1, scope))
        u = self.bvar()
        return T.Lambda(u, self.N(d - 1, scope + (u,)))

    def B(self, d, scope=()):
        rng, T, env = self.rng, self.T, self.env
        if d <= 0 or rng.random() < 0.2:
            return env.v[rng.choice("ABCD")]
        c = rng.randint(0, 8)
        if c == 0:
            return T.Eq(self.N(d - 1, scope), self.N(d - 1, scope))
        if c == 1:
            return env.nat.less_eq(self.N(d - 1, scope), self.N(d - 1, scope))
        if c == 2:
            return T.And(self.B(d - 1, scope), self.B(d - 1, scope))
        if c == 3:
            return T.Or(self.B(d - 1, scope), self.B(d - 1, scope))
        if c == 4:
            return T.Not(self.B(d - 1, scope))
        if c == 5:
            return T.Not(T.Not(self.B(d - 1, scope)))
        if c == 6:
            u = self.bvar()
            return T.Forall(u, self.B(d - 1, scope + (u,)))
        if c == 7:
            u = self.bvar()
            return T.Exists(u, self.B(d - 1, scope + (u,)))
        if c == 8:
            return T.Implies(self.B(d - 1, scope), self.B(d - 1, scope))
        return env.v["P"](self.N(d - 1, scope))

    def any(self, d):
        r = self.rng.random()
        if r < 0.55:
            return self.N(d)
        if r < 0.85:
            return self.B(d)
        return self.F(d)


def toy_bases(env):
    m, n, A = env.v["m"], env.v["n"], env.v["A"]
    le = tj(env.nat.less_eq(m, n))
    return [
        ["rewr", "nat_plus_def_1", False, [], "sorry"],
        ["rewr", "add_0_right", False, [], "sorry"],
        ["rewr", "nat_plus_def_2", False, [], "sorry"],
        ["rewr", "mult_1_left", False, [], "sorry"],
        ["rewr", "add_comm", False, [], "sorry"],
        ["rewr", "add_1_right", True, [], "sorry"],
        ["rewr", "double_neg", False, [], "sorry"],
        ["rewr", "not_all", False, [], "sorry"],
        ["rewr", "if_P", False, [tj(A)], "assume"],
        ["rewr", "if_P", False, [tj(A)], "sorry"],
        ["rewr", "min_simp1", False, [le], "assume"],
        ["rewr", "min_simp1", False, [], "sorry"],      # wrong number of conditions: ConvException
        ["rewr", "no_such_theorem", False, [], "sorry"],
        ["rewr", "eta_conversion", False, [], "sorry"],
        ["beta"], ["eta"], ["beta_norm"], ["all"], ["no"],
    ]


LOOPING = ("add_comm",)


def gen_ce(env, rng, depth, top=None, noloop=False):
    """Random conversion expression; `top` forces the outermost constructor."""
    bases = toy_bases(env)
    if noloop:
        bases = [b for b in bases if not (b[0] == "rewr" and b[1] in LOOPING)]
    unary = ["abs", "try", "comb1", "arg", "fun", "arg1", "binop", "repeat", "assums", "sub", "bottom", "top_sweep"]
    k = top
    if k is None:
        if depth <= 0 or rng.random() < 0.35:
            b = rng.choice(bases)
            r = rng.random()        # a bare rule fails on most terms: mostly use it through a total wrapper
            return b if r < 0.3 else ["try", b] if r < 0.65 else ["top_sweep", b] if r < 0.85 else ["bottom", b]
        k = rng.choice(unary + ["comb", "then", "else", "every", "top", "argn"])
    sub = lambda: gen_ce(env, rng, depth - 1, noloop=noloop or k in ("repeat", "top", "bottom"))  # noqa
    if k in unary:
        return [k, sub()]
    if k in ("comb", "then", "else"):
        return [k, sub(), sub()]
    if k in ("every", "top"):
        return [k] + [sub() for _ in range(rng.randint(0 if k == "every" else 1, 3))]
    if k == "argn":
        return [k, rng.randint(0, 2), sub()]
    raise ValueError(k)


# ====================================================================== per-class domains
def strip_plus(t):
    return strip_plus(t.arg1) + [t.arg] if t.is_plus() else [t]


def strip_plus_r(t):
    return [t.arg1] + strip_plus_r(t.arg) if t.is_plus() else [t]


def nf(env, clsname, t):
    """rhs of a normaliser class on t (used to build in-domain inputs of the helper classes)."""
    mn, cn = clsname.rsplit(".", 1)
    return getattr(env.mods[mn], cn)().get_proof_term(t).prop.rhs


def sum_of(ts):
    r = ts[0]
    for t in ts[1:]:
        r = r + t
    return r


def make_gens(env):
    T = env.term
    G = {}
    cls = lambda name, **kw: ["cls", name] + ([kw] if kw else [])  # noqa

    def reg(name):
        def deco(f):
            G[name] = f
            return f
        return deco

    # ---------------------------------------------------------------- logic.conv
    def shaped(rng, top):
        """A term of the shape the outermost combinator looks at (mostly)."""
        g = BGen(env, rng)
        d = rng.randint(1, 3)
        if rng.random() < 0.2:
            return g.any(d)
        if top in ("abs",):
            u = g.bvar()
            return T.Lambda(u, rng.choice([g.N, g.B])(d, (u,)))
        if top == "beta":
            u = g.bvar()
            return T.Lambda(u, g.N(d, (u,)))(g.N(d))
        if top == "eta":
            u = g.bvar()
            return T.Lambda(u, rng.choice([env.v["f"], env.v["g"](g.N(1)), env.v["g"](u)])(u))
        if top in ("binop", "arg1"):
            return rng.choice([g.N(d) + g.N(d), g.N(d) * g.N(d), T.Eq(g.N(d), g.N(d)), T.And(g.B(d), g.B(d))])
        if top in ("comb", "comb1", "arg", "fun", "argn"):
            return rng.choice([env.v["f"](g.N(d)), g.N(d) + g.N(d), T.Not(g.B(d)), env.v["g"](g.N(d), g.N(d))])
        if top == "assums":
            return T.Implies(*[g.B(1) for _ in range(rng.randint(1, 4))])
        return g.any(d + 1)

    def comb_gen(top):
        def g(rng):
            ce = gen_ce(env, rng, rng.randint(1, 3), top=top)
            return ce, shaped(rng, top), True
        return g
    for cn, top in [("combination_conv", "comb"), ("then_conv", "then"), ("else_conv", "else"), ("abs_conv", "abs"),
                    ("repeat_conv", "repeat"), ("argn_conv", "argn"), ("assums_conv", "assums"), ("sub_conv", "sub"),
                    ("bottom_conv", "bottom"), ("top_conv", "top"), ("top_sweep_conv", "top_sweep")]:
        G["logic.conv." + cn] = comb_gen(top)
    # derived combinators (functions, not classes) get their own labels
    for fn in ("try", "comb1", "arg", "fun", "arg1", "binop", "every"):
        G["logic.conv.%s_conv" % {"comb1": "comb"}.get(fn, fn)] = comb_gen(fn)

    def base_gen(ce):
        return lambda rng: (ce, shaped(rng, ce[0]), True)
    G["logic.conv.all_conv"] = base_gen(["all"])
    G["logic.conv.no_conv"] = base_gen(["no"])
    G["logic.conv.beta_conv"] = base_gen(["beta"])
    G["logic.conv.beta_norm_conv"] = base_gen(["beta_norm"])
    G["logic.conv.eta_conv"] = base_gen(["eta"])

    @reg("logic.conv.rewr_conv")
    def _(rng):
        bases = [b for b in toy_bases(env) if b[0] == "rewr"]
        b = rng.choice(bases)
        g = BGen(env, rng)
        t = g.any(rng.randint(1, 3))
        if rng.random() < 0.5:      # aim at the rule
            a, c, bb = g.N(2), g.N(2), g.B(1)
            t = {"nat_plus_def_1": T.Nat(0) + a, "add_0_right": a + T.Nat(0), "nat_plus_def_2": env.nat.Suc(a) + c,
                 "mult_1_left": T.Nat(1) * a, "add_comm": a + c, "add_1_right": env.nat.Suc(a),
                 "double_neg": T.Not(T.Not(bb)), "if_P": env.logic.mk_if(env.v["A"], a, c),
                 "min_simp1": T.Const("min", env.TFun(g.nat, g.nat, g.nat))(env.v["m"], env.v["n"]),
                 "eta_conversion": g.F(2)}.get(b[1], t)
        return b, t, True

    @reg("logic.conv.replace_conv")
    def _(rng):
        g = BGen(env, rng)
        l, r = g.N(2), g.N(2)
        t = l if rng.random() < 0.6 else g.N(2)
        return ["replace", tj(l), tj(r), rng.choice(["assume", "sorry"])], t, True

    # ---------------------------------------------------------------- data.nat
    B = T.Binary
    @reg("data.nat.Suc_conv")
    def _(rng):
        return cls("data.nat.Suc_conv"), env.nat.Suc(B(rng.choice([0, 1, 2, 3, 4, 7, 8, 15, rng.randint(0, 300)]))), True

    @reg("data.nat.add_conv")
    def _(rng):
        a, b = (rng.choice([0, 1, 2, 3, 5, 6, 7, rng.randint(0, 200)]) for _ in range(2))
        return cls("data.nat.add_conv"), B(a) + B(b), True

    @reg("data.nat.mult_conv")
    def _(rng):
        a, b = (rng.choice([0, 1, 2, 3, 5, 6, 7, rng.randint(0, 60)]) for _ in range(2))
        return cls("data.nat.mult_conv"), B(a) * B(b), True

    @reg("data.nat.rewr_of_nat_conv")
    def _(rng):
        n = rng.choice([0, 1, 2, 3, 5, 8, 13])
        sym = rng.random() < 0.5
        return cls("data.nat.rewr_of_nat_conv", sym=sym), (B(n) if sym else T.Nat(n)), True

    @reg("data.nat.nat_conv")
    def _(rng):
        # with subtraction now and then: nat_eval computes it, the conversion has no rule for it,
        # so both eval and get_proof_term must refuse
        ops = "++**S" if rng.random() < 0.75 else "++**S-"
        return cls("data.nat.nat_conv"), to_term(env, gen_arith(rng, "nat", rng.randint(0, 4), closed=True, ops=ops), "nat"), True

    @reg("data.nat.nat_eval_conv")
    def _(rng):
        return cls("data.nat.nat_eval_conv"), to_term(env, gen_arith(rng, "nat", rng.randint(0, 4), closed=True, ops="++**S-"), "nat"), True

    def natexpr(rng, d=None, ops="+++**S"):
        return to_term(env, gen_arith(rng, "nat", rng.randint(0, 3) if d is None else d, ops=ops), "nat")

    def natatom(rng):
        return rng.choice([env.v["m"], env.v["n"], env.v["k"], T.Nat(rng.choice([0, 1, 2, 5])), env.v["f"](env.v["m"]),
                           env.v["m"] - env.v["n"]])

    def natpoly(rng):
        return nf(env, "data.nat.norm_full", natexpr(rng))

    def natmono(rng):
        return rng.choice(strip_plus(natpoly(rng)))

    @reg("data.nat.swap_add_r")
    def _(rng):
        a, b, c = natatom(rng), natatom(rng), natatom(rng)
        return cls("data.nat.swap_add_r"), rng.choice([(a + b) + c, a + b]), True

    @reg("data.nat.swap_times_r")
    def _(rng):
        a, b, c = natatom(rng), natatom(rng), natatom(rng)
        return cls("data.nat.swap_times_r"), rng.choice([(a * b) * c, a * b]), True

    @reg("data.nat.norm_add_atom_1")
    def _(rng):
        s = sum_of([natatom(rng) for _ in range(rng.randint(1, 4))])
        return cls("data.nat.norm_add_atom_1"), s + natatom(rng), True

    @reg("data.nat.norm_add_1")
    def _(rng):
        s1 = sum_of([natatom(rng) for _ in range(rng.randint(1, 3))])
        s2 = sum_of([natatom(rng) for _ in range(rng.randint(1, 3))])
        return cls("data.nat.norm_add_1"), s1 + s2, True

    def prod_of(ts):
        r = ts[0]
        for t in ts[1:]:
            r = r * t
        return r

    @reg("data.nat.norm_mult_atom")
    def _(rng):
        return cls("data.nat.norm_mult_atom"), prod_of([natatom(rng) for _ in range(rng.randint(1, 4))]) * natatom(rng), True

    @reg("data.nat.norm_mult_monomial")
    def _(rng):
        return cls("data.nat.norm_mult_monomial"), natmono(rng) * natmono(rng), True

    @reg("data.nat.to_coeff_form")
    def _(rng):
        return cls("data.nat.to_coeff_form"), natmono(rng), True

    @reg("data.nat.from_coeff_form")
    def _(rng):
        a = natatom(rng)
        return cls("data.nat.from_coeff_form"), rng.choice([a * T.Nat(1), T.Nat(1) * T.Nat(rng.randint(0, 9)), a * T.Nat(rng.randint(2, 9))]), True

    @reg("data.nat.combine_monomial")
    def _(rng):
        body = env.nat.dest_monomial(natmono(rng))
        def withc():
            c = rng.choice([1, 1, 2, 3, 7])
            if body == env.nat.one:
                return T.Nat(c)
            return body if c == 1 else body * T.Nat(c)
        return cls("data.nat.combine_monomial"), withc() + withc(), True

    @reg("data.nat.norm_add_monomial")
    def _(rng):
        return cls("data.nat.norm_add_monomial"), natpoly(rng) + natmono(rng), True

    @reg("data.nat.norm_add_polynomial")
    def _(rng):
        return cls("data.nat.norm_add_polynomial"), natpoly(rng) + natpoly(rng), True

    @reg("data.nat.norm_mult_poly_monomial")
    def _(rng):
        return cls("data.nat.norm_mult_poly_monomial"), natpoly(rng) * natmono(rng), True

    @reg("data.nat.norm_mult_polynomial")
    def _(rng):
        return cls("data.nat.norm_mult_polynomial"), natpoly(rng) * natpoly(rng), True

    @reg("data.nat.norm_full")
    def _(rng):
        return cls("data.nat.norm_full"), natexpr(rng, rng.randint(0, 4), ops="+++***S-^"), True

    @reg("data.nat.nat_eq_conv")
    def _(rng):
        r = rng.random()
        if r < 0.6:
            a, b = T.Nat(rng.randint(0, 12)), T.Nat(rng.randint(0, 12))
        else:
            a, b = natexpr(rng, 1), natexpr(rng, 1)
        return cls("data.nat.nat_eq_conv"), (T.Eq(a, b) if r < 0.9 else a), True

    # ---------------------------------------------------------------- data.integer
    I = "data.integer."
    def intexpr(rng, d=None, ops="++**-n^", closed=False):
        return to_term(env, gen_arith(rng, "int", rng.randint(0, 3) if d is None else d, ops=ops, closed=closed, atoms=False), "int")

    def intlin(rng):
        """Linear expression c1*x1 + ... (+ c)."""
        ts = []
        for _ in range(rng.randint(1, 3)):
            v = env.v[rng.choice("ijl")]
            c = rng.choice([1, 1, 2, 3, -1, -2, 4, 6])
            ts.append(v if c == 1 and rng.random() < 0.7 else T.Int(c) * v)
        if rng.random() < 0.5:
            ts.append(T.Int(rng.choice([1, 2, -3, 4, 0, 6])))
        r = ts[0]
        for t in ts[1:]:
            r = (r - t) if rng.random() < 0.25 else (r + t)
        return r

    def intpoly(rng):
        return nf(env, I + "simp_full", intexpr(rng))

    def intmono(rng):
        return rng.choice(strip_plus(intpoly(rng)))

    def intpowatom(rng):
        return env.v[rng.choice("ijl")] ** rng.choice([1, 1, 2, 3])

    def intcmp(rng, ops=("less", "less_eq", "greater", "greater_eq"), lin=True):
        a, b = (intlin(rng), intlin(rng)) if lin else (intexpr(rng, 2), intexpr(rng, 2))
        return getattr(T, rng.choice(ops))(env.T["int"])(a, b)

    @reg(I + "swap_mult_r")
    def _(rng):
        a, b, c = intpowatom(rng), intpowatom(rng), intpowatom(rng)
        return cls(I + "swap_mult_r"), (a * b) * c, True

    @reg(I + "swap_add_r")
    def _(rng):
        a, b, c = intmono(rng), intmono(rng), intmono(rng)
        return cls(I + "swap_add_r"), (a + b) + c, True

    @reg(I + "int_eval_conv")
    def _(rng):
        if rng.random() < 0.1:
            return cls(I + "int_eval_conv"), natexpr(rng, 1), True
        return cls(I + "int_eval_conv"), intexpr(rng, rng.randint(0, 4), ops="++**-n", closed=True), True

    @reg(I + "norm_mult_atom")
    def _(rng):
        return cls(I + "norm_mult_atom"), prod_of([intpowatom(rng) for _ in range(rng.randint(1, 3))]) * intpowatom(rng), True

    @reg(I + "norm_mult_monomial_wo_coeff")
    def _(rng):
        def body():
            return nf(env, I + "simp_full", prod_of([env.v[rng.choice("ijl")] for _ in range(rng.randint(1, 3))])).arg
        return cls(I + "norm_mult_monomial_wo_coeff"), body() * body(), True

    @reg(I + "norm_mult_monomial")
    def _(rng):
        return cls(I + "norm_mult_monomial"), intmono(rng) * intmono(rng), True

    @reg(I + "norm_add_monomial")
    def _(rng):
        p, m = intpoly(rng), intmono(rng)
        return cls(I + "norm_add_monomial"), (p + m if rng.random() < 0.7 else p - m), True

    @reg(I + "norm_add_polynomial")
    def _(rng):
        p, q = intpoly(rng), intpoly(rng)
        return cls(I + "norm_add_polynomial"), (p + q if rng.random() < 0.7 else p - q), True

    @reg(I + "norm_mult_poly_monomial")
    def _(rng):
        return cls(I + "norm_mult_poly_monomial"), intpoly(rng) * intmono(rng), True

    @reg(I + "norm_mult_polynomials")
    def _(rng):
        return cls(I + "norm_mult_polynomials"), intpoly(rng) * intpoly(rng), True

    @reg(I + "simp_full")
    def _(rng):
        return cls(I + "simp_full"), intexpr(rng, rng.randint(0, 4)), True

    @reg(I + "int_norm_conv")
    def _(rng):
        return cls(I + "int_norm_conv"), intexpr(rng, rng.randint(0, 4)), True

    @reg(I + "norm_eq")
    def _(rng):
        return cls(I + "norm_eq"), intcmp(rng, ("less", "less_eq", "greater", "greater_eq", "equals"), lin=rng.random() < 0.5), True

    @reg(I + "int_norm_eq")
    def _(rng):
        return cls(I + "int_norm_eq"), T.Eq(intlin(rng), intlin(rng)), True

    @reg(I + "int_norm_neg_compares")
    def _(rng):
        return cls(I + "int_norm_neg_compares"), T.Not(intcmp(rng)), True

    for cn in ("omega_form_conv", "int_gcd_compares", "int_simplex_form"):
        def g(rng, cn=cn):
            return cls(I + cn), intcmp(rng), True
        G[I + cn] = g

    @reg(I + "int_compare_to_real")
    def _(rng):
        return cls(I + "int_compare_to_real"), intcmp(rng, ("less", "less_eq", "greater", "greater_eq", "equals")), True

    @reg(I + "omega_norm_add_num")
    def _(rng):
        # a sum of monomials c * x (and numbers), as simp_full + int_pow_1_r leave it
        t = env.conv.top_conv(env.conv.rewr_conv("int_pow_1_r")).get_proof_term(nf(env, I + "simp_full", intlin(rng))).prop.rhs
        return cls(I + "omega_norm_add_num"), t, True

    @reg(I + "omega_simp_full_conv")
    def _(rng):
        return cls(I + "omega_simp_full_conv"), intlin(rng), True

    @reg(I + "int_neq_false_conv")
    def _(rng):
        a = intexpr(rng, 2, ops="++**-n", closed=True)
        return cls(I + "int_neq_false_conv"), T.Eq(a, T.Int(0)), True

    @reg(I + "int_const_compares")
    def _(rng):
        a, b = intexpr(rng, 2, ops="++**-n", closed=True), intexpr(rng, 1, ops="++**-n", closed=True)
        op = rng.choice(["less", "less_eq", "greater", "greater_eq", "equals"])
        return cls(I + "int_const_compares"), getattr(T, op)(env.T["int"])(a, b), True

    # ---------------------------------------------------------------- data.real
    R = "data.real."
    def realexpr(rng, d=None, ops="++**-n^/", closed=False):
        return to_term(env, gen_arith(rng, "real", rng.randint(0, 3) if d is None else d, ops=ops, closed=closed), "real")

    def realnum(rng, nonzero=False):
        c = gen_num(rng, "real")
        return T.Real(c if c != 0 or not nonzero else 2)

    def realatom(rng):
        x = env.v[rng.choice("xyz")]
        r = rng.random()
        return x if r < 0.5 else x ** rng.choice([2, 3]) if r < 0.85 else env.v["h"](x)

    def nfc(name, t, conds=()):
        return getattr(env.real, name)(list(conds)).get_proof_term(t).prop.rhs

    def realbody(rng):
        if rng.random() < 0.6:
            return nfc("norm_mult_monomial", realatom(rng) * realatom(rng))
        return realatom(rng)

    def realmono(rng):
        r = rng.random()
        if r < 0.15:
            return realnum(rng, nonzero=True)
        b = realbody(rng)
        if r < 0.5 or b.is_number():
            return b
        c = realnum(rng, nonzero=True)
        return b if c.is_one() else c * b

    def realpoly(rng):
        r = realmono(rng)
        for _ in range(rng.randint(0, 2)):
            r = env.real.norm_add_monomial().get_proof_term(r + realmono(rng)).prop.rhs
        return r

    def realcmp(rng, ops=("less", "less_eq", "greater", "greater_eq"), closed=False):
        a, b = realexpr(rng, 2, ops="++*-n", closed=closed), realexpr(rng, 2, ops="++*-n", closed=closed)
        return getattr(T, rng.choice(ops))(env.T["real"])(a, b)

    def reallin(rng):
        ts = []
        for _ in range(rng.randint(1, 3)):
            c = gen_num(rng, "real")
            v = env.v[rng.choice("xyz")]
            ts.append(v if c == 1 else T.Real(c) * v)
        if rng.random() < 0.5:
            ts.append(realnum(rng))
        r = ts[0]
        for t in ts[1:]:
            r = (r - t) if rng.random() < 0.25 else (r + t)
        return r

    def reallincmp(rng, ops=("less", "less_eq", "greater", "greater_eq")):
        return getattr(T, rng.choice(ops))(env.T["real"])(reallin(rng), reallin(rng))

    @reg(R + "real_eval_conv")
    def _(rng):
        if rng.random() < 0.1:
            return cls(R + "real_eval_conv"), natexpr(rng, 1), True
        return cls(R + "real_eval_conv"), realexpr(rng, rng.randint(0, 4), closed=True), True

    @reg(R + "to_coeff_form")
    def _(rng):
        return cls(R + "to_coeff_form"), realmono(rng), True

    @reg(R + "from_coeff_form")
    def _(rng):
        return cls(R + "from_coeff_form"), rng.choice([realnum(rng), realbody(rng)]) * rng.choice([realnum(rng), realbody(rng), T.Real(1)]), True

    @reg(R + "combine_monomial")
    def _(rng):
        b = realbody(rng)
        def withc():
            c = realnum(rng, nonzero=True)
            return b if c.is_one() else c * b
        if rng.random() < 0.2:
            return cls(R + "combine_monomial"), realnum(rng) + realnum(rng), True
        return cls(R + "combine_monomial"), withc() + withc(), True

    @reg(R + "swap_add_r")
    def _(rng):
        return cls(R + "swap_add_r"), (realmono(rng) + realmono(rng)) + realmono(rng), True

    @reg(R + "swap_mult_r")
    def _(rng):
        return cls(R + "swap_mult_r"), (realatom(rng) * realatom(rng)) * realatom(rng), True

    @reg(R + "norm_add_monomial")
    def _(rng):
        return cls(R + "norm_add_monomial"), realpoly(rng) + realmono(rng), True

    @reg(R + "norm_add_polynomial")
    def _(rng):
        return cls(R + "norm_add_polynomial"), realpoly(rng) + realpoly(rng), True

    @reg(R + "to_exponent_form")
    def _(rng):
        return cls(R + "to_exponent_form"), realatom(rng), True

    @reg(R + "from_exponent_form")
    def _(rng):
        x = env.v[rng.choice("xyz")]
        return cls(R + "from_exponent_form"), rng.choice([x ** 1, x ** 2, x ** T.Real(1), x ** T.Real(0), x ** T.Real(2), x]), True

    def xpos(rng):
        """Conditions x > 0 (assumed) for the atoms' variables."""
        return [tj(T.greater(env.T["real"])(env.v[v], T.Real(0))) for v in "xyz" if rng.random() < 0.7]

    @reg(R + "combine_atom")
    def _(rng):
        x = env.v[rng.choice("xyz")]
        def pw():
            r = rng.random()
            if r < 0.3:
                return x
            if r < 0.7:
                return x ** rng.choice([1, 2, 3])
            return x ** T.Real(rng.choice([Fraction(1, 2), Fraction(3, 2), -1, Fraction(-1, 2), 2]))
        return ["clsc", R + "combine_atom", xpos(rng), "assume"], pw() * pw(), True

    @reg(R + "norm_mult_atom")
    def _(rng):
        b = realbody(rng)
        return ["clsc", R + "norm_mult_atom", xpos(rng), "assume"], b * realatom(rng), True

    @reg(R + "norm_mult_monomial")
    def _(rng):
        return ["clsc", R + "norm_mult_monomial", xpos(rng), "assume"], realbody(rng) * realbody(rng), True

    @reg(R + "norm_mult_monomials")
    def _(rng):
        return ["clsc", R + "norm_mult_monomials", xpos(rng), "assume"], realmono(rng) * realmono(rng), True

    @reg(R + "real_nat_power_conv")
    def _(rng):
        a = rng.choice([realexpr(rng, 1, ops="+"), realatom(rng), env.v["x"] + env.v["y"]])
        return cls(R + "real_nat_power_conv"), a ** rng.choice([0, 1, 2, 2, 3, 3, 4]), True

    @reg(R + "real_power_conv")
    def _(rng):
        a = rng.choice([T.Real(rng.choice([2, 3, 4, 6, 9, 12, 1, Fraction(1, 4)])), env.v["x"]])
        p = T.Real(rng.choice([2, 3, Fraction(1, 2), Fraction(3, 2), Fraction(4, 3), -1, Fraction(-1, 2), 0, 1]))
        return cls(R + "real_power_conv"), a ** p, True

    @reg(R + "real_norm_conv")
    def _(rng):
        return cls(R + "real_norm_conv"), realexpr(rng, rng.randint(0, 4)), True

    @reg(R + "norm_real_ineq_conv")
    def _(rng):
        return cls(R + "norm_real_ineq_conv"), realcmp(rng), True

    @reg(R + "norm_neg_real_ineq_conv")
    def _(rng):
        return cls(R + "norm_neg_real_ineq_conv"), T.Not(realcmp(rng)), True

    @reg(R + "real_const_eq_conv")
    def _(rng):
        return cls(R + "real_const_eq_conv"), realcmp(rng, ("less", "less_eq", "greater", "greater_eq", "equals"), closed=True), True

    @reg(R + "real_const_compares")
    def _(rng):
        return cls(R + "real_const_compares"), realcmp(rng, ("less", "less_eq", "greater", "greater_eq", "equals"), closed=True), True

    @reg(R + "real_norm_comparison")
    def _(rng):
        return cls(R + "real_norm_comparison"), reallincmp(rng, ("less", "less_eq", "greater", "greater_eq", "equals")), True

    @reg(R + "real_simplex_form")
    def _(rng):
        return cls(R + "real_simplex_form"), reallincmp(rng), True

    @reg(R + "replace_conv")
    def _(rng):
        l, r = realexpr(rng, 1), realexpr(rng, 1)
        t = l if rng.random() < 0.6 else realexpr(rng, 1)
        return ["replace", tj(l), tj(r), rng.choice(["assume", "sorry"]), "real"], t, True

    # ---------------------------------------------------------------- data.proplogic / logic.logic
    Pm = "data.proplogic."
    L = "logic.logic."
    def prop(rng, d=None, **kw):
        return to_prop(env, gen_prop(rng, rng.randint(0, 3) if d is None else d, **kw))

    def lits(rng, n, consts=0.0):
        return [gen_literal(rng, consts) for _ in range(n)]

    def sorted_conj(rng, op="and", consts=0.0):
        """A conjunction (disjunction) already in the form norm_conj_conjunction leaves."""
        t = to_prop(env, right_assoc(op, lits(rng, rng.randint(1, 4), consts)))
        return env.proplogic.norm_full().get_proof_term(t).prop.rhs

    @reg(Pm + "nnf_conv")
    def _(rng):
        return cls(Pm + "nnf_conv"), prop(rng, rng.randint(0, 4)), True

    @reg(Pm + "swap_conj_r")
    def _(rng):
        a, b, c = (to_prop(env, gen_literal(rng)) for _ in range(3))
        return cls(Pm + "swap_conj_r"), rng.choice([T.And(a, T.And(b, c)), T.And(a, b)]), True

    @reg(Pm + "swap_disj_r")
    def _(rng):
        a, b, c = (to_prop(env, gen_literal(rng)) for _ in range(3))
        return cls(Pm + "swap_disj_r"), rng.choice([T.Or(a, T.Or(b, c)), T.Or(a, b)]), True

    @reg(Pm + "norm_conj_atom")
    def _(rng):
        return cls(Pm + "norm_conj_atom"), T.And(to_prop(env, gen_literal(rng, 0.15)), sorted_conj(rng, "and", 0.05)), True

    @reg(Pm + "norm_conj_conjunction")
    def _(rng):
        return cls(Pm + "norm_conj_conjunction"), T.And(sorted_conj(rng, "and", 0.05), sorted_conj(rng, "and", 0.05)), True

    @reg(Pm + "norm_disj_atom")
    def _(rng):
        return cls(Pm + "norm_disj_atom"), T.Or(to_prop(env, gen_literal(rng, 0.15)), sorted_conj(rng, "or", 0.05)), True

    @reg(Pm + "norm_disj_disjunction")
    def _(rng):
        return cls(Pm + "norm_disj_disjunction"), T.Or(sorted_conj(rng, "or", 0.05), sorted_conj(rng, "or", 0.05)), True

    @reg(Pm + "norm_full")
    def _(rng):
        return cls(Pm + "norm_full"), prop(rng, rng.randint(0, 4)), True

    @reg(Pm + "sort_conj")
    def _(rng):
        r = rng.random()
        if r < 0.6:
            t = to_prop(env, build_assoc(rng, "and", lits(rng, rng.randint(1, 5), 0.1)))
        else:
            t = prop(rng, 3, ops=("and", "and", "or", "not"))
        return cls(Pm + "sort_conj"), t, True

    @reg(Pm + "sort_disj")
    def _(rng):
        r = rng.random()
        if r < 0.6:
            t = to_prop(env, build_assoc(rng, "or", lits(rng, rng.randint(1, 5), 0.1)))
        else:
            t = prop(rng, 3, ops=("or", "or", "and", "not"))
        return cls(Pm + "sort_disj"), t, True

    @reg(L + "norm_bool_expr")
    def _(rng):
        return cls(L + "norm_bool_expr"), prop(rng, 2, consts=0.4), True

    @reg(L + "norm_conj_assoc_clauses")
    def _(rng):
        a = to_prop(env, right_assoc("and", lits(rng, rng.randint(1, 3))))
        b = to_prop(env, right_assoc("and", lits(rng, rng.randint(1, 3))))
        return cls(L + "norm_conj_assoc_clauses"), T.And(a, b), True

    @reg(L + "norm_conj_assoc")
    def _(rng):
        return cls(L + "norm_conj_assoc"), to_prop(env, build_assoc(rng, "and", lits(rng, rng.randint(1, 5)))), True

    @reg(L + "conj_norm")
    def _(rng):
        ms = [gen_prop(rng, 1, ops=("not", "or", "imp"), consts=0.15) for _ in range(rng.randint(1, 5))]
        return cls(L + "conj_norm"), to_prop(env, build_assoc(rng, "and", shuffle_members(rng, ms))), True

    @reg(L + "disj_norm")
    def _(rng):
        ms = [gen_prop(rng, 1, ops=("not", "and", "imp"), consts=0.15) for _ in range(rng.randint(1, 5))]
        return cls(L + "disj_norm"), to_prop(env, build_assoc(rng, "or", shuffle_members(rng, ms))), True

    return G


def generic_gen(env, name):
    T = env.term

    def g(rng):
        r = rng.randint(0, 6)
        if r == 0:
            t = to_term(env, gen_arith(rng, "nat", 3, ops="+*S"), "nat")
        elif r == 1:
            t = to_term(env, gen_arith(rng, "int", 3, ops="+*-n^", atoms=False), "int")
        elif r == 2:
            t = to_term(env, gen_arith(rng, "real", 3, ops="+*-n^/"), "real")
        elif r == 3:
            t = to_prop(env, gen_prop(rng, 3))
        elif r == 4:
            ty = rng.choice(["int", "real"])
            a, b = (to_term(env, gen_arith(rng, ty, 2, ops="+*-", atoms=False), ty) for _ in range(2))
            t = getattr(T, rng.choice(["less", "less_eq", "greater", "greater_eq", "equals"]))(env.T[ty])(a, b)
        else:
            t = BGen(env, rng).any(3)
        return ["cls", name], t, False
    return g


# ====================================================================== stage 2: the oracle over every class
def stage_oracle(ctx, env, G, only=None):
    """Every Conv subclass of MODULES on terms of its domain."""
    found = {"%s.%s" % (mn, cn): c for mn, cn, c in env.classes()}
    names = sorted(set(found) | set(G))
    missing = sorted(n for n in found if n not in G)
    ctx.coverage["conversion_classes"] = {"found": sorted(found), "without_generator": missing,
                                           "derived_combinators": sorted(n for n in G if n not in found)}
    if missing:
        # a conversion class this harness has no domain generator for (added after the harness was
        # written): it is run, built without arguments, on generic terms; off its unknown domain only a
        # *wrong answer* counts (equation about another term, leaked hypothesis, rejected proof).
        ctx.log("Conv subclasses without a domain generator (generic terms used): %s" % missing)
        for name in missing:
            G[name] = generic_gen(env, name)
    n_per = ctx.scale(30, 350)
    stats = {}
    for name in names:
        if name not in G or (only and name not in only):
            continue
        rng = ctx.rng("oracle/" + name)
        for _ in range(n_per):
            try:
                ce, t, dom = G[name](rng)
            except Exception as e:  # noqa   building an input uses the implementation too
                if env.own_error(e):
                    ctx.count("gen-own-error:" + name)
                    continue
                ctx.count("gen-crash:%s:%s" % (name, type(e).__name__))
                stats.setdefault(name, {}).setdefault("gen-crash:" + type(e).__name__, repr(e)[:200])
                continue
            o = judge(env, ctx, name, ce, t, dom)
            ctx.case((name, json.dumps(ce, default=str), str(tj(t))), nontrivial=(o.kind == "ok" and o.rhs != t))
            kind = o.kind.split(":")[0] if o.kind.startswith("own-error") else o.kind
            ctx.count("%s:%s" % (name.split(".")[-2] + "." + name.split(".")[-1], kind))
            d = stats.setdefault(name, {})
            d[o.kind] = d.get(o.kind, 0) + 1
    ctx.coverage["per_class"] = stats
    for name, d in sorted(stats.items()):
        total = sum(v for v in d.values() if isinstance(v, int))
        ok = d.get("ok", 0)
        if total and ok == 0:
            ctx.log("note: %s never succeeded (%s)" % (name, d))
    return stats


# ====================================================================== stage 3: canonicity and idempotence
NORMALISERS = {
    # label: (conversion expression, type, generator ops, rearrangement strength)
    "data.nat.norm_full": (["cls", "data.nat.norm_full"], "nat", "+++***S"),
    "data.integer.simp_full": (["cls", "data.integer.simp_full"], "int", "+++***-n^"),
    "data.integer.int_norm_conv": (["cls", "data.integer.int_norm_conv"], "int", "+++***-n^"),
    "data.real.real_norm_conv": (["cls", "data.real.real_norm_conv"], "real", "+++***-n^/"),
}
PROP_NORMALISERS = {
    # label: (conversion expression, connective, member kind)
    "logic.logic.conj_norm": (["cls", "logic.logic.conj_norm"], "and", "formula"),
    "logic.logic.disj_norm": (["cls", "logic.logic.disj_norm"], "or", "formula"),
    "data.proplogic.norm_full": (["cls", "data.proplogic.norm_full"], "both", "literal"),
    "data.proplogic.sort_conj": (["cls", "data.proplogic.sort_conj"], "and", "literal"),
    "data.proplogic.sort_disj": (["cls", "data.proplogic.sort_disj"], "or", "literal"),
}


def canon_pair(env, ctx, label, ce, t1, t2, how):
    """Both terms through the normaliser; identical rhs demanded; rhs is a fixed point."""
    o1 = judge(env, ctx, label, ce, t1)
    o2 = judge(env, ctx, label, ce, t2)
    ctx.case(("canon", label, str(tj(t1)), str(tj(t2))), nontrivial=(t1 != t2))
    if o1.kind != "ok" or o2.kind != "ok":
        ctx.count("canon:%s:%s" % (label.split(".")[-1], "not-ok"))
        if o1.kind.startswith("own-error") or o2.kind.startswith("own-error"):
            # a normaliser that refuses a term of its domain cannot decide the equality
            ctx.violation("%s:refuses-domain-term" % label, "%s fails on %s / %s: %s %s" % (label, t1, t2, o1.kind, o2.kind),
                          {"kind": "canon", "label": label, "ce": ce, "t1": tj(t1), "t2": tj(t2)})
        return None
    if o1.rhs != o2.rhs:
        ctx.count("canon:%s:DIFFERENT" % label.split(".")[-1])
        ctx.violation("%s:noncanonical" % label,
                      "%s gives different normal forms for %s: %s  vs  %s  (inputs %s | %s)" % (label, how, o1.rhs, o2.rhs, t1, t2),
                      {"kind": "canon", "label": label, "ce": ce, "t1": tj(t1), "t2": tj(t2)})
        return False
    o3 = judge(env, ctx, label, ce, o1.rhs)
    if o3.kind == "ok" and o3.rhs != o1.rhs:
        ctx.count("canon:%s:NOT-IDEMPOTENT" % label.split(".")[-1])
        ctx.violation("%s:not-idempotent" % label, "%s: normal form %s of %s is normalised further to %s" % (label, o1.rhs, t1, o3.rhs),
                      {"kind": "idem", "label": label, "ce": ce, "t1": tj(t1)})
        return False
    ctx.count("canon:%s:same" % label.split(".")[-1])
    return True


def stage_canon(ctx, env, only=None):
    T = env.term
    n = ctx.scale(60, 1000)
    for label, (ce, ty, ops) in NORMALISERS.items():
        if only and label not in only:
            continue
        rng = ctx.rng("canon/" + label)
        for it in range(n):
            if it % 3 == 0:
                # directed: a sum of products over few variables, so that monomials share leading
                # factors and differ in one factor or one power only
                vs = TYVARS[ty]
                mons = []
                for _ in range(rng.randint(2, 4)):
                    fs = [("v", rng.choice(vs)) for _ in range(rng.randint(1, 3))]
                    m = fs[0]
                    for f in fs[1:]:
                        m = ("*", m, f)
                    if rng.random() < 0.3:
                        m = ("*", ("c", rng.choice([2, 3])), m)
                    mons.append(m)
                a = mons[0]
                for m in mons[1:]:
                    a = ("+", a, m)
                rng.shuffle(mons)
                b0 = mons[0]
                for m in mons[1:]:
                    b0 = ("+", b0, m)
                b = rearrange(rng, b0, ty, p=0.4)
                t1, t2 = to_term(env, a, ty), to_term(env, b, ty)
                ok = canon_pair(env, ctx, label, ce, t1, t2, "rearrangements of one polynomial")
                continue
            a = gen_arith(rng, ty, rng.randint(1, 4), ops=ops, atoms=(ty != "int"))
            b = rearrange(rng, a, ty, p=rng.choice([0.3, 0.6, 0.9]))
            t1, t2 = to_term(env, a, ty), to_term(env, b, ty)
            ok = canon_pair(env, ctx, label, ce, t1, t2, "rearrangements of one polynomial")
            if ok and label == "data.nat.norm_full":
                macro_judge(env, ctx, "nat_norm", t1, t2, True, "rearrangement")
            if ok and label == "data.real.real_norm_conv":
                macro_judge(env, ctx, "real_norm", t1, t2, True, "rearrangement")
    for label, (ce, op, kind) in PROP_NORMALISERS.items():
        if only and label not in only:
            continue
        rng = ctx.rng("canon/" + label)
        for _ in range(n):
            o = op if op != "both" else rng.choice(["and", "or"])
            k = rng.randint(1, 5)
            if kind == "literal":
                ms = [gen_literal(rng, 0.0) for _ in range(k)]
            else:
                inner = ("not", "or", "imp") if o == "and" else ("not", "and", "imp")
                ms = [gen_prop(rng, rng.randint(0, 2), ops=inner, consts=0.1) for _ in range(k)]
            t1 = to_prop(env, build_assoc(rng, o, shuffle_members(rng, ms)))
            t2 = to_prop(env, build_assoc(rng, o, shuffle_members(rng, ms)))
            canon_pair(env, ctx, label, ce, t1, t2, "the same member set")


def macro_pair(env, ctx, macro, t1, t2):
    """The macro that decides equalities with the normaliser accepts the pair and its proof checks."""
    goal = env.term.Eq(t1, t2)
    replay = {"kind": "macro", "macro": macro, "t1": tj(t1), "t2": tj(t2)}
    try:
        with time_limit(60):
            m = env.theory.get_macro(macro)
            if not m.can_eval(goal):
                ctx.violation("%s-macro:rejects-equal-polynomials" % macro, "%s.can_eval is False on %s" % (macro, goal), replay)
                return
            pt = env.ProofTerm(macro, goal, [])
            th = env.theory.check_proof(pt.export(), env.report.ProofReport(), check_level=0)
    except Timeout:
        return
    except Exception as e:  # noqa
        ctx.violation("%s-macro:fails" % macro, "%s on %s raised %s: %s" % (macro, goal, type(e).__name__, str(e)[:200]), replay)
        return
    if th.prop != goal or th.hyps:
        ctx.violation("%s-macro:wrong-sequent" % macro, "%s on %s proved %s" % (macro, goal, th), replay)
    ctx.count("macro:%s:ok" % macro)


# ====================================================================== stage 4: correspondence with the Lean model
def tree_of_prop(env, t, op, ids):
    is_op = (lambda u: u.is_conj()) if op == "and" else (lambda u: u.is_disj())
    if is_op(t):
        return ["n", tree_of_prop(env, t.arg1, op, ids), tree_of_prop(env, t.arg, op, ids)]
    return ids[t]


def members_of(t, op):
    is_op = (lambda u: u.is_conj()) if op == "and" else (lambda u: u.is_disj())
    if is_op(t):
        return members_of(t.arg1, op) + members_of(t.arg, op)
    return [t]


def stage_corr_acnorm(ctx, env):
    """conj_norm / disj_norm against `acNorm`: members are numbered by their rank under
    `term_ord.fast_compare` (the order the model takes as given)."""
    rng = ctx.rng("corr/acnorm")
    n = ctx.scale(150, 3000)
    cases, lines = [], []
    for _ in range(n):
        op = rng.choice(["and", "or"])
        inner = ("not", "or", "imp") if op == "and" else ("not", "and", "imp")
        ms = [gen_prop(rng, rng.randint(0, 2), ops=inner, consts=0.15) for _ in range(rng.randint(1, 6))]
        t = to_prop(env, build_assoc(rng, op, shuffle_members(rng, ms)))
        mem = members_of(t, op)
        ranked = env.term_ord.sorted_terms(mem)
        ids = {m: i for i, m in enumerate(ranked)}
        cv = (env.logic.conj_norm if op == "and" else env.logic.disj_norm)()
        try:
            with time_limit(20):
                rhs = cv.get_proof_term(t).prop.rhs
            impl = sexp.dumps(tree_of_prop(env, rhs, op, ids))
        except Timeout:
            continue
        except Exception as e:  # noqa
            impl = "raise:" + type(e).__name__
        cases.append((op, t, impl))
        lines.append(sexp.dumps(["acnorm", tree_of_prop(env, t, op, ids)]))
    out = ctx.lean_driver(EXE, lines) if lines else []
    if out is None:
        ctx.broken("correspondence:c10:driver", "model driver unavailable")
        return
    nd = 0
    for (op, t, impl), m in zip(cases, out):
        ctx.case(("acnorm", op, str(tj(t))), nontrivial=t.is_conj() or t.is_disj())
        ctx.count("corr:acnorm:" + ("agree" if impl == m else "DISAGREE"))
        if impl != m:
            nd += 1
            if nd <= 3:
                ctx.broken("correspondence:c10:acnorm", "%s_norm on %s: impl=%s model=%s" % (op, t, impl, m))
                ctx.coverage["disagreements_checked"] += 1


class TermCodec:
    """holpy terms <-> the model's named terms; atoms are numbered per (kind, name, type)."""

    def __init__(self, env, own_names=False):
        self.env = env
        self.ids = {}
        self.rev = []
        self.own_names = own_names      # open binders with names of the codec's own (not dest_abs)
        self.nb = 0

    def atom(self, t):
        key = (t.ty, t.name, str(t.T))
        if key not in self.ids:
            self.ids[key] = len(self.rev)
            self.rev.append(t)
        return self.ids[key]

    def enc(self, t):
        if t.is_comb():
            return ["c", self.enc(t.fun), self.enc(t.arg)]
        if t.is_abs():
            if self.own_names:
                self.nb += 1
                v = self.env.term.Var("_bv%d" % self.nb, t.var_T)
                body = t.subst_bound(v)
            else:
                v, body = t.dest_abs()
            return ["l", self.atom(v), self.enc(body)]
        if t.is_bound():
            raise ValueError("open term")
        return ["a", self.atom(t)]

    def pat(self, t, pv):
        if t.is_svar():
            if t.name not in pv:
                pv[t.name] = len(pv)
            return ["v", pv[t.name]]
        if t.is_comb():
            return ["c", self.pat(t.fun, pv), self.pat(t.arg, pv)]
        if t.is_abs() or t.is_bound():
            raise ValueError("binder in rule")
        return ["a", self.atom(t)]

    def dec(self, s):
        T = self.env.term
        if s[0] == "a":
            return self.rev[int(s[1])]
        if s[0] == "c":
            return T.Comb(self.dec(s[1]), self.dec(s[2]))
        if s[0] == "l":
            return T.Lambda(self.rev[int(s[1])], self.dec(s[2]))
        raise ValueError(s)


MODEL_RULES = [("nat_plus_def_1", False), ("add_0_right", False), ("nat_plus_def_2", False), ("mult_1_left", False),
               ("add_comm", False), ("add_1_right", True), ("double_neg", False), ("distrib_l", False),
               ("mult_comm", False), ("add_assoc", True)]
ERRMAP = {"ConvException": "conv", "InvalidDerivationException": "invalid", "AssertionError": "assertion"}


def gen_model_ce(rng, depth, top=None, noloop=False):
    """Conversion expressions inside the fragment the Lean model interprets."""
    rules = [r for r in MODEL_RULES if not (noloop and r[0] in ("add_comm", "mult_comm"))]
    unary = ["abs", "try", "comb1", "arg", "fun", "arg1", "binop", "repeat", "sub", "bottom", "topsweep"]
    k = top
    if k is None:
        if depth <= 0 or rng.random() < 0.35:
            r = rng.random()
            if r < 0.08:
                return ["all"]
            if r < 0.14:
                return ["no"]
            b = ["rule"] + list(rng.choice(rules))
            r = rng.random()
            return b if r < 0.4 else ["try", b] if r < 0.7 else ["topsweep", b] if r < 0.85 else ["bottom", b]
        k = rng.choice(unary + ["comb", "then", "else", "every", "top"])
    sub = lambda: gen_model_ce(rng, depth - 1, noloop=noloop or k in ("repeat", "top", "bottom"))  # noqa
    if k in unary:
        return [k, sub()]
    if k in ("comb", "then", "else"):
        return [k, sub(), sub()]
    return [k] + [sub() for _ in range(rng.randint(0 if k == "every" else 1, 3))]


def model_ce_to_impl(ce):
    k = ce[0]
    if k == "rule":
        return ["rewr", ce[1], ce[2], [], "sorry"]
    if k in ("all", "no"):
        return ce
    return [{"topsweep": "top_sweep"}.get(k, k)] + [model_ce_to_impl(c) for c in ce[1:]]


def model_ce_to_sexp(env, codec, ce):
    k = ce[0]
    if k == "rule":
        th = env.theory.get_theorem(ce[1])
        l, r = th.prop.lhs, th.prop.rhs
        if ce[2]:
            l, r = r, l
        pv = {}
        return ["rewr", codec.pat(l, pv), codec.pat(r, pv)]
    if k in ("all", "no"):
        return k
    return [k] + [model_ce_to_sexp(env, codec, c) for c in ce[1:]]


def stage_corr_conv(ctx, env):
    """The combinators over first-order rewrite rules against `interp`."""
    rng = ctx.rng("corr/conv")
    n = ctx.scale(250, 5000)
    cases, lines = [], []
    tops = ["then", "else", "try", "comb", "comb1", "arg", "fun", "arg1", "binop", "abs", "sub", "repeat", "bottom", "top",
            "topsweep", "every", None, None]
    for _ in range(n):
        top = rng.choice(tops)
        ce = gen_model_ce(rng, rng.randint(1, 3), top=top)
        g = BGen(env, rng)
        t = g.any(rng.randint(1, 4)) if rng.random() < 0.7 else env.term.Lambda(g.bvar(), g.N(2))
        codec = TermCodec(env)
        try:
            line = sexp.dumps(["conv", 400, model_ce_to_sexp(env, codec, ce), codec.enc(t)])
        except ValueError:
            continue
        hyps = set()
        try:
            cv = build_cv(env, model_ce_to_impl(ce), hyps)
            with time_limit(20):
                pt = cv.get_proof_term(t)
            impl = ("ok", pt.prop.lhs, pt.prop.rhs)
        except Timeout:
            continue
        except RecursionError:
            continue
        except Exception as e:  # noqa
            impl = ("err", ERRMAP.get(type(e).__name__, type(e).__name__))
        cases.append((ce, t, impl, codec))
        lines.append(line)
    out = ctx.lean_driver(EXE, lines) if lines else []
    if out is None:
        ctx.broken("correspondence:c10:driver", "model driver unavailable")
        return
    nd = 0
    for (ce, t, impl, codec), m in zip(cases, out):
        ms = sexp.loads(m)
        if ms == "bad-op":
            model = ("bad-op",)
        elif ms[0] == "ok":
            model = ("ok", codec.dec(ms[1]), codec.dec(ms[2]))
        else:
            model = ("err", ms[1])
        ctx.case(("conv-corr", json.dumps(ce), str(tj(t))), nontrivial=(impl[0] == "ok" and impl[1] != impl[2]))
        agree = impl == model
        ctx.count("corr:conv:%s:%s" % (ce[0], "agree" if agree else "DISAGREE"))
        ctx.count("corr:conv:outcome:%s" % (impl[0] if impl[0] == "ok" else "err-" + impl[1]))
        if not agree:
            nd += 1
            if nd <= 3:
                ctx.broken("correspondence:c10:conv", "%s on %s: impl=%s model=%s" % (json.dumps(ce), t, [str(x) for x in impl], [str(x) for x in model]))
                ctx.coverage["disagreements_checked"] += 1
                # failing-input search: the property oracle on exactly this input
                judge(env, ctx, "logic.conv.%s" % ce[0], model_ce_to_impl(ce), t)


# ---------------------------------------------------------------------- combinators with hypotheses
COND_RULES = ["min_simp1", "sub_add", "Suc_Pre", "div_refl", "mod_lt", "div_lt", "nat_le_zero"]


def rule_parts(env, rule, sym):
    """(hyps, As, lhs, rhs) of the rewrite theorem of a "rewrh" leaf."""
    if isinstance(rule, str):
        th = env.theory.get_theorem(rule)
    else:
        th = env.Thm(jt(env, rule[1]), *[jt(env, h) for h in rule[2]])
    As, Cc = th.prop.strip_implies()
    l, r = Cc.lhs, Cc.rhs
    if sym:
        l, r = r, l
    return list(th.hyps), As, l, r


def ceh_to_sexp(env, codec, ce):
    k = ce[0]
    if k == "rewrh":
        hs, As, l, r = rule_parts(env, ce[1], ce[2])
        pv = {}
        asms = [codec.pat(a, pv) for a in As]
        return ["rewrc", [codec.enc(h) for h in hs], asms, codec.pat(l, pv), codec.pat(r, pv),
                [[[codec.enc(jt(env, h)) for h in c[1]], codec.enc(jt(env, c[0]))] for c in ce[3]]]
    if k in ("all", "no"):
        return k
    return [{"top_sweep": "topsweep"}.get(k, k)] + [ceh_to_sexp(env, codec, c) for c in ce[1:]]


def gen_cond_leaf(env, rng, g, scope):
    """A conditional rewrite with its conditions, and an instance of its left side: mostly the
    conditions fit the instance; near misses (swapped / other arguments, wrong number of conditions)
    and conditions that carry hypotheses of their own (possibly about the bound variables)."""
    T = env.term
    r = rng.random()
    a, b = g.N(rng.randint(0, 1), scope), g.N(rng.randint(0, 1), scope)

    def extra():
        pool = [env.nat.less_eq(env.v["k"], env.v["m"]), env.v["A"], env.v["P"](env.v["n"]), T.Eq(a, b)]
        pool += [env.nat.less_eq(u, env.v["k"]) for u in scope] + [env.v["P"](u) for u in scope]
        if scope:
            pool.append(T.Forall(scope[0], env.v["P"](scope[0])))        # bound: not an occurrence
        return [tj(h) for h in rng.sample(pool, rng.choice([0, 0, 1, 1, 2]))]

    if r < 0.12:        # a supplied equation with hypotheses of its own as the rule
        eq = T.Eq(a, b)
        return ["rewrh", ["pt", tj(eq), extra()], rng.random() < 0.3, []], a
    if r < 0.22:        # unconditional theorem
        nm, sym = rng.choice(MODEL_RULES[:4] + MODEL_RULES[5:8])
        th = env.theory.get_theorem(nm)
        return ["rewrh", nm, sym, []], None
    nm = rng.choice(COND_RULES)
    th = env.theory.get_theorem(nm)
    As, Cc = th.prop.strip_implies()
    svs = T.get_svars(As + [Cc]) if hasattr(T, "get_svars") else []
    inst = {}
    for sv in svs:
        inst[sv.name] = rng.choice([a, b, g.N(0, scope)])
    from kernel.term import Inst
    ii = Inst(**inst)
    conds = [[tj(A.subst(ii)), extra() if rng.random() < 0.6 else []] for A in As]
    lhs = Cc.lhs.subst(ii)
    q = rng.random()
    if q < 0.12 and conds:          # near miss: the condition is about other arguments
        inst2 = dict(inst)
        k0 = rng.choice(sorted(inst2))
        inst2[k0] = g.N(1, scope)
        conds[0][0] = tj(As[0].subst(Inst(**inst2)))
    elif q < 0.17:
        conds = conds[:-1]          # wrong number of conditions
    elif q < 0.22:
        conds = conds + [[tj(env.v["A"]), []]]
    return ["rewrh", nm, False, conds], lhs


def gen_ceh(env, rng, g, depth, leaves, scope, noloop=False):
    unary = ["abs", "try", "comb1", "arg", "fun", "arg1", "binop", "repeat", "sub", "bottom", "topsweep"]
    if depth <= 0 or rng.random() < 0.35:
        r = rng.random()
        if r < 0.06:
            return ["all"]
        if r < 0.1:
            return ["no"]
        leaf, inst = gen_cond_leaf(env, rng, g, scope)
        if inst is not None:
            leaves.append(inst)
        r = rng.random()
        return leaf if r < 0.3 else ["try", leaf] if r < 0.6 else ["topsweep", leaf] if r < 0.8 else ["bottom", leaf]
    k = rng.choice(unary + ["comb", "then", "else", "every", "top", "top", "abs"])
    sub = lambda: gen_ceh(env, rng, g, depth - 1, leaves, scope, noloop=noloop or k in ("repeat", "top", "bottom"))  # noqa
    if k in unary:
        return [k, sub()]
    if k in ("comb", "then", "else"):
        return [k, sub(), sub()]
    return [k] + [sub() for _ in range(rng.randint(0 if k == "every" else 1, 3))]


def ceh_to_impl(ce):
    k = ce[0]
    if k in ("rewrh", "all", "no"):
        return ce
    return [{"topsweep": "top_sweep"}.get(k, k)] + [ceh_to_impl(c) for c in ce[1:]]


def stage_corr_convh(ctx, env):
    """The combinators over CONDITIONAL rewrite rules against `interpH` (HypModel.lean): the whole
    sequent -- set of hypotheses, left side, right side -- or the error class; and the property
    (left side is the input, hypotheses among the supplied ones, proof accepted) on every result."""
    rng = ctx.rng("corr/convh")
    n = ctx.scale(220, 6000)
    T = env.term
    cases, lines = [], []
    for _ in range(n):
        g = BGen(env, rng)
        scope = tuple(rng.choice([env.v["m"], env.v["n"], g.bvar()]) for _ in range(rng.choice([0, 1, 1, 2])))
        leaves = []
        ce = gen_ceh(env, rng, g, rng.randint(0, 3), leaves, scope)
        # a term containing the instances, under the binders of `scope`
        parts = leaves[:3] + [g.N(rng.randint(0, 2), scope) for _ in range(rng.choice([0, 1, 1, 2]))]
        rng.shuffle(parts)
        t = None
        for pz in parts:
            if pz.get_type() != env.T["nat"]:
                continue
            w = rng.choice([pz, env.v["f"](pz), env.nat.Suc(pz)])
            t = w if t is None else rng.choice([t + w, env.v["g"](t, w), w * t])
        if t is None:
            t = g.N(2, scope)
        for u in reversed(scope):
            r = rng.random()
            if r < 0.5:
                t = T.Lambda(u, t)
            elif r < 0.7:
                t = T.Lambda(u, t)(g.N(1)) if t.get_type() == env.T["nat"] else T.Lambda(u, t)
            if rng.random() < 0.3 and t.get_type() == env.T["nat"]:
                t = env.v["f"](t)
        codec = TermCodec(env)
        try:
            line = sexp.dumps(["convh", 400, ceh_to_sexp(env, codec, ce), codec.enc(t)])
        except ValueError:
            continue
        hyps = set()
        try:
            cv = build_cv(env, ceh_to_impl(ce), hyps)
            with time_limit(20):
                pt = cv.get_proof_term(t)
            impl = ("ok", frozenset(pt.hyps), pt.prop.lhs, pt.prop.rhs)
        except Timeout:
            continue
        except RecursionError:
            continue
        except Exception as e:  # noqa
            impl = ("err", ERRMAP.get(type(e).__name__, type(e).__name__))
        cases.append((ce, t, impl, codec, hyps))
        lines.append(line)
    out = ctx.lean_driver(EXE, lines) if lines else []
    if out is None:
        ctx.broken("correspondence:c10:driver", "model driver unavailable")
        return
    nd = 0
    for (ce, t, impl, codec, hyps), m in zip(cases, out):
        ms = sexp.loads(m)
        if ms == "bad-op":
            model = ("bad-op",)
        elif ms[0] == "ok":
            model = ("ok", frozenset(codec.dec(h) for h in ms[1]), codec.dec(ms[2]), codec.dec(ms[3]))
        else:
            model = ("err", ms[1])
        nontriv = impl[0] == "ok" and impl[2] != impl[3]
        ctx.case(("convh-corr", json.dumps(ce), str(tj(t))), nontrivial=nontriv)
        agree = impl == model
        ctx.count("corr:convh:%s:%s" % (ce[0], "agree" if agree else "DISAGREE"))
        ctx.count("corr:convh:outcome:%s" % ((("ok-with-hyps" if impl[1] else "ok-changed") if nontriv else "ok-refl") if impl[0] == "ok" else "err-" + impl[1]))
        # the property on the implementation's own result
        if impl[0] == "ok" and (nontriv or impl[1]):
            judge(env, ctx, "logic.conv.%s" % ceh_to_impl(ce)[0], ceh_to_impl(ce), t)
        if not agree:
            nd += 1
            if nd <= 3:
                ctx.broken("correspondence:c10:convh", "%s on %s: impl=%s model=%s" % (
                    json.dumps(ce), t, [str(x) if not isinstance(x, frozenset) else sorted(map(str, x)) for x in impl],
                    [str(x) if not isinstance(x, frozenset) else sorted(map(str, x)) for x in model]))
                ctx.coverage["disagreements_checked"] += 1
                judge(env, ctx, "logic.conv.%s" % ceh_to_impl(ce)[0], ceh_to_impl(ce), t)


# ====================================================================== independent polynomial evaluator
class Poly:
    """Exact-rational multivariate polynomials, written for this harness only (nothing of util/poly.py
    or of the normalisers is used).  A polynomial is a dict {monomial: Fraction}, a monomial a sorted
    tuple of (atom key, power >= 1); atoms are whatever the normaliser of the type leaves opaque, keyed
    by the raw syntax tree.  Conventions are those of the library, not of analysis: p ^ 0 = 1 for
    EVERY p (theorems nat_power_def_1 / real_nat_power_def_1), also for the zero polynomial.
    nat: `a - b` and `a ^ n` are opaque atoms (norm_full has no rule for them, also when a and b are
    numerals).  int: `a ^ n` is only generated with a variable base and n >= 1."""

    def __init__(self, ty):
        self.ty = ty
        self.atoms = {}

    def key(self, a):
        k = json.dumps(a, default=str)
        self.atoms[k] = a
        return k

    @staticmethod
    def const(c):
        c = Fraction(c)
        return {(): c} if c != 0 else {}

    @staticmethod
    def add(p, q, sign=1):
        r = dict(p)
        for m, c in q.items():
            v = r.get(m, 0) + sign * c
            if v == 0:
                r.pop(m, None)
            else:
                r[m] = v
        return r

    @staticmethod
    def mul(p, q):
        r = {}
        for m1, c1 in p.items():
            for m2, c2 in q.items():
                d = dict(m1)
                for k, e in m2:
                    d[k] = d.get(k, 0) + e
                m = tuple(sorted(d.items()))
                v = r.get(m, 0) + c1 * c2
                if v == 0:
                    r.pop(m, None)
                else:
                    r[m] = v
        return r

    def power(self, p, n):
        r = {(): Fraction(1)}          # p ^ 0 = 1, also for p = 0
        for _ in range(n):
            r = self.mul(r, p)
        return r

    def atom(self, a):
        return {((self.key(a), 1),): Fraction(1)}

    @staticmethod
    def nat_value(e):
        """Value of a closed nat expression (truncated subtraction), None if not closed."""
        k = e[0]
        if k == "c":
            return e[1]
        if k in ("+", "*", "-"):
            x, y = Poly.nat_value(e[1]), Poly.nat_value(e[2])
            if x is None or y is None:
                return None
            return x + y if k == "+" else x * y if k == "*" else max(0, x - y)
        if k == "S":
            x = Poly.nat_value(e[1])
            return None if x is None else x + 1
        return None

    def ev(self, a):
        k, ty = a[0], self.ty
        if k == "c":
            return self.const(a[1])
        if k in ("v", "app"):
            return self.atom(a)
        if k == "+":
            return self.add(self.ev(a[1]), self.ev(a[2]))
        if k == "*":
            return self.mul(self.ev(a[1]), self.ev(a[2]))
        if k == "S":
            return self.add(self.ev(a[1]), self.const(1))
        if k == "-":
            if ty == "nat":
                return self.atom(a)
            return self.add(self.ev(a[1]), self.ev(a[2]), -1)
        if k == "neg":
            return self.mul(self.const(-1), self.ev(a[1]))
        if k == "/":
            return self.mul(self.const(Fraction(1) / a[2]), self.ev(a[1]))
        if k == "^":
            if ty == "nat":
                return self.atom(a)
            return self.power(self.ev(a[1]), a[2])
        if k == "^e":
            n = self.nat_value(a[2])
            if ty == "nat" or n is None:
                return self.atom(a)
            return self.power(self.ev(a[1]), n)
        raise TypeError(a)

    def render(self, p, rng):
        """A syntax tree for p that has nothing to do with how p was obtained: monomials in random
        order, random association, powers written as powers (int, real) or products (nat)."""
        mons = []
        for m, c in p.items():
            fs = []
            for k, e in m:
                at = self.atoms[k]
                if e == 1:
                    fs.append(at)
                elif self.ty == "nat" or rng.random() < 0.3:
                    fs.extend([at] * e)
                else:
                    fs.append(("^", at, e))
            rng.shuffle(fs)
            if c != 1 or not fs:
                cc = ("c", c.numerator if c.denominator == 1 else c)
                if fs and rng.random() < 0.5:
                    fs.append(cc)
                else:
                    fs.insert(0, cc)
            mons.append(build_assoc(rng, "*", fs))
        if not mons:
            return ("c", 0)
        rng.shuffle(mons)
        return build_assoc(rng, "+", mons)

    def perturb(self, p, rng):
        """A different polynomial close to p."""
        q = dict(p)
        r = rng.random()
        if q and r < 0.45:
            q.pop(rng.choice(sorted(q, key=repr)))
        elif q and r < 0.8:
            m = rng.choice(sorted(q, key=repr))
            q[m] = q[m] + 1
            if q[m] == 0:
                q[m] = Fraction(2)
        else:
            q = self.add(q, self.const(1))
        return q if q != p else self.add(p, self.const(1))


def gen_cancel(rng, ty, depth):
    """Arithmetic syntax trees with cancellation placed systematically: t - t, t + (-t), a*b - b*a
    (int, real), t * 0, 0 * t (all types) as summands, as factors and -- real -- as BASES of powers with
    exponent 0, 1, 2 and with exponents written as n - n, n - (n + 1), (n + 1) - n; the constants 0 and 1
    in every position.  (t / t is not generated: the code makes no claim about it.)"""
    V = TYVARS[ty]

    def leaf():
        r = rng.random()
        if r < 0.45:
            return ("v", rng.choice(V))
        if r < 0.7:
            return ("c", rng.choice([0, 1]))
        return ("c", gen_num(rng, ty))

    def zero(d):
        t = node(d - 1)
        cs = [("*", t, ("c", 0)), ("*", ("c", 0), t), ("c", 0)]
        if ty != "nat":
            u = node(d - 1)
            cs += [("-", t, t), ("+", t, ("neg", t)), ("-", ("*", t, u), ("*", u, t)), ("+", ("neg", t), t)]
        return rng.choice(cs)

    def natexp():
        n = rng.randint(0, 3)
        return rng.choice([("-", ("c", n), ("c", n)), ("-", ("c", n), ("c", n + 1)), ("-", ("c", n + 1), ("c", n)),
                           ("+", ("c", 1), ("c", 1)), ("c", 0), ("c", 1), ("-", ("c", n + 2), ("c", n))])

    def node(d):
        if d <= 0 or rng.random() < 0.2:
            return leaf()
        c = rng.randint(0, 11)
        if c <= 1:
            return ("+", node(d - 1), node(d - 1))
        if c <= 3:
            return ("*", node(d - 1), node(d - 1))
        if c == 4:
            return rng.choice([("+", node(d - 1), zero(d)), ("+", zero(d), node(d - 1))])
        if c == 5:
            return rng.choice([("*", node(d - 1), zero(d)), ("*", zero(d), node(d - 1))])
        if c == 6:
            one = rng.choice([("c", 1)] + ([("^", zero(d), 0), ("^", node(d - 1), 0), ("^e", zero(d), ("-", ("c", 2), ("c", 2)))]
                                            if ty == "real" else []))
            return rng.choice([("*", node(d - 1), one), ("*", one, node(d - 1))])
        if c == 7 and ty == "real":
            base = rng.choice([zero(d), node(d - 1), ("c", 0), ("c", 1)])
            return ("^", base, rng.choice([0, 0, 1, 2])) if rng.random() < 0.6 else ("^e", base, natexp())
        if c == 7 and ty == "int":
            return ("^", ("v", rng.choice(V)), rng.choice([1, 2, 3]))
        if c == 8 and ty != "nat":
            return ("-", node(d - 1), node(d - 1))
        if c == 9 and ty != "nat":
            return ("neg", node(d - 1))
        if c == 10 and ty == "nat":
            return ("S", node(d - 1))
        if c == 10 and ty == "real":
            return ("/", node(d - 1), rng.choice([2, 3, -2]))
        return zero(d)
    return node(depth)


def gen_nat_opaque(rng):
    """nat goals around what norm_full treats as atoms: truncated subtraction of numerals and of
    closed expressions, powers; one side has the atom, the other its VALUE (so convert_to_poly, which
    folds constant subtractions, equates what the normaliser cannot prove)."""
    x = ("v", rng.choice(TYVARS["nat"]))
    a, b = rng.randint(0, 6), rng.randint(0, 6)
    sub = rng.choice([("-", ("c", a), ("c", b)), ("-", ("+", ("c", a), ("c", 2)), ("+", ("c", 1), ("c", b))),
                      ("-", ("*", ("c", a), ("c", 2)), ("c", b)), ("-", ("c", a), ("c", a))])
    val = ("c", Poly.nat_value(sub))
    ctxs = [lambda h: ("+", x, h), lambda h: ("*", h, x), lambda h: ("+", ("*", x, h), ("v", "n")), lambda h: h,
            lambda h: ("S", ("+", h, x))]
    c = rng.choice(ctxs)
    return c(sub), c(val)


MACRO_TY = {"nat_norm": "nat", "real_norm": "real"}


def macro_judge(env, ctx, macro, t1, t2, equal, why):
    """A macro that decides `t1 = t2`: its fast evaluation and its checked proof term must report the
    same sequent or both refuse; `equal` is the verdict of the independent evaluator (None: no verdict).
    real_norm is trusted (level 0, no proof term): its evaluation is judged by the evaluator alone."""
    goal = env.term.Eq(t1, t2)
    replay = {"kind": "macro", "macro": macro, "t1": tj(t1), "t2": tj(t2), "equal": equal}
    stats = ctx.coverage.setdefault("decision_procedures", {}).setdefault(macro + " (macro)", {})

    def bump(k):
        stats[k] = stats.get(k, 0) + 1

    def viol(defect, what):
        bump("VIOLATION:" + defect)
        ctx.violation("%s-macro:%s" % (macro, defect), "%s on %s (%s): %s" % (macro, goal, why, what), replay)

    m = env.theory.get_macro(macro)
    ev = pf = None
    ev_err = pf_err = None
    try:
        with time_limit(60):
            ev = m.eval(goal, [])
    except Timeout:
        return
    except Exception as e:  # noqa
        ev_err = e
        if not env.own_error(e):
            return viol("crash:" + type(e).__name__, "eval raised %r" % (e,))
    has_proof = macro != "real_norm"      # level 0, get_proof_term raises NotImplementedError by design
    if has_proof:
        try:
            with time_limit(60):
                pt = m.get_proof_term(goal, [])
                pf = env.theory.check_proof(pt.export(), env.report.ProofReport(), check_level=0)
        except Timeout:
            return
        except Exception as e:  # noqa
            pf_err = e
            if not env.own_error(e):
                return viol("crash:" + type(e).__name__, "get_proof_term / check_proof raised %r" % (e,))
        if ev is not None and pf is None:
            return viol("eval-without-proof", "the fast evaluation reports %s but the proof term fails: %s: %s"
                        % (ev, type(pf_err).__name__, str(pf_err)[:120]))
        if ev is None and pf is not None:
            return viol("proof-without-eval", "the proof term proves %s but the fast evaluation fails: %r" % (pf, ev_err))
        if ev is not None and ev != pf:
            return viol("eval-differs", "eval reports %s, the checked proof term %s" % (ev, pf))
    accepted = ev is not None
    if accepted and (ev.prop != goal or ev.hyps):
        return viol("wrong-sequent", "reports %s" % ev)
    bump("accepted" if accepted else "refused")
    if equal is True and not accepted:
        return viol("rejects-equal-polynomials", "the two sides are the same polynomial")
    if equal is False and accepted:
        return viol("accepts-different-polynomials", "the two sides are different polynomials")
    ctx.count("macro:%s:%s" % (macro, "accepted" if accepted else "refused"))


EVAL_NORMALISERS = {
    "data.nat.norm_full": ("nat", "nat_norm"),
    "data.integer.simp_full": ("int", None),
    "data.integer.int_norm_conv": ("int", None),
    "data.real.real_norm_conv": ("real", "real_norm"),
}


def stage_evaluator(ctx, env):
    """Cancellation-rich expressions against an independently rendered copy of their polynomial (same
    normal form demanded, refusal is a violation) and against a perturbed polynomial (different normal
    form demanded); the deciding macros on the same pairs, fast evaluation against checked proof term."""
    n = ctx.scale(70, 1500)
    dp = ctx.coverage.setdefault("decision_procedures", {})
    for label, (ty, macro) in EVAL_NORMALISERS.items():
        ce = ["cls", label]
        rng = ctx.rng("evaluator/" + label)
        st = dp.setdefault(label + " (normal forms of a pair)", {})
        for it in range(n):
            P = Poly(ty)
            a = gen_cancel(rng, ty, rng.randint(1, 3))
            pa = P.ev(a)
            if len(pa) > 14:
                continue
            b = P.render(pa, rng)
            c = P.render(P.perturb(pa, rng), rng)
            try:
                ta, tb, tc = to_term(env, a, ty), to_term(env, b, ty), to_term(env, c, ty)
            except Exception as e:  # noqa
                ctx.count("evaluator:gen-" + type(e).__name__)
                continue
            ok = canon_pair(env, ctx, label, ce, ta, tb, "polynomials equal by the independent evaluator")
            st["equal pair: " + ("same normal form" if ok else "NOT same")] = st.get("equal pair: " + ("same normal form" if ok else "NOT same"), 0) + 1
            oa = judge(env, ctx, label, ce, ta, record=False)
            oc = judge(env, ctx, label, ce, tc)
            if oa.kind == "ok" and oc.kind == "ok":
                same = oa.rhs == oc.rhs
                k = "different pair: " + ("SAME normal form" if same else "different normal forms")
                st[k] = st.get(k, 0) + 1
                if same:
                    ctx.violation("%s:identifies-different-polynomials" % label,
                                  "%s gives %s and %s (different polynomials) the same normal form %s" % (label, ta, tc, oa.rhs),
                                  {"kind": "distinct", "label": label, "ce": ce, "t1": tj(ta), "t2": tj(tc)})
            if macro:
                macro_judge(env, ctx, macro, ta, tb, True, "equal polynomials")
                macro_judge(env, ctx, macro, ta, tc, False, "different polynomials")
    # nat: atoms of the normaliser whose value convert_to_poly would fold
    rng = ctx.rng("evaluator/nat-opaque")
    for _ in range(ctx.scale(40, 600)):
        a, b = gen_nat_opaque(rng)
        P = Poly("nat")
        equal = P.ev(a) == P.ev(b)
        macro_judge(env, ctx, "nat_norm", to_term(env, a, "nat"), to_term(env, b, "nat"), equal,
                    "truncated subtraction is an atom of the normaliser")
    # int_eq_macro and int_norm_eq: equations between linear / polynomial sides
    rng = ctx.rng("evaluator/int-eq")
    for _ in range(ctx.scale(40, 600)):
        P = Poly("int")
        a, b = (gen_arith(rng, "int", rng.randint(0, 2), ops="++*-n", atoms=False) for _ in range(2))
        d = gen_arith(rng, "int", 1, ops="+*", atoms=False)
        equal = rng.random() < 0.6
        if equal:
            a2, b2 = rng.choice([(("+", a, d), ("+", b, d)), (("-", a, d), ("-", b, d)), (P.render(P.ev(a), rng), P.render(P.ev(b), rng)),
                                 (("-", a, b), ("c", 0))])
        else:
            a2, b2 = ("+", a, ("c", 1)), b
        T = env.term
        e1 = T.Eq(to_term(env, a, "int"), to_term(env, b, "int"))
        e2 = T.Eq(to_term(env, a2, "int"), to_term(env, b2, "int"))
        int_eq_judge(env, ctx, e1, e2, P.add(P.ev(a), P.ev(b), -1) == P.add(P.ev(a2), P.ev(b2), -1))
        lab = "data.integer.int_norm_eq"
        o = judge(env, ctx, lab, ["cls", lab], e1)
        st = dp.setdefault(lab + " (conversion)", {})
        k = "accepted" if o.kind == "ok" else "refused" if o.kind.startswith("own-error") else o.kind
        st[k] = st.get(k, 0) + 1
        if o.kind.startswith("own-error"):
            # "Prove two linear equations are equal": an equation between integer terms is its domain
            ctx.violation(lab + ":refuses-domain-term", "%s fails on the integer equation %s: %s" % (lab, e1, o.kind),
                          {"kind": "conv", "label": lab, "ce": ["cls", lab], "term": tj(e1), "in_domain": True, "must_succeed": True})
        if o.kind == "ok" and equal:
            # the same equation moved around (and the swapped one: the sign is normalised) has one normal form
            o2 = judge(env, ctx, lab, ["cls", lab], e2)
            o3 = judge(env, ctx, lab, ["cls", lab], T.Eq(e1.rhs, e1.lhs))
            for oo, other in ((o2, e2), (o3, T.Eq(e1.rhs, e1.lhs))):
                if oo.kind == "ok":
                    kk = "equivalent pair: " + ("same normal form" if oo.rhs == o.rhs else "NOT same")
                    st[kk] = st.get(kk, 0) + 1
                    if oo.rhs != o.rhs:
                        ctx.violation(lab + ":noncanonical", "%s: %s -> %s but %s -> %s" % (lab, e1, o.rhs, other, oo.rhs),
                                      {"kind": "canon", "label": lab, "ce": ["cls", lab], "t1": tj(e1), "t2": tj(other)})


def int_eq_judge(env, ctx, e1, e2, equal):
    goal = env.term.Eq(e1, e2)
    st = ctx.coverage.setdefault("decision_procedures", {}).setdefault("int_eq_macro (macro)", {})
    replay = {"kind": "int_eq", "t1": tj(e1), "t2": tj(e2), "equal": equal}
    try:
        with time_limit(60):
            pt = env.ProofTerm("int_eq_macro", goal, [])
            th = env.theory.check_proof(pt.export(), env.report.ProofReport(), check_level=0)
        acc = True
        if th.prop != goal or th.hyps:
            ctx.violation("int_eq_macro-macro:wrong-sequent", "int_eq_macro on %s proved %s" % (goal, th), replay)
    except Timeout:
        return
    except Exception as e:  # noqa
        if not env.own_error(e):
            ctx.violation("int_eq_macro-macro:crash:" + type(e).__name__, "int_eq_macro on %s raised %r" % (goal, e), replay)
            return
        acc = False
    k = "accepted" if acc else "refused"
    st[k] = st.get(k, 0) + 1
    if equal and not acc:
        ctx.violation("int_eq_macro-macro:rejects-equal-polynomials", "int_eq_macro refuses %s (both sides move to the same polynomial)" % goal, replay)
    if not equal and acc:
        ctx.violation("int_eq_macro-macro:accepts-different-polynomials", "int_eq_macro proves %s" % goal, replay)


# ====================================================================== binder-name clashes (de Bruijn inputs)
CLASH_NAMES = ["y", "m", "x", "A"]


class ClashGen:
    """Terms built directly in de Bruijn form (`Abs(name, T, body)`, `Bound i`) in which the binder's
    recorded NAME also occurs free in its body: as `Var(name, nat)` (same type), as a variable of
    another type (`name :: bool` in an `if`, `name :: nat => nat` applied), as the schematic variable
    `?name`; nested binders carry equal names; and a left side of one of the toy rewrite rules
    (`_ + 0`, `0 + _`, `1 * _`, `Suc _ + _`) sits under the binder and mentions both the bound and the
    clashing free variable.  A conversion that opens the binder with the recorded name instead of a
    fresh one captures the free variable and answers about another term."""

    def __init__(self, env, rng):
        self.env, self.rng = env, rng
        self.T = env.term
        self.nat, self.bool = env.T["nat"], env.T["bool"]
        # explicit constants: `a + b` on terms asks for the type of `a`, which a loose Bound has not
        self.add = lambda a, b: env.nat.plus(a, b)    # noqa
        self.mul = lambda a, b: env.nat.times(a, b)   # noqa
        self.eq = lambda a, b: env.term.equals(self.nat)(a, b)  # noqa

    def free(self, nm):
        """An occurrence of the clashing name that is NOT the bound variable."""
        T, r = self.T, self.rng.random()
        if r < 0.6:
            return T.Var(nm, self.nat)
        if r < 0.75:
            return T.SVar(nm, self.nat)
        if r < 0.9:
            return T.Var(nm, self.env.TFun(self.nat, self.nat))(self.atom_other())
        return self.env.logic.if_t(self.nat)(T.Var(nm, self.bool), self.atom_other(), T.Nat(2))

    def atom_other(self):
        return self.rng.choice([self.env.v["n"], self.env.v["k"], self.T.Nat(self.rng.choice([0, 1, 2, 3]))])

    def leaf(self, names):
        """names: binder names, innermost first (index = de Bruijn index)."""
        T, rng = self.T, self.rng
        r = rng.random()
        if names and r < 0.4:
            return T.Bound(rng.randrange(len(names)))
        if names and r < 0.8:
            return self.free(rng.choice(names))
        return self.atom_other()

    def redex(self, names, d):
        """An instance of a toy rule's left side mentioning the bound and the clashing variable."""
        T, rng, env = self.T, self.rng, self.env
        a, b = self.N(names, d - 1), self.N(names, d - 1)
        c = rng.randint(0, 4)
        if c == 0:
            return self.add(a, T.Nat(0))
        if c == 1:
            return self.add(T.Nat(0), a)
        if c == 2:
            return self.mul(T.Nat(1), a)
        if c == 3:
            return self.add(env.nat.Suc(a), b)
        return self.add(self.add(a, T.Nat(0)), b)

    def N(self, names, d):
        T, rng, env = self.T, self.rng, self.env
        if d <= 0 or rng.random() < 0.25:
            return self.leaf(names)
        c = rng.randint(0, 7)
        if c <= 2:
            return self.redex(names, d)
        if c == 3:
            return self.add(self.N(names, d - 1), self.N(names, d - 1))
        if c == 4:
            return self.mul(self.N(names, d - 1), self.N(names, d - 1))
        if c == 5:
            return env.v["f"](self.N(names, d - 1))
        if c == 6:      # nested binder with an equal (or another clashing) name, applied: a beta-redex
            nm = names[0] if names and rng.random() < 0.7 else rng.choice(CLASH_NAMES)
            return T.Abs(nm, self.nat, self.N([nm] + list(names), d - 1))(self.N(names, d - 1))
        return env.v["g"](self.N(names, d - 1), self.leaf(names))

    def lam(self, names, d, depth=1):
        """%nm. ... (depth nested binders, mostly with equal names) in de Bruijn form."""
        rng = self.rng
        nm = names[0] if names and rng.random() < 0.7 else rng.choice(CLASH_NAMES)
        inner = [nm] + list(names)
        if depth > 1:
            return self.T.Abs(nm, self.nat, self.lam(inner, d, depth - 1))
        body = self.redex(inner, d) if rng.random() < 0.7 else self.N(inner, d)
        # make sure the bound variable and a clashing free one both occur
        if rng.random() < 0.8:
            body = self.add(body, self.T.Var(nm, self.nat)) if rng.random() < 0.5 else self.add(self.add(self.T.Bound(0), self.T.Nat(0)), body)
        return self.T.Abs(nm, self.nat, body)

    def B(self, names, d):
        """A formula whose arguments are clash terms (for quantifiers)."""
        T, rng, env = self.T, self.rng, self.env
        c = rng.randint(0, 3)
        if c == 0:
            return self.eq(self.redex(names, d), self.N(names, d))
        if c == 1:
            return env.nat.less_eq(self.redex(names, d), self.N(names, d))
        if c == 2:
            return T.Or(env.v["P"](self.leaf(names)), T.Or(env.v["A"], env.v["P"](self.leaf(names))))
        return env.v["P"](self.redex(names, d))

    def term(self, shape=None):
        """shape: 'abs' bare abstraction, 'abs2' two nested, 'app' applied abstraction,
        'all' / 'ex' quantifier, 'arg' abstraction-valued argument inside a larger term."""
        T, rng, env = self.T, self.rng, self.env
        shape = shape or rng.choice(["abs", "abs", "abs2", "app", "all", "ex", "arg", "eq"])
        d = rng.randint(1, 2)
        if shape == "abs":
            return self.lam([], d)
        if shape == "abs2":
            return self.lam([], d, depth=rng.choice([2, 2, 3]))
        if shape == "app":
            return self.lam([], d)(self.leaf(rng.sample(CLASH_NAMES, 1)))
        if shape in ("all", "ex"):
            nm = rng.choice(CLASH_NAMES)
            q = T.forall if shape == "all" else T.exists
            return q(self.nat)(T.Abs(nm, self.nat, self.B([nm], d)))
        if shape == "eq":
            return T.equals(env.TFun(self.nat, self.nat))(self.lam([], d), self.lam([], d))
        return self.add(self.lam([], d)(self.add(T.Nat(0), T.Var(rng.choice(CLASH_NAMES), self.nat))), T.Var("y", self.nat))


CLASH_RULES = [("add_0_right", False), ("nat_plus_def_1", False), ("mult_1_left", False), ("nat_plus_def_2", False),
               ("add_comm", False), ("add_1_right", True)]


def gen_clash_case(env, rng, model_only=False):
    """(label, model conversion expression, term).  The expression is in the fragment the Lean
    model interprets when `model_only`; otherwise beta_norm_conv and sort_conj/sort_disj (which run
    top_sweep_conv over their result) take part too."""
    g = ClashGen(env, rng)
    outer = rng.choice(["abs", "top", "bottom", "topsweep", "sub", "topsweep", "top", "bottom"] +
                       ([] if model_only else ["beta_norm", "sort", "int_norm"]))
    if outer == "beta_norm":
        if rng.random() < 0.6:
            # a beta-redex under a binder whose name clashes with a free variable of the body
            T = env.term
            nm = rng.choice(CLASH_NAMES)
            nm2 = nm if rng.random() < 0.5 else rng.choice(CLASH_NAMES)
            redex = T.Abs(nm2, g.nat, g.add(T.Bound(0), g.N([nm2, nm], 1)))(g.leaf([nm]))
            body = g.add(redex, g.free(nm)) if rng.random() < 0.5 else g.add(g.add(T.Bound(0), T.Var(nm, g.nat)), redex)
            t = T.Abs(nm, g.nat, body)
            if rng.random() < 0.4:
                t = t(g.atom_other())
            return "logic.conv.beta_norm_conv", ["beta_norm"], t
        return "logic.conv.beta_norm_conv", ["beta_norm"], g.term(rng.choice(["app", "arg", "abs", "abs2"]))
    if outer == "sort":
        T = env.term
        nm = rng.choice(CLASH_NAMES)
        P = env.v["P"]
        dis = T.Or(P(T.Var(nm, g.nat)), T.Or(env.v[rng.choice("AB")], P(T.Bound(0))))
        if rng.random() < 0.5:
            dis = T.Or(P(T.Bound(0)), T.Or(env.v["B"], T.Or(P(T.Var(nm, g.nat)), env.v["A"])))
        q = T.forall(g.nat)(T.Abs(nm, g.nat, dis))
        if rng.random() < 0.5:
            return "data.proplogic.sort_conj", ["cls", "data.proplogic.sort_conj"], T.And(env.v["C"], T.And(q, env.v["A"]))
        return "data.proplogic.sort_disj", ["cls", "data.proplogic.sort_disj"], T.Or(T.Not(q), env.v["A"])
    if outer == "int_norm":
        # an atom of the integer normaliser that contains a binder: its final top_conv sweeps reach inside
        T = env.term
        I = env.T["int"]
        nm = rng.choice(["i", "y"])
        F = T.Var("F", env.TFun(env.TFun(I, I), I))
        body = T.plus(I)(T.times(I)(T.Int(1), T.Bound(0)), T.Var(nm, I)) if rng.random() < 0.5 else T.times(I)(T.Var(nm, I) ** 1, T.Bound(0))
        return "data.integer.int_norm_conv", ["cls", "data.integer.int_norm_conv"], F(T.Abs(nm, I, body)) + env.v["j"]
    rules = [r for r in CLASH_RULES if not (outer in ("top", "bottom") and r[0] == "add_comm")]
    base = ["rule"] + list(rng.choice(rules))
    if rng.random() < 0.3:
        base = ["every", ["try", base], ["try", ["rule"] + list(rng.choice(rules[:4]))]]
    shape = None
    if outer == "abs":
        depth = rng.choice([1, 1, 2])
        inner = rng.choice([["topsweep", base], ["try", ["arg1", base]], ["bottom", base], ["try", base], ["top", base]])
        ce = ["abs", inner] if depth == 1 else ["abs", ["abs", inner]]
        shape = "abs" if depth == 1 else "abs2"
    elif outer == "sub":
        ce = ["sub", rng.choice([["topsweep", base], ["bottom", base], ["sub", ["topsweep", base]]])]
        shape = rng.choice(["abs", "abs2", "app"])
    else:
        ce = [outer, base]
    if rng.random() < 0.25 and outer != "abs":
        ce = ["then", ce, ["try", ["topsweep", ["rule"] + list(rng.choice(rules[:4]))]]]
    label = "logic.conv.%s_conv" % {"topsweep": "top_sweep"}.get(outer, outer)
    return label, ce, g.term(shape)


def stage_clash(ctx, env):
    """Binder-traversing conversions on de Bruijn inputs whose bound names clash with free (and
    schematic) variables of the body: the oracle, and the Lean combinator model on the same inputs
    (the codec opens binders with names of its own, fresh for the whole term)."""
    rng = ctx.rng("clash")
    n = ctx.scale(400, 6000)
    cases, lines = [], []
    for it in range(n):
        model_only = it % 2 == 0
        try:
            label, mce, t = gen_clash_case(env, rng, model_only)
        except Exception as e:  # noqa  building the input goes through the term constructors
            ctx.count("clash:gen-%s" % type(e).__name__)
            continue
        in_model = mce[0] not in ("beta_norm", "cls")
        ce = model_ce_to_impl(mce) if in_model else mce
        o = judge(env, ctx, label, ce, t)
        ctx.case(("clash", json.dumps(mce), str(tj(t))), nontrivial=(o.kind == "ok" and o.rhs != t))
        ctx.count("clash:%s:%s" % (label.split(".")[-1], o.kind.split(":")[0] if o.kind.startswith("own-error") else o.kind))
        if o.kind == "ok" and o.rhs != t:
            ctx.count("clash:fired-under-binder")
        if in_model and (o.kind == "ok" or o.kind.startswith("own-error")):
            codec = TermCodec(env, own_names=True)
            try:
                line = sexp.dumps(["conv", 400, model_ce_to_sexp(env, codec, mce), codec.enc(t)])
            except ValueError:
                continue
            impl = ("ok", t, o.rhs) if o.kind == "ok" else ("err", ERRMAP.get(o.kind.split(":")[1], o.kind.split(":")[1]))
            cases.append((mce, t, impl, codec))
            lines.append(line)
    out = ctx.lean_driver(EXE, lines) if lines else []
    if out is None:
        ctx.broken("correspondence:c10:driver", "model driver unavailable")
        return
    nd = 0
    for (mce, t, impl, codec), m in zip(cases, out):
        ms = sexp.loads(m)
        model = ("bad-op",) if ms == "bad-op" else ("ok", codec.dec(ms[1]), codec.dec(ms[2])) if ms[0] == "ok" else ("err", ms[1])
        agree = impl == model
        ctx.count("corr:clash:%s" % ("agree" if agree else "DISAGREE"))
        if not agree:
            nd += 1
            if nd <= 3:
                ctx.broken("correspondence:c10:clash", "%s on %s: impl=%s model=%s" % (json.dumps(mce), t, [str(x) for x in impl], [str(x) for x in model]))
                ctx.coverage["disagreements_checked"] += 1


# ====================================================================== polynomial layer (util/poly.py, convert_to_poly)
def nat_term_value(t):
    """Value of a closed nat term (numerals, +, *, truncated -, Suc); None otherwise."""
    if t.is_number():
        return t.dest_number()
    if t.is_plus() or t.is_times() or t.is_minus():
        a, b = nat_term_value(t.arg1), nat_term_value(t.arg)
        if a is None or b is None:
            return None
        return a + b if t.is_plus() else a * b if t.is_times() else max(0, a - b)
    if t.is_comb("Suc", 1):
        a = nat_term_value(t.arg)
        return None if a is None else a + 1
    return None


def poly_shape(t, ty):
    """How `convert_to_poly` of the type reads the top of t: (kind, children...) -- written from the
    three functions' case lists, in their order; 'atom' for everything they hand to `singleton`."""
    if t.is_var():
        return ("atom",)
    if t.is_number():
        return ("num", Fraction(t.dest_number()))
    if t.is_plus():
        return ("add", t.arg1, t.arg)
    if ty == "nat":
        if t.is_times():
            return ("mul", t.arg1, t.arg)
        if t.is_minus():
            a, b = nat_term_value(t.arg1), nat_term_value(t.arg)
            if a is not None and b is not None:
                return ("num", Fraction(max(0, a - b)))
        return ("atom",)
    if t.is_minus():
        return ("sub", t.arg1, t.arg)
    if t.is_uminus():
        return ("neg", t.arg)
    if t.is_times():
        return ("mul", t.arg1, t.arg)
    if ty == "real":
        if t.is_divides():
            c = t.arg.dest_number() if t.arg.is_number() else None
            if c:
                return ("scale", Fraction(1) / Fraction(c), t.arg1)
            return ("atom",)
        if t.is_nat_power():
            k = nat_term_value(t.arg)
            if k is not None:
                return ("pow", t.arg1, k)
    return ("atom",)


def poly_atoms(t, ty, acc):
    sh = poly_shape(t, ty)
    if sh[0] == "atom":
        acc.add(t)
    else:
        for c in sh[1:]:
            if hasattr(c, "is_comb"):
                poly_atoms(c, ty, acc)
    return acc


def pexp_of(t, ty, ranks):
    sh = poly_shape(t, ty)
    k = sh[0]
    if k == "atom":
        return ["at", ranks[t]]
    if k == "num":
        return ["num", sh[1].numerator, sh[1].denominator]
    if k == "pow":
        return ["pow", pexp_of(sh[1], ty, ranks), sh[2]]
    if k == "scale":
        return ["scale", sh[1].numerator, sh[1].denominator, pexp_of(sh[2], ty, ranks)]
    return [k] + [pexp_of(c, ty, ranks) for c in sh[1:]]


def raw_pexp(t, ranks):
    """The term `from_poly` builds, read structurally (atoms, numerals, +, *, atom ^ numeral)."""
    if t in ranks:
        return ["at", ranks[t]]
    if t.is_number():
        c = Fraction(t.dest_number())
        return ["num", c.numerator, c.denominator]
    if t.is_plus():
        return ["add", raw_pexp(t.arg1, ranks), raw_pexp(t.arg, ranks)]
    if t.is_times():
        return ["mul", raw_pexp(t.arg1, ranks), raw_pexp(t.arg, ranks)]
    if t.is_nat_power() and t.arg.is_number():
        return ["pow", raw_pexp(t.arg1, ranks), t.arg.dest_number()]
    raise KeyError(str(t))


def poly_to_sexp(p, ranks):
    out = []
    for m in p.monomials:
        c = Fraction(m.coeff)
        out.append([[[ranks[b], e] for b, e in m.factors], c.numerator, c.denominator])
    return out


def stage_corr_poly(ctx, env):
    """`convert_to_poly` (nat, int, real) and `from_poly` (int, real) against the Lean model of
    util/poly.py on every expression of the cancellation generator (plus plain random ones): the
    monomial LIST is compared -- order, factors, powers, exact coefficients."""
    mods = {"nat": env.nat, "int": env.integer, "real": env.real}
    n = ctx.scale(120, 2500)
    cases, lines = [], []
    for ty in ("nat", "int", "real"):
        rng = ctx.rng("corr/poly/" + ty)
        for it in range(n):
            r = it % 4
            if r == 3 and ty == "nat":
                a = rng.choice(gen_nat_opaque(rng))
            elif r == 2:
                a = gen_arith(rng, ty, rng.randint(1, 4), ops={"nat": "+++***S", "int": "+++***-n^", "real": "+++***-n^/"}[ty],
                              atoms=(ty != "int"))
            else:
                a = gen_cancel(rng, ty, rng.randint(1, 4))
            try:
                t = to_term(env, a, ty)
            except Exception:  # noqa
                continue
            atoms = poly_atoms(t, ty, set())
            ranks = {x: i for i, x in enumerate(env.term_ord.sorted_terms(list(atoms)))}
            expr = pexp_of(t, ty, ranks)
            ops = ["topoly"]
            # int: from_mono writes x ^ n, which int's convert_to_poly reads as an ATOM (it has no power
            # case); a term that already has such an atom makes the reading of the result ambiguous
            if ty == "real" or (ty == "int" and not any(x.is_nat_power() for x in atoms)):
                ops.append("frompoly")
            if ty == "real":
                ops.append("realnorm")
            for op in ops:
                try:
                    with time_limit(30):
                        p = mods[ty].convert_to_poly(t)
                        if op == "topoly":
                            impl = sexp.dumps(poly_to_sexp(p, ranks))
                        elif op == "frompoly":
                            back = mods[ty].from_poly(p)
                            impl = sexp.dumps(raw_pexp(back, ranks))
                        else:   # the conversion itself: its right side is from_poly(convert_to_poly t)
                            back = env.real.real_norm_conv().get_proof_term(t).prop.rhs
                            impl = sexp.dumps(raw_pexp(back, ranks))
                except Timeout:
                    continue
                except Exception as e:  # noqa
                    impl = "raise:" + type(e).__name__
                cases.append((ty, op, t, impl))
                lines.append(sexp.dumps(["frompoly" if op == "realnorm" else op, expr]))
    out = ctx.lean_driver(EXE, lines, timeout=1200) if lines else []
    if out is None:
        ctx.broken("correspondence:c10:driver", "model driver unavailable")
        return
    nd = 0
    for (ty, op, t, impl), m in zip(cases, out):
        ctx.case(("poly", ty, op, str(tj(t))), nontrivial=not t.is_var())
        agree = impl.replace(" ", "") == m.replace(" ", "")
        ctx.count("corr:%s:%s:%s" % (op, ty, "agree" if agree else "DISAGREE"))
        if not agree:
            nd += 1
            if nd <= 3:
                ctx.broken("correspondence:c10:%s" % op, "%s %s of %s: impl=%s model=%s" % (ty, op, t, impl[:300], m[:300]))
                ctx.coverage["disagreements_checked"] += 1


# ====================================================================== integer Conv normaliser (simp_full, int_norm_conv, int_norm_eq)
def iexp_atoms(t, acc):
    if t.is_number():
        return acc
    if t.is_plus() or t.is_minus() or t.is_times():
        iexp_atoms(t.arg1, acc)
        iexp_atoms(t.arg, acc)
    elif t.is_uminus():
        iexp_atoms(t.arg, acc)
    elif t.is_nat_power() and t.arg.is_number():
        iexp_atoms(t.arg1, acc)
    else:
        acc.add(t)
    return acc


def iexp_of(t, ranks):
    """Integer term as the model reads it (the case list of simp_full, in its order)."""
    if t.is_number():
        return ["num", int(t.dest_number())]
    if t.is_plus():
        return ["add", iexp_of(t.arg1, ranks), iexp_of(t.arg, ranks)]
    if t.is_minus():
        return ["sub", iexp_of(t.arg1, ranks), iexp_of(t.arg, ranks)]
    if t.is_times():
        return ["mul", iexp_of(t.arg1, ranks), iexp_of(t.arg, ranks)]
    if t.is_nat_power() and t.arg.is_number():
        return ["pow", iexp_of(t.arg1, ranks), int(t.arg.dest_number())]
    if t.is_uminus():
        return ["neg", iexp_of(t.arg, ranks)]
    return ["at", ranks[t], t.size()]


def stage_corr_int(ctx, env):
    """simp_full, int_norm_conv and int_norm_eq against the Lean model IntModel.lean: right-hand sides
    compared as trees.  Atoms are integer variables (powers only of variables)."""
    n = ctx.scale(150, 3000)
    rng = ctx.rng("corr/int")
    I = env.integer
    cases, lines, shape_lines, frag_lines, canon_lines = [], [], [], [], []
    for it in range(n):
        r = it % 3
        if r == 0:
            a = gen_cancel(rng, "int", rng.randint(1, 3))
        else:
            a = gen_arith(rng, "int", rng.randint(1, 4), ops="+++***-n^", atoms=False)
        t = to_term(env, a, "int")
        b = gen_arith(rng, "int", rng.randint(0, 2), ops="++*-n", atoms=False)
        t2 = to_term(env, b, "int")
        atoms = iexp_atoms(t, set()) | iexp_atoms(t2, set())
        ranks = {x: i for i, x in enumerate(env.term_ord.sorted_terms(list(atoms)))}
        jobs = [("intsimp", lambda: I.simp_full().get_proof_term(t).prop.rhs, [iexp_of(t, ranks)]),
                ("intnorm", lambda: I.int_norm_conv().get_proof_term(t).prop.rhs, [iexp_of(t, ranks)])]
        if it % 2 == 0:
            eq = env.term.Eq(t, t2)
            jobs.append(("intnormeq", lambda: I.int_norm_eq().get_proof_term(eq).prop.rhs.arg1, [iexp_of(t, ranks), iexp_of(t2, ranks)]))
        for op, f, args in jobs:
            try:
                with time_limit(30):
                    rhs = f()
                extra = iexp_atoms(rhs, set()) - atoms
                impl = "new-atoms" if extra else sexp.dumps(iexp_of(rhs, ranks))
            except Timeout:
                continue
            except Exception as e:  # noqa
                impl = "raise:" + type(e).__name__
            cases.append((op, t, t2, impl))
            lines.append(sexp.dumps([op] + args))
            if op == "intsimp":
                # the hypothesis of int_norm_nf_closed / int_norm_idem (powers only of atoms), decided
                # by the driver on every generated input
                frag_lines.append(sexp.dumps(["isnfi"] + args))
                # the hypothesis fragI of int_norm_canonical (also: no exponent 0, atoms determined by rank)
                canon_lines.append(sexp.dumps(["fragi", args[0], args[0]]))
            if op == "intnormeq":
                # the hypothesis of int_norm_eq_canonical on the difference lhs - rhs
                d = ["sub", args[0], args[1]]
                canon_lines.append(sexp.dumps(["fragi", d, d]))
            if op == "intsimp" and impl.startswith("("):
                # the real simp_full output must itself have the normal-form shape isNFI of
                # int_norm_nf_closed
                shape_lines.append(sexp.dumps(["isnfishape", sexp.loads(impl)]))
    shape_out = ctx.lean_driver(EXE, shape_lines, timeout=600) if shape_lines else []
    for v in (shape_out or []):
        ctx.count("isnfi:" + v)
        if v != "T":
            ctx.broken("correspondence:c10:isnfi", "a simp_full output does not have the normal-form shape isNFI")
            break
    for v in (ctx.lean_driver(EXE, frag_lines, timeout=600) if frag_lines else []) or []:
        ctx.count("int:atomic-powers:" + v.replace(" ", ""))
    for v in (ctx.lean_driver(EXE, canon_lines, timeout=600) if canon_lines else []) or []:
        ctx.count("int:fragI:" + v.replace(" ", ""))
    out = ctx.lean_driver(EXE, lines, timeout=1200) if lines else []
    if out is None:
        ctx.broken("correspondence:c10:driver", "model driver unavailable")
        return
    nd = 0
    for (op, t, t2, impl), m in zip(cases, out):
        ctx.case(("int", op, str(tj(t)), str(tj(t2)) if op == "intnormeq" else ""), nontrivial=not t.is_var())
        agree = impl.replace(" ", "") == m.replace(" ", "")
        ctx.count("corr:%s:%s" % (op, "agree" if agree else "DISAGREE"))
        if not agree:
            nd += 1
            if nd <= 3:
                ctx.broken("correspondence:c10:%s" % op, "%s of %s%s: impl=%s model=%s" % (op, t, (" = %s" % t2) if op == "intnormeq" else "", impl[:300], m[:300]))
                ctx.coverage["disagreements_checked"] += 1


def stage_corr_bodycmp(ctx, env):
    """The model's `fastCmp` against the real `term_ord.fast_compare` on monomial bodies: products of
    1-3 atoms, the atoms being variables and compound terms chosen so that an atom and a product often
    have the SAME size (f (f m), g m n, m - n, m ^ 2, f (g m n) ...), and the constant `one`."""
    T = env.term
    v = env.v
    rng = ctx.rng("corr/bodycmp")
    m, n, k, f, g = v["m"], v["n"], v["k"], v["f"], v["g"]
    pool = [m, n, k, f(m), f(n), f(f(m)), f(f(k)), g(m, n), g(n, m), m - n, n - m, m ** 2, f(g(m, n)), g(f(m), n),
            f(f(f(m))), g(m, m), T.Const("min", env.TFun(env.T["nat"], env.T["nat"], env.T["nat"]))(m, n)]
    one = env.nat.one
    ranks = {x: i for i, x in enumerate(env.term_ord.sorted_terms(pool + [one]))}

    def body(rng):
        if rng.random() < 0.08:
            return one, ["num", 1]
        fs = [rng.choice(pool) for _ in range(rng.choice([1, 1, 2, 2, 3]))]
        t, sx = fs[0], nat_atom_sexp(fs[0], ranks)
        for x in fs[1:]:
            t, sx = t * x, ["mul", sx, nat_atom_sexp(x, ranks)]
        return t, sx
    cases, lines = [], []
    want = ctx.scale(400, 8000)
    tries = 0
    while len(cases) < want and tries < 40 * want:
        tries += 1
        (t1, s1), (t2, s2) = body(rng), body(rng)
        # half of the sample: an atom against a product of the same size
        if len(cases) % 2 == 0 and not (t1.size() == t2.size() and t1.is_times() != t2.is_times()):
            continue
        c = env.term_ord.fast_compare(t1, t2)
        cases.append((t1, t2, "lt" if c < 0 else "gt" if c > 0 else "eq"))
        lines.append(sexp.dumps(["bodycmp", ranks[one], s1, s2]))
    out = ctx.lean_driver(EXE, lines) if lines else []
    if out is None:
        ctx.broken("correspondence:c10:driver", "model driver unavailable")
        return
    nd = 0
    for (t1, t2, impl), mo in zip(cases, out):
        same_size = t1.size() == t2.size()
        mixed = same_size and (t1.is_times() != t2.is_times())
        ctx.count("corr:bodycmp:%s%s" % ("agree" if impl == mo else "DISAGREE", ":atom-vs-product-same-size" if mixed else ""))
        if impl != mo:
            nd += 1
            if nd <= 3:
                ctx.broken("correspondence:c10:bodycmp", "fast_compare(%s, %s) = %s, model %s" % (t1, t2, impl, mo))


# ====================================================================== histories through module-level caches
CACHE_MODULES = ["logic.auto", "logic.conv", "data.real", "data.nat", "data.integer"]


def clear_caches(env):
    """Empty every module-level memo of the conversions' modules (dicts named *_record / *_cache,
    functools caches) in place -- the state a fresh process starts from."""
    import importlib
    n = 0
    for mn in CACHE_MODULES:
        mod = importlib.import_module(mn)
        for name, val in list(vars(mod).items()):
            if isinstance(val, dict) and (name.endswith("_record") or name.endswith("_cache") or name.endswith("_memo")):
                val.clear()
                n += 1
            elif callable(val) and hasattr(val, "cache_clear"):
                val.cache_clear()
                n += 1
    return n


def history_terms(env, rng):
    """Real terms whose normal form depends on what is known about the sign of the bases (products
    of real powers of the same base), alone and inside larger terms."""
    x, y, z = env.v["x"], env.v["y"], env.v["z"]
    h = Fraction(1, 2)

    def pw(b):
        return rng.choice([b ** h, b ** Fraction(3, 2), b ** Fraction(-1, 2), b ** (-1), b, b ** 2])
    b = rng.choice([x, y])
    core = pw(b) * pw(b)
    r = rng.random()
    if r < 0.35:
        core = core * rng.choice([z, pw(rng.choice([x, y])), env.term.Real(2)])
    t = rng.choice([core, core + rng.choice([y, z, env.term.Real(1)]), rng.choice([z, y]) + core,
                    core * rng.choice([z, env.term.Real(3)]) + core])
    return t


def gen_history(env, rng):
    """A sequence of calls on the SAME term (and terms containing it) with different condition
    sets, through the conversions that use logic/auto.py's records."""
    T = env.term
    RT = env.T["real"]
    t = history_terms(env, rng)
    pos = {v: tj(T.greater(RT)(env.v[v], T.Real(0))) for v in "xyz"}
    sets = [[], [], [pos["x"]], [pos["y"]], [pos["x"], pos["y"]], [pos["x"], pos["y"], pos["z"]]]
    steps = []
    k = rng.randint(2, 4)
    for i in range(k):
        conds = rng.choice(sets)
        if i == k - 1 and rng.random() < 0.6:
            conds = []              # mostly: end without conditions
        kind = rng.random()
        if kind < 0.65:
            steps.append({"label": "logic.auto.auto_conv", "ce": ["auto", conds, "assume"], "term": tj(t)})
        elif kind < 0.8:
            u = t + env.v["z"] if rng.random() < 0.5 else T.Real(2) * t
            steps.append({"label": "logic.auto.auto_conv", "ce": ["auto", conds, "assume"], "term": tj(u)})
        elif kind < 0.9:
            c = getattr(T, rng.choice(["less", "greater_eq", "equals"]))(RT)(t, rng.choice([T.Real(0), env.v["z"]]))
            steps.append({"label": "data.real.real_norm_comparison", "ce": ["cls", "data.real.real_norm_comparison"], "term": tj(c)})
        else:
            a = rng.choice([env.v["x"], env.v["y"]])
            steps.append({"label": "data.real.combine_atom", "ce": ["clsc", "data.real.combine_atom", conds, "assume"],
                          "term": tj(a ** Fraction(1, 2) * a ** Fraction(1, 2))})
    return steps


def run_history(env, ctx, steps, record=True):
    """Reference: every step from a cleared state.  Then the steps in sequence from a cleared state:
    each result judged on its own (lhs, hypotheses within ITS conditions, checker) and compared with
    its reference."""
    refs = []
    for st in steps:
        clear_caches(env)
        o = judge(env, ctx, st["label"], st["ce"], jt(env, st["term"]), record=False)
        refs.append((o.kind, o.pt.th if o.pt is not None else None))
    clear_caches(env)
    bad = False
    for i, st in enumerate(steps):
        t = jt(env, st["term"])
        o = judge(env, ctx, st["label"], st["ce"], t, record=False)
        got = (o.kind, o.pt.th if o.pt is not None else None)
        ctx.count("history:%s:%s" % (st["label"].split(".")[-1], o.kind.split(":")[0] if not o.kind.startswith("violation") else o.kind))
        if o.kind.startswith("violation") or got != refs[i]:
            bad = True
            if record:
                defect = o.kind.split(":", 1)[1] if o.kind.startswith("violation") else "history-dependent"
                what = ("step %d of %d (%s on %s with conditions %s) returns %s; from a fresh state it returns %s%s"
                        % (i + 1, len(steps), st["label"], t, [str(jt(env, c)) for c in (st["ce"][1] if st["ce"][0] == "auto" else st["ce"][2] if st["ce"][0] == "clsc" else [])],
                           got[1] if got[1] is not None else o.kind, refs[i][1] if refs[i][1] is not None else refs[i][0],
                           ("; " + o.detail) if o.detail else ""))
                ctx.violation("%s:%s" % (st["label"], defect if defect != "history-dependent" else "history-dependent"), what,
                              {"kind": "history", "steps": steps})
            break
    clear_caches(env)
    return bad


def stage_history(ctx, env):
    rng = ctx.rng("history")
    n = ctx.scale(60, 1200)
    ncache = clear_caches(env)
    ctx.coverage["module_caches_found"] = ncache
    for _ in range(n):
        steps = gen_history(env, rng)
        ctx.case(("history", json.dumps(steps)), nontrivial=len({json.dumps(s["ce"]) for s in steps}) > 1)
        run_history(env, ctx, steps)


# ====================================================================== look-alike atoms; theories in sequence
def lookalike_atoms(env, rng, ty):
    """Two DIFFERENT atoms of type `ty` that are spelled the same: the same names and structure, other
    types inside (`fq q` with q :: nat and with q :: real).  Legal terms; every order on terms that the
    normalisers sort with has to tell them apart."""
    T, TT = env.term, env.T
    fn, vn = rng.choice(["fq", "gq"]), rng.choice(["q", "w"])
    a_ty, b_ty = rng.sample(["nat", "int", "real"], 2)
    shape = rng.choice(["app", "app", "app2", "var-under-fun"])

    def mk(at):
        v = T.Var(vn, TT[at])
        if shape == "app":
            return T.Var(fn, env.TFun(TT[at], TT[ty]))(v)
        if shape == "app2":
            return T.Var(fn, env.TFun(TT[at], TT[at], TT[ty]))(v, v)
        return T.Var(fn, env.TFun(env.TFun(TT[at], TT[at]), TT[ty]))(T.Var("hq", env.TFun(TT[at], TT[at])))
    return mk(a_ty), mk(b_ty)


def stage_lookalike(ctx, env):
    """Canonicity and idempotence on rearrangements whose atoms differ only in types."""
    T = env.term
    n = ctx.scale(10, 200)
    for label, (ce, ty, ops) in NORMALISERS.items():
        rng = ctx.rng("lookalike/" + label)
        for _ in range(n):
            A, B = lookalike_atoms(env, rng, ty)
            v = env.v[rng.choice(TYVARS[ty])]
            fold = lambda op, xs: functools.reduce(op, xs)      # noqa
            mul, add = (lambda x, y: x * y), (lambda x, y: x + y)
            k = rng.randint(0, 3)
            if k == 0:
                ms = [A, B] + ([v] if rng.random() < 0.4 else [])
                m2 = list(ms)
                while m2 == ms:
                    rng.shuffle(m2)
                t1, t2 = fold(mul, ms), fold(mul, m2)
            elif k == 1:
                ms = [A, B] + ([v] if rng.random() < 0.4 else []) + ([A * v] if rng.random() < 0.3 else [])
                m2 = list(ms)
                while m2 == ms:
                    rng.shuffle(m2)
                t1, t2 = fold(add, ms), fold(add, m2)
            elif k == 2:
                t1, t2 = (A + B) * v, v * B + v * A
            else:
                t1, t2 = A * B + B * A, T.Number(env.T[ty], 2) * (B * A)
            ctx.count("lookalike:%s" % label.split(".")[-1])
            canon_pair(env, ctx, label, ce, t1, t2, "rearrangements over atoms that differ only in types")
    for label, (ce, op, kind) in PROP_NORMALISERS.items():
        rng = ctx.rng("lookalike/" + label)
        for _ in range(n):
            A, B = lookalike_atoms(env, rng, "bool")
            o = op if op != "both" else rng.choice(["and", "or"])
            ms = [A, B] + ([env.v[rng.choice("ABCD")]] if rng.random() < 0.5 else []) + ([T.Not(A)] if rng.random() < 0.3 and kind == "literal" and False else [])
            m2 = list(ms)
            while m2 == ms:
                rng.shuffle(m2)
            mk = (lambda xs: functools.reduce(lambda x, y: T.And(x, y) if o == "and" else T.Or(x, y), xs))
            ctx.count("lookalike:%s" % label.split(".")[-1])
            canon_pair(env, ctx, label, ce, mk(ms), mk(m2), "the same member set, members that differ only in types")


THY_HISTORY_RULES = ["mult_comm", "add_comm", "distrib_l", "mult_1_left", "add_assoc", "mult_assoc", "add_0_right", "mult_0_right"]


def thy_history_case(env, ctx, name, wrap, record=True):
    """One theorem name requested by FRESH rewr_conv objects under theories in sequence: the full
    theory, the theory `nat` cut off just before that theorem (a `limit` context, as the server and the
    tests use), the full theory again.  Each result is judged in the theory it was requested in: its own
    error, or an equation about the term whose proof that theory's checker accepts."""
    from logic import context
    T = env.term
    natvars = {k: v for k, v in VARS.items() if v in ("nat", "nat => nat", "bool")}
    th = env.theory.get_theorem(name)
    m, n, k = env.v["m"], env.v["n"], env.v["k"]
    from kernel.term import Inst
    svs = T.get_svars(th.prop)
    pool = [m, n, k, m + n, T.Nat(2)]
    lhs = th.prop.lhs.subst(Inst(**{sv.name: pool[i % len(pool)] for i, sv in enumerate(svs)}))
    t = env.v["f"](lhs) if wrap != "bare" else lhs
    leaf = ["rewr", name, False, [], "sorry"]
    ce = leaf if wrap == "bare" else [wrap, leaf]
    bad = None
    try:
        for phase in ("full", "limited", "full"):
            if phase == "limited":
                context.set_context("nat", limit=("thm", name), vars=natvars)
                if env.theory.thy.has_theorem(name):
                    break
            o = judge(env, ctx, "logic.conv.rewr_conv", ce, t, record=False)
            ctx.count("thy-history:%s:%s:%s" % (phase, wrap, o.kind.split(":")[0] if not o.kind.startswith("violation") else o.kind))
            if o.kind.startswith("violation"):
                bad = (phase, o)
                break
            if phase == "limited":
                context.set_context(THEORY, vars=VARS)
    finally:
        context.set_context(THEORY, vars=VARS)
    if bad and record:
        phase, o = bad
        ctx.violation("logic.conv.rewr_conv:%s-after-use-in-other-theory" % o.kind.split(":", 1)[1],
                      "rewr_conv(%r) (through %s) on %s, requested in the %s theory after a use in the other one: %s"
                      % (name, wrap, t, phase, o.detail), {"kind": "thy-history", "name": name, "wrap": wrap})
    return bad is not None


def stage_thy_history(ctx, env):
    rng = ctx.rng("thy-history")
    for _ in range(ctx.scale(6, 60)):
        name = rng.choice(THY_HISTORY_RULES)
        wrap = rng.choice(["bare", "try", "top", "bottom", "top_sweep"])
        ctx.case(("thy-history", name, wrap))
        thy_history_case(env, ctx, name, wrap)


# ====================================================================== entry points
def run(ctx):
    ctx.coverage["rule"] = (
        "oracle: per Conv subclass (found by introspection of logic/conv.py, data/nat.py, data/integer.py, data/real.py, "
        "data/proplogic.py, logic/logic.py) terms of the class's documented domain from a seeded generator: random arithmetic over "
        "nat/int/real (variables, numerals, Suc, +, *, -, unary minus, numeral powers, division by constants), propositional "
        "formulas over 4 atoms + P n, terms with lambda/forall/exists and beta/eta redexes for the combinators (random nestings of "
        "the combinators over 19 base conversions incl. conditional rewrites); non-trivial = the conversion succeeded and changed "
        "the term; distinct by (conversion expression, term). canonicity: pairs (t, rearrangement of t) by commutativity, "
        "associativity, distribution, unit laws, numeral splitting, doubling, Suc/+1, minus unfolding, duplicated/permuted members. "
        "binder clashes: de Bruijn terms Abs(name, T, body) whose bound name also occurs free in the body (same type, other types, "
        "schematic), nested binders with equal names, a rule's left side under the binder; for abs/top/bottom/top_sweep/sub/"
        "beta_norm conversions, sort_conj/sort_disj and int_norm_conv; judged by the oracle and (combinators) by the Lean model, whose "
        "codec opens binders with names of its own.")
    ok = ctx.lean_props(["Holpy.C10.Props", "Holpy.C10.PropsPoly", "Holpy.C10.PropsPolySem", "Holpy.C10.PropsNatPoly", "Holpy.C10.PropsInt", "Holpy.C10.PropsHyp"], exes=[EXE])
    if ctx.tier == "thorough" and ok:
        ctx.lean_check_modules(["Holpy.C10.Props", "Holpy.C10.PropsPoly", "Holpy.C10.PropsPolySem", "Holpy.C10.PropsNatPoly", "Holpy.C10.PropsInt", "Holpy.C10.PropsHyp"])
    ctx.coverage["trusted_base"] += [
        "harness/props/c10.py: generators, term codec, ranking of members/atoms by the implementation's own term_ord.fast_compare",
        "kernel.theory.check_proof is the judge of 'checker-accepted' (check_level=0: every macro with an expansion is expanded)",
        "level-0 macros (nat_eval, int_eval, real_eval, real_norm, int_const_ineq, real_const_eq ...) are trusted by the checker (C05)"]
    ctx.assumptions += [
        "the atom/member order handed to the model is a strict total order (C03 cmp_total); the model takes it as Nat order on ranks",
        "hypotheses: the model HypModel.lean tracks them through the combinators and conditional rewr_conv (first-order, "
        "monomorphic rules; rule hypotheses without schematic variables); for every other Conv class they are judged on the "
        "implementation only",
        "nat subtraction, nat powers and function applications are opaque atoms of the nat normaliser; real powers with "
        "non-natural exponents are outside the canonicity check"]
    env = Env(ctx)
    G = make_gens(env)
    replay_corpus(ctx, env)
    stage_oracle(ctx, env, G)
    ctx.log("oracle done: %d cases" % ctx.coverage["evaluations"])
    stage_canon(ctx, env)
    ctx.log("canonicity done")
    stage_evaluator(ctx, env)
    ctx.log("evaluator pairs done")
    stage_clash(ctx, env)
    stage_history(ctx, env)
    stage_thy_history(ctx, env)
    stage_lookalike(ctx, env)
    ctx.log("histories done")
    stage_corr_acnorm(ctx, env)
    stage_corr_conv(ctx, env)
    stage_corr_convh(ctx, env)
    stage_corr_poly(ctx, env)
    stage_corr_int(ctx, env)
    stage_corr_bodycmp(ctx, env)
    for s in (stage_corr_natnorm,):
        s(ctx, env)
    ctx.log("correspondence done")


def nexp_of(env, t, ranks):
    """nat term -> the model's NExp; anything norm_full leaves alone is an atom (rank, size)."""
    if t.is_number():
        return ["num", t.dest_number()]
    if t.is_plus():
        return ["add", nexp_of(env, t.arg1, ranks), nexp_of(env, t.arg, ranks)]
    if t.is_times():
        return ["mul", nexp_of(env, t.arg1, ranks), nexp_of(env, t.arg, ranks)]
    if t.is_comb("Suc", 1):
        return ["suc", nexp_of(env, t.arg, ranks)]
    return nat_atom_sexp(t, ranks)


def nat_atom_sexp(t, ranks):
    """(at rank size fsz hgt): what fast_compare needs of an atom against a product of the same size."""
    from kernel import term as _T
    from kernel import term_ord as _O
    fsz = t.fun.size() if t.is_comb() else 1
    hgt = False
    if t.is_comb() and t.fun.is_comb():
        hgt = _O.fast_compare(t.fun.fun, _T.times(t.get_type())) > 0
    return ["at", ranks[t], t.size(), fsz, bool(hgt)]


def nat_atoms(t, acc):
    if t.is_number():
        return acc
    if t.is_plus() or t.is_times():
        nat_atoms(t.arg1, acc)
        nat_atoms(t.arg, acc)
    elif t.is_comb("Suc", 1):
        nat_atoms(t.arg, acc)
    else:
        acc.add(t)
    return acc


def stage_corr_natnorm(ctx, env):
    """data.nat.norm_full against the model `norm`.  Atoms: variables and f(variable) (sizes 1 and 3,
    so a product and a single atom never have the same size -- see Model.lean)."""
    rng = ctx.rng("corr/natnorm")
    n = ctx.scale(300, 6000)
    one = env.nat.one
    cases, lines, nf_lines, wf_lines = [], [], [], []
    fixed = ["(x * y) * (z * y)", "(x + y) + (z + y)", "(x + y) * (y + z)", "(x + y) * (x + y)", "0 + 1 * x + 0 * y", "x + 2 + y + 3",
             "3 * x * 5 * x", "(x + 2 * y) * (y + 2 * x)", "(3::nat) + 5 * 2", "x + Suc y", "Suc (x + Suc y)", "x * Suc y", "x * 1 * 1 * 1"]
    terms = []
    for sx in fixed:       # the examples of data/tests/nat_test.py (over m n k instead of x y z)
        terms.append(env.parser.parse_term(sx.replace("x", "m").replace("y", "n").replace("z", "k")))
    for _ in range(n):
        a = gen_arith(rng, "nat", rng.randint(0, 4), ops="+++***S", atoms=True)
        terms.append(to_term(env, a, "nat"))
    # compound atoms whose size ties with products (f (f m), g m n, m - n ...): the atom-against-product
    # branch of fast_compare
    v = env.v
    big = [v["m"], v["n"], v["f"](v["f"](v["m"])), v["g"](v["m"], v["n"]), v["m"] - v["n"], v["f"](v["m"]),
           v["g"](v["n"], v["n"]), v["f"](v["g"](v["m"], v["n"]))]

    def rnd(d):
        if d <= 0 or rng.random() < 0.3:
            return rng.choice(big) if rng.random() < 0.85 else env.term.Nat(rng.choice([0, 1, 2, 3]))
        a, b = rnd(d - 1), rnd(d - 1)
        return a + b if rng.random() < 0.5 else a * b
    for _ in range(ctx.scale(120, 2500)):
        terms.append(rnd(rng.randint(1, 3)))
    for t in terms:
        atoms = nat_atoms(t, set())
        ranked = env.term_ord.sorted_terms(list(atoms) + [one])
        ranks = {a: i for i, a in enumerate(ranked)}
        try:
            with time_limit(30):
                rhs = env.nat.norm_full().get_proof_term(t).prop.rhs
            extra = nat_atoms(rhs, set()) - atoms
            impl = "new-atoms" if extra else sexp.dumps(nexp_of(env, rhs, ranks))
        except Timeout:
            continue
        except Exception as e:  # noqa
            impl = "raise:" + type(e).__name__
        cases.append((t, impl))
        lines.append(sexp.dumps(["natnorm", ranks[one], nexp_of(env, t, ranks)]))
        # the implementation's own output must have the shape `isNF` (the half of norm_idem that
        # is not proved in Lean)
        nf_lines.append(sexp.dumps(["isnf", ranks[one], sexp.loads(impl)]) if impl.startswith("(") else "(isnf 0 (num 0))")
        wf_lines.append(sexp.dumps(["wfs", ranks[one], nexp_of(env, t, ranks)]))
    out = ctx.lean_driver(EXE, lines) if lines else []
    nf_out = ctx.lean_driver(EXE, nf_lines) if nf_lines else []
    # the decidable hypothesis of norm_full_iff_poly / norm_canonical on every generated input
    for v in (ctx.lean_driver(EXE, wf_lines) or []):
        ctx.count("wfs:" + v)
        if v != "T":
            ctx.broken("correspondence:c10:wfs", "a generated nat term violates the atoms-by-rank hypothesis of norm_canonical")
            break
    if out is None or nf_out is None:
        ctx.broken("correspondence:c10:driver", "model driver unavailable")
        return
    for (t, impl), v in zip(cases, nf_out):
        ctx.count("isnf:" + v)
        if v != "T":
            ctx.broken("correspondence:c10:isnf", "norm_full output %s of %s is not of the normal-form shape" % (impl, t))
            judge(env, ctx, "data.nat.norm_full", ["cls", "data.nat.norm_full"], t)
            break
    nd = 0
    for (t, impl), m in zip(cases, out):
        ctx.case(("natnorm", str(tj(t))), nontrivial=t.is_plus() or t.is_times())
        ctx.count("corr:natnorm:" + ("agree" if impl == m else "DISAGREE"))
        if impl != m:
            nd += 1
            if nd <= 3:
                ctx.broken("correspondence:c10:natnorm", "norm_full on %s: impl=%s model=%s" % (t, impl, m))
                ctx.coverage["disagreements_checked"] += 1
                judge(env, ctx, "data.nat.norm_full", ["cls", "data.nat.norm_full"], t)


def replay_one(ctx, env, r):
    k = r.get("kind")
    if k == "conv":
        o = judge(env, ctx, r["label"], r["ce"], jt(env, r["term"]), r.get("in_domain", True), limit=60)
        if r.get("must_succeed") and o.kind.startswith("own-error"):
            ctx.violation(r["label"] + ":refuses-domain-term", "%s fails on %s: %s" % (r["label"], jt(env, r["term"]), o.kind), r)
    elif k in ("canon", "idem"):
        t1 = jt(env, r["t1"])
        t2 = jt(env, r["t2"]) if "t2" in r else t1
        canon_pair(env, ctx, r["label"], r["ce"], t1, t2, "replayed pair")
    elif k == "macro":
        macro_judge(env, ctx, r["macro"], jt(env, r["t1"]), jt(env, r["t2"]), r.get("equal", True), "replay")
    elif k == "distinct":
        o1 = judge(env, ctx, r["label"], r["ce"], jt(env, r["t1"]))
        o2 = judge(env, ctx, r["label"], r["ce"], jt(env, r["t2"]))
        if o1.kind == "ok" and o2.kind == "ok" and o1.rhs == o2.rhs:
            ctx.violation("%s:identifies-different-polynomials" % r["label"], "same normal form %s for different polynomials" % o1.rhs, r)
    elif k == "history":
        run_history(env, ctx, r["steps"])
    elif k == "thy-history":
        thy_history_case(env, ctx, r["name"], r["wrap"])
    elif k == "int_eq":
        int_eq_judge(env, ctx, jt(env, r["t1"]), jt(env, r["t2"]), r["equal"])


def replay_corpus(ctx, env):
    p = os.path.join(ctx.verif, "corpus", "c10.json")
    if os.path.exists(p):
        with open(p) as f:
            for r in json.load(f):
                replay_one(ctx, env, r)
                ctx.count("corpus")


def replay(ctx, rp):
    """Re-run one recorded failing input on the implementation; True if it still fails."""
    env = Env(ctx)
    replay_one(ctx, env, rp["replay"])
    for v in ctx.violations:
        print("still fails:", v[1])
    for k in ctx.known_hits:
        print("still fails (known finding):", k)
    return bool(ctx.violations) or bool(ctx.known_hits)


MANIFEST = {
    "text": "PROVED IN LEAN (about executable models tied to the code by differential runs). "
            "(1) Combinators: conv_lhs / conv_lhs_combinators / conv_lhs_needs_hypothesis -- every nesting of then/else/try/"
            "combination/arg/fun/arg1/binop/abs/sub/repeat/bottom/top/top_sweep returns an equation whose left side is the input. "
            "(1h) The same combinators WITH HYPOTHESES (HypModel.lean: a conversion returns a sequent hyps |- lhs = rhs; Thm.transitive "
            "/ combination take the union, the reflexive short cuts of ProofTerm.transitive and combination_conv drop a premise "
            "with its hypotheses, Thm.abstraction refuses a bound variable free in a hypothesis -- ConvException from abs_conv, "
            "InvalidDerivationException through top_conv / top_sweep_conv --, rewr_conv(pt, conds) for a first-order rule "
            "H |- A1 --> .. --> An --> l = r: number of conditions, first_order_match_list on the conditions then the left side, "
            "unmatched variables, result hypotheses = H + those of every condition): conv_hyps_supplied (every nesting returns a "
            "sequent about the given term whose hypotheses are all among the hypotheses of the supplied rewrite theorems and "
            "condition proof terms), conv_hyps_combinators (combinator by combinator for arbitrary argument conversions that keep "
            "to a set S), rewr_conv_hyps (exactly H + condition hypotheses, only with the right number of conditions), "
            "abs_conv_hyps_closed (abs_conv never returns a hypothesis with the bound variable free), conv_hyps_needs_hypothesis. "
            "Tied by the convh stream: random nestings over conditional theorems of nat (min_simp1, sub_add, Suc_Pre, div_refl, "
            "mod_lt, div_lt, nat_le_zero), unconditional ones and supplied equations with hypotheses, conditions that fit / near-miss "
            "/ wrong number, conditions carrying hypotheses of their own incl. ones about the variables bound in the term; model and "
            "real code compared on the whole sequent (SET of hypotheses, lhs, rhs) or the error class, and every real result "
            "judged by the property oracle (lhs, hypotheses within the supplied, checker). "
            "(2) logic.conj_norm / disj_norm: conjNorm_canonical, disjNorm_canonical, conjNorm_idem, disjNorm_idem, conjNorm_sound, "
            "disjNorm_sound (any strict total order). "
            "(3) The polynomial layer util/poly.py (collect_pairs, Monomial, Polynomial +, *, scale, neg, -, **, compare_fst order) "
            "and convert_to_poly / from_poly of data/nat.py, data/integer.py, data/real.py on the fragment {atoms, numerals, +, *, "
            "unary/binary minus, ^ constant nat, scaling by a constant}: poly_eval_sound (value preserved in every commutative ring, "
            "x^0 = 1), poly_wellformed (results are sorted by compare_fst, no zero coefficient, canonical monomials), poly_canonical "
            "(expressions related by the congruence generated by the commutative-ring axioms -- assoc, comm, distrib, 0/1 laws, "
            "x + (-x) = 0, definitions of minus/scale, numeral arithmetic, x^0 = 1, x^(k+1) = x^k * x -- get the IDENTICAL monomial "
            "list), norm_respects_add_comm/_add_assoc/_mul_comm/_mul_assoc/_distrib/_zero/_one/_neg_cancel, ringEq_sound, "
            "poly_from_to and poly_norm_idem (convert_to_poly (from_poly p) = p; from_poly o convert_to_poly is stable). "
            "(4) The REAL normaliser real_norm_conv (= from_poly o convert_to_poly) and the real_norm macro's test: real_norm_sound, "
            "real_norm_canonical, real_norm_idem -- on this fragment the property's 'equal as polynomials => identical normal "
            "forms, normalising a normal form changes nothing' is a theorem about the model, and the model is compared with the "
            "real convert_to_poly / from_poly / real_norm_conv on every expression of the cancellation generator (monomial LIST: "
            "order, factors, powers, exact coefficients). "
            "(5) Semantic canonicity: poly_canonical_semantic -- over an infinite integral domain (Z, Q) two expressions have the "
            "IDENTICAL convert_to_poly list iff they have the same value under every valuation (via MvPolynomial.funext); "
            "poly_zero_of_eval_zero. "
            "(6) The nat Conv normaliser data.nat.norm_full (what nat_norm uses; not built on util/poly.py), fragment {atoms, "
            "numerals, Suc, +, *} (truncated subtraction, powers, applications are atoms): norm_sound, norm_sound_int, "
            "norm_full_poly_invariant, norm_nf_closed (the result always has the normal-form shape), norm_idem, norm_fixed_of_isNF, and "
            "CANONICITY: norm_full_iff_poly (identical normal form <=> identical convert_to_poly list), norm_canonical (terms "
            "related by the ring-axiom congruence get the identical normal form), norm_canonical_semantic (identical normal "
            "form <=> same value under every integer valuation) -- under the decidable hypothesis that atoms are determined by "
            "their rank (wfS; the driver's wfs op checks it on every generated input). The model's fastCmp is fast_compare on "
            "monomial bodies (lexicographic: size, function-part size, head against times, then structure / rank; compared with "
            "the real function by the bodycmp stream) and is proved a strict total order on product trees (swap, eq only on "
            "identical trees, transitivity). "
            "(7) The integer Conv normaliser (simp_full, int_norm_conv, int_norm_eq) is modelled (IntModel.lean) and compared tree "
            "for tree with the real conversions' right-hand sides: int_norm_sound (value preserved in Z), int_norm_eq_sound (the "
            "returned lhs = 0 is equivalent to a = b), int_norm_poly_invariant (normal form has the polynomial of the term; same "
            "normal form => same polynomial). Towards the converse, along the nat template: the model's order on numeral exponents and "
            "on monomial bodies (fast_compare: lexicographic size / function-part size / head / structure with base rank and numeral "
            "exponent; tied by the intsimp stream) is proved a strict total order (int_numCmp_total, int_bodyCmp_total: swap, eq only "
            "on identical bodies, transitivity); CLOSURE int_norm_nf_closed (simp_full returns 0 or a strictly increasing sum of "
            "monomials c * body, c != 0, with strictly increasing atomic bases; norm_add_monomial / norm_add_polynomial / subtraction "
            "/ norm_mult_polynomials keep that shape, also when coefficients cancel; int_mult_monomial_closed for the multiplicative "
            "layer) and IDEMPOTENCE int_norm_idem (simp_full rebuilds a normal form from its displayed presentation, so "
            "int_norm_conv applied to its own result changes nothing) -- on terms whose powers have atomic bases (atomicPowers; "
            "decided by the driver op isnfi on every generated input, and every real simp_full output is checked against the shape "
            "isNFI by the driver op isnfishape). CANONICITY int_norm_canonical: on the fragment fragI (powers only of atoms, no "
            "exponent 0 -- model and code both keep i ^ 0, normal form i ^ 0 and not 1, example in PropsInt.lean --, atoms "
            "determined by their rank; decided by the driver op fragi on every generated input) two integer terms have the same "
            "simp_full / int_norm_conv normal form exactly when they have the same value under every valuation (a normal form is "
            "determined by its polynomial: exponent vectors of bodies, coefficients of monomials, strictly sorted lists). "
            "int_norm_eq_canonical: equations whose differences lhs - rhs agree under every valuation (terms moved across =), and "
            "equations whose differences are negatives of each other (overall sign: b = a, -a = -b), get the identical int_norm_eq "
            "result (multiplying a normal form by -1 negates the coefficients in place, and the first-coefficient test picks the "
            "same representative) -- same fragment, on the two differences. int_norm_poly_invariant: the normal form has the "
            "convert_to_poly list of the term. "
            "For (6) and (7) canonicity is compared against the independent exact-rational evaluator on cancellation-rich pairs "
            "every run, as are the decisions of nat_norm, real_norm, int_eq_macro and int_norm_eq; proplogic.norm_full / sort_conj / "
            "sort_disj on member sets (oracle only). Fast evaluation against checked proof term for every Conv class overriding "
            "eval and for nat_norm. Every Conv subclass of the six modules is run on generated terms of its domain and judged by "
            "the real proof checker; binder-traversing conversions on de Bruijn inputs with clashing names; HISTORIES through the "
            "module-level caches of logic/auto.py (norm_record, solve_record; every *_record/*_cache dict and functools cache of "
            "logic/auto.py, logic/conv.py, data/real.py, data/nat.py, data/integer.py is found by introspection): the same term "
            "normalised with and without conditions in varying orders by auto_conv, real_norm_comparison, combine_atom -- every "
            "result judged on its own (lhs, hypotheses within ITS conditions, checker) and compared with what the same call "
            "returns from a cleared state. THEORIES IN SEQUENCE: a theorem name requested by fresh rewr_conv objects (bare / try / top / "
            "bottom / top_sweep) in the full theory, in nat cut off before that theorem (limit context), and in the full theory "
            "again -- each result judged in the theory it was requested in (own error, or checker-accepted there). LOOK-ALIKE "
            "ATOMS: canonicity and idempotence of all nine normalisers on rearrangements whose atoms are spelled the same and "
            "differ only in the types inside (fq q at q::nat / q::real).",
    "note": "Outside the modelled fragment: of_nat, division by "
            "non-constants, real powers, nat truncated subtraction (atoms). int: from_poly writes powers that int's convert_to_poly "
            "reads as atoms, so from_poly o convert_to_poly is only claimed stable for reals (and ints without power atoms). "
            "Atoms are ranks under term_ord.fast_compare (C03) -- the model's order on atoms is the order on ranks. "
            "The accepted/refused histogram of every decision procedure is in evidence coverage.decision_procedures. The "
            "hypothesis model covers the combinators and first-order monomorphic rewr_conv with conditions (rule hypotheses free of "
            "schematic variables; type instantiation, beta/eta fix-up of higher-order rules and every other Conv class's "
            "hypotheses are judged on the implementation only). That the supplied conditions are instances of the rule's "
            "assumptions (so implies_elim applies) is enforced by the model's matching but not stated as a theorem. int "
            "canonicity holds on fragI only (no exponent 0, powers of atoms); proplogic.norm_full canonicity is oracle-checked, "
            "not proved; of_nat / nat truncated subtraction are still atoms of the models. Trusted: Lean kernel + propext/Classical.choice/Quot.sound, the "
            "generators and the evaluator, kernel.theory.check_proof as the acceptance judge (level-0 macros trusted, see C05).",
    "design_ref": "DESIGN.md 4/C10, 8.6, 8.10",
}
FINDINGS = [
    {"status": "fixed", "key": "logic.auto.auto_conv:crash:RecursionError", "commit": "d255d21",
     "what": "auto_conv on y ^ -(1::real) * y ^ (1 / 2) * y ^ -(1::real) * z (no conditions) ended in RecursionError: norm_mult_atom "
             "re-associated (a * b) * c to a * (b * c) for atoms b, c with the same body and left the product right-nested when "
             "combine_atom could not combine them (positivity of the body unknown); auto.norm then alternated for ever between "
             "y ^ -1 * z * (y ^ (1 / 2) * y ^ -1) and y ^ -1 * (y ^ (1 / 2) * y ^ -1) * z (found by the history stream at seed 1 in a fresh sandbox)"},
    {"status": "fixed", "key": "data.nat.nat_conv:eval-without-proof", "commit": "eeb811d",
     "what": "nat_conv.eval reported |- 5 - 3 = 2 (nat_eval computes truncated subtraction) while get_proof_term raises "
             "ConvException: the fast evaluation claimed an equation the conversion cannot prove"},
    {"status": "fixed", "key": "data.integer.int_norm_eq:refuses-domain-term", "commit": "fdcb0bd",
     "what": "int_norm_eq raised ConvException on EVERY input: it tested t.is_int() on the equation itself (type bool) "
             "instead of on its sides, so the procedure that decides integer equations in proof reconstruction decided nothing"},
    {"status": "fixed", "key": "data.real.real_norm_conv:noncanonical", "commit": "410c6ec",
     "what": "real_norm_conv (and the real_norm macro's can_eval) gave x*y + x*z and x*z + x*y different normal forms: "
             "util.poly.compare_fst compared only the first factor and ignored powers"},
    {"status": "fixed", "key": "real_norm-macro:rejects-equal-polynomials", "commit": "410c6ec",
     "what": "real_norm rejected x*y + x*z = x*z + x*y (same cause)"},
    {"status": "fixed", "key": "data.integer.int_norm_conv:eval-differs", "commit": "f579979",
     "what": "int_norm_conv.eval reported from_poly(convert_to_poly(t)), which differs from the proved normal form on non-linear "
             "terms and raised TypeError on powers (int_power(base, n)); e.g. l + l - (l + j) + 0 + -(3 + j) * j"},
    {"status": "fixed", "key": "data.integer.simp_full:noncanonical", "commit": "27c072e",
     "what": "integer normaliser: j * j normalised to j ^ (1 + 1) but j ^ 2 stayed (exponent sum evaluated with int_eval_conv)"},
    {"status": "fixed", "key": "data.integer.int_norm_conv:noncanonical", "commit": "27c072e",
     "what": "same cause, through int_norm_conv"},
    {"status": "fixed", "key": "data.integer.int_neq_false_conv:lhs-differs", "commit": "5344acd",
     "what": "int_neq_false_conv on (-3 + 2) * (1 + 1) = 0 returned -2 = 0 <--> false (left side is not the input)"},
    {"status": "fixed", "key": "data.proplogic.norm_full:noncanonical", "commit": "afd353d",
     "what": "proplogic.norm_full: (D | A) | ~B | ~D gave A | D | ~B | ~D or A | true depending on the arrangement "
             "(complement only looked for at the head of the sorted tail)"},
    {"status": "fixed", "key": "data.proplogic.norm_full:not-idempotent", "commit": "afd353d",
     "what": "proplogic.norm_full: A | true was a normal form that normalised further to true"},
    {"status": "fixed", "key": "data.integer.int_gcd_compares:crash:IndexError", "commit": "aed4917",
     "what": "int_gcd_compares raised IndexError on 2 * l - -1 * l <= 3 * l - 4 * l + 4 * l + -3 (variables cancel)"},
    {"status": "fixed", "key": "data.real.real_power_conv:crash:ValueError", "commit": "8c13b35",
     "what": "real_power_conv raised ValueError (sympy factorint) on (1 / 4) ^ (1 / 2)"},
]
